//! E7 — corpus harvester. Scans the repository (at check time, from the current working tree)
//! for Quiver source strings: the integration tests' `evaluate("…")` / `then_evaluate("…")`
//! calls with their paired `.expect("…")`, docs/spec.md code fences, std/*.qv, examples/*.qv.
//! Used as seeds and for oracle self-checks — never as the oracle itself.

use std::path::Path;

pub const REPO: &str = "/repo";

#[derive(Clone, Debug)]
pub struct Step {
    pub source: String,
    pub expect: Option<String>,
}

#[derive(Clone, Debug)]
pub struct Session {
    pub file: String,
    pub test: String,
    pub steps: Vec<Step>,
    pub with_modules: bool,
    pub with_io: bool,
}

/// Scan Rust source text and return (callee identifier, string literal) for each call whose
/// first argument is a string literal.
pub fn scan_rust_string_calls(text: &str) -> Vec<(String, String)> {
    let b = text.as_bytes();
    let mut i = 0;
    let mut out = Vec::new();
    while i < b.len() {
        let c = b[i];
        // line comment
        if c == b'/' && i + 1 < b.len() && b[i + 1] == b'/' {
            while i < b.len() && b[i] != b'\n' {
                i += 1;
            }
            continue;
        }
        // block comment
        if c == b'/' && i + 1 < b.len() && b[i + 1] == b'*' {
            i += 2;
            while i + 1 < b.len() && !(b[i] == b'*' && b[i + 1] == b'/') {
                i += 1;
            }
            i += 2;
            continue;
        }
        // raw string
        if c == b'r' && i + 1 < b.len() && (b[i + 1] == b'"' || b[i + 1] == b'#') && !prev_is_ident(b, i) {
            let mut j = i + 1;
            let mut hashes = 0;
            while j < b.len() && b[j] == b'#' {
                hashes += 1;
                j += 1;
            }
            if j < b.len() && b[j] == b'"' {
                let start = j + 1;
                let mut k = start;
                let mut found = None;
                while k < b.len() {
                    if b[k] == b'"' {
                        let mut h = 0;
                        while k + 1 + h < b.len() && h < hashes && b[k + 1 + h] == b'#' {
                            h += 1;
                        }
                        if h == hashes {
                            found = Some(k);
                            break;
                        }
                    }
                    k += 1;
                }
                if let Some(end) = found {
                    let lit = text[start..end].to_string();
                    if let Some(name) = callee_before(text, i) {
                        out.push((name, lit));
                    }
                    i = end + 1 + hashes;
                    continue;
                }
            }
        }
        // char literal (skip) — distinguish from lifetimes
        if c == b'\'' {
            if i + 2 < b.len() && b[i + 1] != b'\\' && b[i + 2] == b'\'' {
                i += 3;
                continue;
            }
            if i + 3 < b.len() && b[i + 1] == b'\\' && b[i + 3] == b'\'' {
                i += 4;
                continue;
            }
        }
        // normal string
        if c == b'"' {
            let lit_start = i;
            let mut s = String::new();
            let mut j = i + 1;
            let mut ok = false;
            while j < b.len() {
                let ch = b[j];
                if ch == b'"' {
                    ok = true;
                    break;
                }
                if ch == b'\\' && j + 1 < b.len() {
                    let e = b[j + 1];
                    match e {
                        b'n' => s.push('\n'),
                        b't' => s.push('\t'),
                        b'r' => s.push('\r'),
                        b'0' => s.push('\0'),
                        b'\\' => s.push('\\'),
                        b'"' => s.push('"'),
                        b'\'' => s.push('\''),
                        b'\n' => {
                            // line continuation: skip following whitespace
                            j += 2;
                            while j < b.len() && (b[j] as char).is_whitespace() {
                                j += 1;
                            }
                            continue;
                        }
                        b'x' if j + 3 < b.len() => {
                            if let Ok(v) = u8::from_str_radix(&text[j + 2..j + 4], 16) {
                                s.push(v as char);
                            }
                            j += 4;
                            continue;
                        }
                        b'u' => {
                            // \u{...}
                            if let Some(close) = text[j..].find('}') {
                                let hexs = &text[j + 3..j + close];
                                if let Ok(v) = u32::from_str_radix(hexs, 16)
                                    && let Some(chr) = char::from_u32(v)
                                {
                                    s.push(chr);
                                }
                                j += close + 1;
                                continue;
                            }
                        }
                        _ => {
                            s.push('\\');
                            s.push(e as char);
                        }
                    }
                    j += 2;
                    continue;
                }
                // copy a full utf-8 char
                let chr = text[j..].chars().next().unwrap();
                s.push(chr);
                j += chr.len_utf8();
            }
            if ok {
                if let Some(name) = callee_before(text, lit_start) {
                    out.push((name, s));
                }
                i = j + 1;
                continue;
            }
        }
        i += 1;
    }
    out
}

fn prev_is_ident(b: &[u8], i: usize) -> bool {
    i > 0 && (b[i - 1].is_ascii_alphanumeric() || b[i - 1] == b'_')
}

/// If the text before `pos` (ignoring whitespace) ends with `ident(`, return ident.
fn callee_before(text: &str, pos: usize) -> Option<String> {
    let before = text[..pos].trim_end();
    let before = before.strip_suffix('(')?;
    let before = before.trim_end();
    let ident: String = before
        .chars()
        .rev()
        .take_while(|c| c.is_ascii_alphanumeric() || *c == '_')
        .collect::<String>()
        .chars()
        .rev()
        .collect();
    if ident.is_empty() { None } else { Some(ident) }
}

pub fn harvest_tests() -> Vec<Session> {
    let mut sessions = Vec::new();
    let dir = format!("{REPO}/quiver-tests/tests");
    let mut files: Vec<_> = std::fs::read_dir(&dir)
        .map(|rd| rd.filter_map(|e| e.ok()).map(|e| e.path()).collect())
        .unwrap_or_else(|_| Vec::new());
    files.sort();
    for path in files {
        let fname = path.file_name().unwrap().to_string_lossy().to_string();
        if !fname.ends_with(".rs") || fname == "common.rs" || fname.starts_with("zz") {
            continue;
        }
        let Ok(text) = std::fs::read_to_string(&path) else { continue };
        for (idx, chunk) in text.split("#[test]").enumerate().skip(1) {
            let test_name = chunk
                .split("fn ")
                .nth(1)
                .and_then(|s| s.split('(').next())
                .unwrap_or("")
                .trim()
                .to_string();
            let with_modules = chunk.contains("with_modules");
            let with_io = chunk.contains("with_io");
            let mut current: Option<Session> = None;
            for (callee, lit) in scan_rust_string_calls(chunk) {
                match callee.as_str() {
                    "evaluate" => {
                        if let Some(s) = current.take() {
                            sessions.push(s);
                        }
                        current = Some(Session {
                            file: fname.clone(),
                            test: format!("{test_name}#{idx}"),
                            steps: vec![Step { source: lit, expect: None }],
                            with_modules,
                            with_io,
                        });
                    }
                    "then_evaluate" => {
                        if let Some(s) = current.as_mut() {
                            s.steps.push(Step { source: lit, expect: None });
                        }
                    }
                    "expect" => {
                        if let Some(s) = current.as_mut()
                            && let Some(last) = s.steps.last_mut()
                            && last.expect.is_none()
                        {
                            last.expect = Some(lit);
                        }
                    }
                    _ => {}
                }
            }
            if let Some(s) = current.take() {
                sessions.push(s);
            }
        }
    }
    sessions
}

/// Code fences of docs/spec.md and README.md.
pub fn harvest_docs() -> Vec<String> {
    let mut out = Vec::new();
    for f in ["docs/spec.md", "README.md"] {
        let Ok(text) = std::fs::read_to_string(format!("{REPO}/{f}")) else { continue };
        let mut in_fence = false;
        let mut cur = String::new();
        for line in text.lines() {
            if line.trim_start().starts_with("```") {
                if in_fence {
                    out.push(std::mem::take(&mut cur));
                }
                in_fence = !in_fence;
                continue;
            }
            if in_fence {
                cur.push_str(line);
                cur.push('\n');
            }
        }
    }
    out
}

pub fn harvest_files(sub: &str) -> Vec<(String, String)> {
    let mut out = Vec::new();
    let dir = format!("{REPO}/{sub}");
    let mut files: Vec<_> = std::fs::read_dir(Path::new(&dir))
        .map(|rd| rd.filter_map(|e| e.ok()).map(|e| e.path()).collect())
        .unwrap_or_else(|_| Vec::new());
    files.sort();
    for p in files {
        if p.extension().map(|e| e == "qv").unwrap_or(false)
            && let Ok(t) = std::fs::read_to_string(&p)
        {
            out.push((p.file_name().unwrap().to_string_lossy().to_string(), t));
        }
    }
    out
}

/// All harvested source texts (tests' steps, docs fences, std, examples), deduplicated, in a
/// stable order.
pub fn all_sources() -> Vec<String> {
    let mut v: Vec<String> = Vec::new();
    for s in harvest_tests() {
        for st in s.steps {
            v.push(st.source);
        }
    }
    v.extend(harvest_docs());
    v.extend(harvest_files("std").into_iter().map(|(_, t)| t));
    v.extend(harvest_files("examples").into_iter().map(|(_, t)| t));
    let mut seen = std::collections::HashSet::new();
    v.retain(|s| !s.trim().is_empty() && seen.insert(s.clone()));
    v
}
