#[allow(unused_imports)]
use qv::{astu, bcv, corpus, fw, gproc, hval, mockfs, pack, props, qrun, refeval, replsim, sim, tygen, tysem};
use fw::*;

fn usage() -> ! {
    eprintln!("usage: qv check <Cxx> [--tier quick|thorough] | qv replay <file> | qv explore <name> [args] | qv fuzz <Cxx> [--runs N] [--jobs J]");
    std::process::exit(2)
}

/// Run the check in a child process. If the checked code kills that process (stack overflow,
/// abort — nothing a panic handler can catch), find the case among the shards' breadcrumbs by
/// replaying each in its own process, and report it as a violation.
fn supervise(ctx: &Ctx, check_args: &[String]) -> i32 {
    let exe = std::env::current_exe().expect("current_exe");
    let base = if std::path::Path::new("/dev/shm").is_dir() { "/dev/shm".to_string() } else { format!("{VERIF_ROOT}/harness/target") };
    let dir = format!("{base}/qv-crumbs-{}", std::process::id());
    let _ = std::fs::remove_dir_all(&dir);
    std::fs::create_dir_all(&dir).expect("crumb dir");
    let mut child = std::process::Command::new(&exe).arg("check").args(check_args).env("QV_INNER", "1").env("QV_CRUMBS", &dir).spawn().expect("spawn check");
    // watchdog: a run that does not finish is inconclusive, never a verdict
    let limit = std::time::Duration::from_secs(match ctx.tier {
        Tier::Quick => 1_500,
        Tier::Thorough => 6 * 3600,
    });
    let t0 = std::time::Instant::now();
    let status = loop {
        match child.try_wait() {
            Ok(Some(st)) => break st,
            Ok(None) => {
                if t0.elapsed() > limit {
                    let _ = child.kill();
                    let _ = child.wait();
                    println!("INCONCLUSIVE: watchdog — the check did not finish within {} s (not a verdict)", limit.as_secs());
                    let _ = std::fs::remove_dir_all(&dir);
                    return 2;
                }
                std::thread::sleep(std::time::Duration::from_millis(200));
            }
            Err(e) => {
                println!("INCONCLUSIVE: cannot wait for the check process: {e}");
                return 2;
            }
        }
    };
    let code = match status.code() {
        Some(c @ 0..=2) => c,
        other => {
            println!("NOTE: the check process died ({status}, code {other:?}); looking for the case among the breadcrumbs");
            let mut culprits = Vec::new();
            let mut files: Vec<_> = std::fs::read_dir(&dir).map(|d| d.filter_map(|e| e.ok().map(|e| e.path())).collect()).unwrap_or_default();
            files.sort();
            for f in &files {
                let out = std::process::Command::new(&exe).arg("replay").arg(f).output();
                if let Ok(o) = out
                    && !matches!(o.status.code(), Some(0..=2))
                {
                    let tail = String::from_utf8_lossy(&o.stderr).lines().rev().take(3).collect::<Vec<_>>().join(" | ");
                    culprits.push((f.clone(), format!("{} ({tail})", o.status)));
                }
            }
            if culprits.is_empty() {
                println!("INCONCLUSIVE: no breadcrumb reproduces the death of the check process");
                2
            } else {
                let rdir = format!("{VERIF_ROOT}/replays/{}", ctx.id);
                let _ = std::fs::create_dir_all(&rdir);
                for (f, how) in &culprits {
                    let text = std::fs::read_to_string(f).unwrap_or_default();
                    let mut j: serde_json::Value = serde_json::from_str(&text).unwrap_or(serde_json::json!({}));
                    j["signature"] = serde_json::json!("process-killed");
                    j["summary"] = serde_json::json!(format!("the checked code killed the process on this case: {how}"));
                    let path = format!("{rdir}/{:016x}.json", hash64(&text));
                    let _ = std::fs::write(&path, serde_json::to_string_pretty(&j).unwrap());
                    println!("VIOLATION property={} replay={path}", ctx.id);
                    println!("  signature: process-killed");
                    println!("  the checked code killed the process on this case: {how}");
                }
                1
            }
        }
    };
    let _ = std::fs::remove_dir_all(&dir);
    code
}

fn main() {
    install_panic_hook();
    let args: Vec<String> = std::env::args().collect();
    if args.len() < 2 {
        usage();
    }
    match args[1].as_str() {
        "check" => {
            if args.len() < 3 {
                usage();
            }
            let id = args[2].clone();
            let mut tier = match std::env::var("VERIF_TIER").ok().as_deref() {
                Some("thorough") => Tier::Thorough,
                _ => Tier::Quick,
            };
            let mut i = 3;
            while i < args.len() {
                if args[i] == "--tier" && i + 1 < args.len() {
                    tier = if args[i + 1] == "thorough" { Tier::Thorough } else { Tier::Quick };
                    i += 1;
                }
                i += 1;
            }
            let seed = std::env::var("VERIF_SEED").ok().and_then(|s| s.parse::<u64>().ok()).unwrap_or(1);
            let shards = std::env::var("QV_SHARDS").ok().and_then(|s| s.parse().ok()).unwrap_or(16);
            let Some(p) = props::find(&id) else {
                eprintln!("unknown property {id}");
                std::process::exit(2);
            };
            let ctx = Ctx { id: p.id, tier, seed, shards, strict: std::env::var("QV_STRICT").is_ok() };
            if std::env::var("QV_INNER").is_ok() || std::env::var("QV_NO_SUPERVISOR").is_ok() {
                // saved inputs of repaired defects (regressions/<Cxx>/*.json, ordinary replay files)
                // are re-judged on every run, whatever the generators happen to produce
                let mut regressed = false;
                let dir = format!("{VERIF_ROOT}/regressions/{}", p.id);
                let mut files: Vec<std::path::PathBuf> = std::fs::read_dir(&dir).map(|rd| rd.flatten().map(|e| e.path()).filter(|f| f.extension().is_some_and(|x| x == "json")).collect()).unwrap_or_default();
                files.sort();
                for f in files {
                    let Ok(text) = std::fs::read_to_string(&f) else { continue };
                    let Ok(j) = serde_json::from_str::<serde_json::Value>(&text) else { continue };
                    let payload = j["replay"].clone();
                    let replay = p.replay;
                    let outcome = match std::thread::Builder::new().stack_size(256 * 1024 * 1024).spawn(move || replay(&payload)).expect("spawn").join() {
                        Ok(r) => r,
                        Err(pn) => Err(format!("replay panicked: {}", panic_message(&pn))),
                    };
                    if let Err(m) = outcome {
                        println!("VIOLATION property={} replay={}", p.id, f.display());
                        println!("  signature: regression:{}", j["signature"].as_str().unwrap_or(""));
                        println!("  a repaired defect is back: {}", truncate(&m, 1500));
                        regressed = true;
                    }
                }
                // the coordinating thread also runs checked code (witnesses, corpus filters)
                let run = p.run;
                let code = match std::thread::Builder::new().stack_size(512 * 1024 * 1024).spawn(move || run(&ctx)).expect("spawn").join() {
                    Ok(c) => c,
                    Err(p) => {
                        eprintln!("HARNESS: the check panicked: {} @ {}", panic_message(&p), last_panic_loc());
                        2
                    }
                };
                std::process::exit(if regressed && code != 2 { 1 } else { code });
            }
            std::process::exit(supervise(&ctx, &args[2..]));
        }
        "replay" => {
            if args.len() < 3 {
                usage();
            }
            let text = std::fs::read_to_string(&args[2]).unwrap_or_else(|e| {
                eprintln!("cannot read {}: {e}", args[2]);
                std::process::exit(2)
            });
            let j: serde_json::Value = serde_json::from_str(&text).unwrap_or_else(|e| {
                eprintln!("bad json: {e}");
                std::process::exit(2)
            });
            let id = j["property"].as_str().unwrap_or("").to_string();
            let Some(p) = props::find(&id) else {
                eprintln!("unknown property {id}");
                std::process::exit(2);
            };
            // same stack size as the shards of a check
            let payload = j["replay"].clone();
            let replay = p.replay;
            let outcome = std::thread::Builder::new().stack_size(256 * 1024 * 1024).spawn(move || replay(&payload)).expect("spawn").join();
            let outcome = match outcome {
                Ok(r) => r,
                Err(p) => Err(format!("replay panicked: {}", panic_message(&p))),
            };
            match outcome {
                Ok(()) => {
                    println!("replay passed: property={id}");
                    std::process::exit(0)
                }
                Err(m) => {
                    println!("VIOLATION property={id} replay={}", args[2]);
                    println!("  {m}");
                    std::process::exit(1)
                }
            }
        }
        "fuzz" => {
            // qv fuzz <Cxx> [--runs N] [--jobs J] — coverage-guided campaign (see fuzzdrv.rs)
            if args.len() < 3 {
                usage();
            }
            install_panic_hook();
            let id = args[2].clone();
            let rest: Vec<String> = args[3..].to_vec();
            let code = std::thread::Builder::new().stack_size(512 * 1024 * 1024).spawn(move || qv::fuzzdrv::run(&id, &rest)).expect("spawn").join().unwrap_or(2);
            std::process::exit(code);
        }
        "explore" => {
            let rest: Vec<String> = args[2..].to_vec();
            let _ = std::thread::Builder::new().stack_size(1024 * 1024 * 1024).spawn(move || props::explore(&rest)).expect("spawn").join();
        }
        _ => usage(),
    }
}
