mod astu;
mod bcv;
mod corpus;
mod fw;
mod gproc;
mod hval;
mod mockfs;
mod props;
mod qrun;
mod sim;
mod tygen;
mod tysem;

use fw::*;

fn usage() -> ! {
    eprintln!("usage: qv check <Cxx> [--tier quick|thorough] | qv replay <file> | qv explore <name> [args]");
    std::process::exit(2)
}

fn main() {
    install_panic_hook();
    let args: Vec<String> = std::env::args().collect();
    if args.len() < 2 {
        usage();
    }
    match args[1].as_str() {
        "check" => {
            if args.len() < 3 {
                usage();
            }
            let id = args[2].clone();
            let mut tier = match std::env::var("VERIF_TIER").ok().as_deref() {
                Some("thorough") => Tier::Thorough,
                _ => Tier::Quick,
            };
            let mut i = 3;
            while i < args.len() {
                if args[i] == "--tier" && i + 1 < args.len() {
                    tier = if args[i + 1] == "thorough" { Tier::Thorough } else { Tier::Quick };
                    i += 1;
                }
                i += 1;
            }
            let seed = std::env::var("VERIF_SEED").ok().and_then(|s| s.parse::<u64>().ok()).unwrap_or(1);
            let shards = std::env::var("QV_SHARDS").ok().and_then(|s| s.parse().ok()).unwrap_or(16);
            let Some(p) = props::find(&id) else {
                eprintln!("unknown property {id}");
                std::process::exit(2);
            };
            let ctx = Ctx { id: p.id, tier, seed, shards, strict: std::env::var("QV_STRICT").is_ok() };
            let code = (p.run)(&ctx);
            std::process::exit(code);
        }
        "replay" => {
            if args.len() < 3 {
                usage();
            }
            let text = std::fs::read_to_string(&args[2]).unwrap_or_else(|e| {
                eprintln!("cannot read {}: {e}", args[2]);
                std::process::exit(2)
            });
            let j: serde_json::Value = serde_json::from_str(&text).unwrap_or_else(|e| {
                eprintln!("bad json: {e}");
                std::process::exit(2)
            });
            let id = j["property"].as_str().unwrap_or("").to_string();
            let Some(p) = props::find(&id) else {
                eprintln!("unknown property {id}");
                std::process::exit(2);
            };
            match (p.replay)(&j["replay"]) {
                Ok(()) => {
                    println!("replay passed: property={id}");
                    std::process::exit(0)
                }
                Err(m) => {
                    println!("VIOLATION property={id} replay={}", args[2]);
                    println!("  {m}");
                    std::process::exit(1)
                }
            }
        }
        "explore" => {
            props::explore(&args[2..]);
        }
        _ => usage(),
    }
}
