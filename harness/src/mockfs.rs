//! Instrumented in-memory EffectBackend: files are byte vectors, every call is logged.

use crate::qrun::Eff;
use quiver_core::effects::{EffectBackend, EffectError, EffectResult, ResultTupleInfo};
use quiver_core::error::Error;
use quiver_core::process::ProcessId;
use quiver_core::value::{Binary, ResourceId, Value};
use std::collections::{BTreeMap, VecDeque};
use std::sync::{Arc, Mutex};

#[derive(Clone, Debug, PartialEq)]
pub enum LogEntry {
    /// execute() of a resource-creating effect; `res` is the id handed out (if it succeeded)
    Open { pid: ProcessId, path: Vec<u8>, res: Option<ResourceId> },
    /// execute() of a resource-using effect
    Use { pid: ProcessId, res: ResourceId, op: &'static str, offset: u64 },
    /// execute() of a Stat effect (used as a role tag)
    Stat { pid: ProcessId, path: Vec<u8> },
    /// close_resource() called by the environment's automatic cleanup
    AutoClose { res: ResourceId },
    /// an explicit FileClose effect
    ExplicitClose { pid: ProcessId, res: ResourceId },
    Other { pid: ProcessId, what: String },
}

#[derive(Default)]
pub struct Shared {
    pub log: Vec<LogEntry>,
    pub open: BTreeMap<ResourceId, Vec<u8>>, // resource -> content
}

pub struct MockBackend {
    pub shared: Arc<Mutex<Shared>>,
    next_res: ResourceId,
    file_type_id: usize,
    /// completions held back: (calls to process_completions still to wait, pid, result)
    deferred: VecDeque<(u32, ProcessId, EffectResult)>,
    /// 0 = always immediate; n > 0: every n-th effect completes later through process_completions
    defer_every: u32,
    defer_for: u32,
    count: u32,
    /// number of deferred completions outstanding (lets the simulator know the environment has work)
    pub pending: Arc<std::sync::atomic::AtomicUsize>,
}

impl MockBackend {
    pub fn new(shared: Arc<Mutex<Shared>>, defer_every: u32, defer_for: u32, pending: Arc<std::sync::atomic::AtomicUsize>) -> Self {
        MockBackend { shared, next_res: 1, file_type_id: 0, deferred: VecDeque::new(), defer_every, defer_for, count: 0, pending }
    }

    fn finish(&mut self, pid: ProcessId, r: EffectResult) -> Result<Option<EffectResult>, Error> {
        self.count += 1;
        if self.defer_every > 0 && self.count % self.defer_every == 0 {
            self.deferred.push_back((self.defer_for, pid, r));
            self.pending.store(self.deferred.len(), std::sync::atomic::Ordering::Relaxed);
            Ok(None)
        } else {
            Ok(Some(r))
        }
    }
}

impl EffectBackend for MockBackend {
    type E = Eff;

    fn execute(&mut self, pid: ProcessId, effect: Eff) -> Result<Option<EffectResult>, Error> {
        use quiver_io::NativeEffect as N;
        let mut sh = self.shared.lock().unwrap();
        let r: EffectResult = match effect {
            N::FileOpen { path, .. } => {
                if path.starts_with(b"fail") {
                    sh.log.push(LogEntry::Open { pid, path: path.clone(), res: None });
                    Err(EffectError::NotFound(String::from_utf8_lossy(&path).into_owned()))
                } else {
                    let id = self.next_res;
                    self.next_res += 1;
                    sh.open.insert(id, b"0123456789abcdef".to_vec());
                    sh.log.push(LogEntry::Open { pid, path, res: Some(id) });
                    Ok((Value::Resource(id, self.file_type_id), vec![]))
                }
            }
            N::FileRead { resource_id, offset, length } => {
                sh.log.push(LogEntry::Use { pid, res: resource_id, op: "read", offset });
                match sh.open.get(&resource_id) {
                    Some(content) => {
                        let start = (offset as usize % 1000).min(content.len());
                        let end = (start + length).min(content.len());
                        Ok((Value::Binary(Binary::Heap(0)), vec![content[start..end].to_vec()]))
                    }
                    None => Err(EffectError::Other(format!("resource {resource_id} is not open"))),
                }
            }
            N::FileWrite { resource_id, offset, data } => {
                sh.log.push(LogEntry::Use { pid, res: resource_id, op: "write", offset });
                match sh.open.get(&resource_id) {
                    Some(_) => Ok((Value::Integer(num_bigint::BigInt::from(data.len())), vec![])),
                    None => Err(EffectError::Other(format!("resource {resource_id} is not open"))),
                }
            }
            N::FileFlush { resource_id } => {
                sh.log.push(LogEntry::Use { pid, res: resource_id, op: "flush", offset: 0 });
                Ok((Value::ok(), vec![]))
            }
            N::FileClose { resource_id } => {
                sh.log.push(LogEntry::ExplicitClose { pid, res: resource_id });
                sh.open.remove(&resource_id);
                Ok((Value::ok(), vec![]))
            }
            N::Stat { path } => {
                sh.log.push(LogEntry::Stat { pid, path });
                Ok((Value::nil(), vec![]))
            }
            other => {
                sh.log.push(LogEntry::Other { pid, what: format!("{other:?}") });
                Err(EffectError::Other("unsupported by the mock backend".into()))
            }
        };
        drop(sh);
        self.finish(pid, r)
    }

    fn process_completions(&mut self) -> Vec<(ProcessId, EffectResult)> {
        let mut out = Vec::new();
        let mut keep = VecDeque::new();
        while let Some((n, pid, r)) = self.deferred.pop_front() {
            if n == 0 {
                out.push((pid, r));
            } else {
                keep.push_back((n - 1, pid, r));
            }
        }
        self.deferred = keep;
        self.pending.store(self.deferred.len(), std::sync::atomic::Ordering::Relaxed);
        out
    }

    fn close_resource(&mut self, resource_id: ResourceId) {
        let mut sh = self.shared.lock().unwrap();
        sh.log.push(LogEntry::AutoClose { res: resource_id });
        sh.open.remove(&resource_id);
    }

    fn set_type_ids(&mut self, resources: &[String], _results: &[(String, ResultTupleInfo)]) {
        if let Some(i) = resources.iter().position(|r| r == "File") {
            self.file_type_id = i;
        }
    }
}

pub fn has_pending(b: &MockBackend) -> bool {
    !b.deferred.is_empty()
}
