//! E5a — generator of closed, contractive type trees, their registration in a `Program`, their
//! rendering as Quiver type syntax, and dice-driven mutations that produce related types.
//!
//! Recursive types use de Bruijn-style back references exactly like `Type::Cycle(k)`: `Back(k)`
//! is the k-th enclosing *boundary* (union or function type), 1 = the nearest.

use proptest::prelude::*;
use quiver_core::program::Program;
use quiver_core::types::Type;

#[derive(Clone, Debug, PartialEq, Eq, Hash)]
pub enum Ty {
    Int,
    Bin,
    Ref,
    Never,
    Tuple { name: Option<String>, fields: Vec<(Option<String>, Ty)> },
    Partial { name: Option<String>, fields: Vec<(String, Ty)> },
    Union(Vec<Ty>),
    Fn { p: Box<Ty>, r: Box<Ty> },
    Proc { send: Box<Ty>, recv: Box<Ty> },
    Back(usize),
}

pub const NAMES: [&str; 4] = ["A", "B", "C", "D"];
pub const LABELS: [&str; 3] = ["x", "y", "z"];

impl Ty {
    pub fn nil() -> Ty {
        Ty::Tuple { name: None, fields: vec![] }
    }
    pub fn unit(n: &str) -> Ty {
        Ty::Tuple { name: Some(n.into()), fields: vec![] }
    }
    pub fn is_boundary(&self) -> bool {
        matches!(self, Ty::Union(_) | Ty::Fn { .. })
    }
    pub fn children(&self) -> Vec<&Ty> {
        match self {
            Ty::Tuple { fields, .. } => fields.iter().map(|(_, t)| t).collect(),
            Ty::Partial { fields, .. } => fields.iter().map(|(_, t)| t).collect(),
            Ty::Union(v) => v.iter().collect(),
            Ty::Fn { p, r } => vec![p, r],
            Ty::Proc { send, recv } => vec![send, recv],
            _ => vec![],
        }
    }
    pub fn children_mut(&mut self) -> Vec<&mut Ty> {
        match self {
            Ty::Tuple { fields, .. } => fields.iter_mut().map(|(_, t)| t).collect(),
            Ty::Partial { fields, .. } => fields.iter_mut().map(|(_, t)| t).collect(),
            Ty::Union(v) => v.iter_mut().collect(),
            Ty::Fn { p, r } => vec![p, r],
            Ty::Proc { send, recv } => vec![send, recv],
            _ => vec![],
        }
    }
    pub fn size(&self) -> usize {
        1 + self.children().iter().map(|c| c.size()).sum::<usize>()
    }
    pub fn has_back(&self) -> bool {
        matches!(self, Ty::Back(_)) || self.children().iter().any(|c| c.has_back())
    }
    pub fn has_fn_or_proc(&self) -> bool {
        matches!(self, Ty::Fn { .. } | Ty::Proc { .. }) || self.children().iter().any(|c| c.has_fn_or_proc())
    }
    pub fn has_partial(&self) -> bool {
        matches!(self, Ty::Partial { .. }) || self.children().iter().any(|c| c.has_partial())
    }
    /// a union strictly below a tuple, partial, function or process constructor
    pub fn has_union_under_constructor(&self) -> bool {
        fn go(t: &Ty, under: bool) -> bool {
            match t {
                Ty::Union(v) => under || v.iter().any(|c| go(c, under)),
                Ty::Tuple { .. } | Ty::Partial { .. } | Ty::Fn { .. } | Ty::Proc { .. } => t.children().iter().any(|c| go(c, true)),
                _ => false,
            }
        }
        go(self, false)
    }
}

fn leaf() -> impl Strategy<Value = Ty> {
    prop_oneof![
        4 => Just(Ty::Int),
        3 => Just(Ty::Bin),
        1 => Just(Ty::Ref),
        2 => Just(Ty::nil()),
        3 => (0usize..4).prop_map(|i| Ty::unit(NAMES[i])),
        4 => (1usize..4).prop_map(Ty::Back),
    ]
}

fn opt_name() -> impl Strategy<Value = Option<String>> {
    prop_oneof![2 => Just(None), 3 => (0usize..4).prop_map(|i| Some(NAMES[i].to_string()))]
}

fn opt_label() -> impl Strategy<Value = Option<String>> {
    prop_oneof![2 => Just(None), 2 => (0usize..3).prop_map(|i| Some(LABELS[i].to_string()))]
}

/// Raw trees (not yet normalised).
pub fn raw_ty(with_fn: bool) -> impl Strategy<Value = Ty> {
    leaf().prop_recursive(4, 24, 3, move |inner| {
        let tuple = (opt_name(), prop::collection::vec((opt_label(), inner.clone()), 0..4)).prop_map(|(name, fields)| Ty::Tuple { name, fields });
        let partial = (opt_name(), prop::collection::vec(((0usize..3).prop_map(|i| LABELS[i].to_string()), inner.clone()), 1..3)).prop_map(|(name, fields)| Ty::Partial { name, fields });
        let union = prop::collection::vec(inner.clone(), 2..4).prop_map(Ty::Union);
        let func = (inner.clone(), prop_oneof![4 => inner.clone(), 1 => Just(Ty::Never)]).prop_map(|(p, r)| Ty::Fn { p: Box::new(p), r: Box::new(r) });
        let proc_ = (inner.clone(), inner.clone()).prop_map(|(s, r)| Ty::Proc { send: Box::new(s), recv: Box::new(r) });
        if with_fn {
            prop_oneof![5 => tuple, 2 => partial, 5 => union, 2 => func, 1 => proc_].boxed()
        } else {
            prop_oneof![5 => tuple, 2 => partial, 5 => union].boxed()
        }
    })
}

pub fn ty(with_fn: bool) -> impl Strategy<Value = Ty> {
    raw_ty(with_fn).prop_map(normalize)
}

/// Bring a raw tree into the compiler's normal form and make it closed and contractive:
/// no union directly inside a union, no duplicate or single variants, partial labels distinct,
/// every `Back(k)` points at an existing boundary and is guarded by a tuple/partial/function/
/// process constructor, every union keeps a variant without back references.
pub fn normalize(t: Ty) -> Ty {
    let t = norm_shape(t);
    let mut t = t;
    fix_backs(&mut t, &mut Vec::new());
    // fixing backs can create duplicates (Back -> Int): one more shape pass, then a final fix
    let mut t = norm_shape(t);
    fix_backs(&mut t, &mut Vec::new());
    t
}

fn norm_shape(t: Ty) -> Ty {
    match t {
        Ty::Tuple { name, fields } => {
            // labels must be distinct
            let mut seen: Vec<String> = Vec::new();
            let fields = fields
                .into_iter()
                .map(|(l, t)| {
                    let l = match l {
                        Some(l) if seen.contains(&l) => None,
                        Some(l) => {
                            seen.push(l.clone());
                            Some(l)
                        }
                        None => None,
                    };
                    (l, norm_shape(t))
                })
                .collect();
            Ty::Tuple { name, fields }
        }
        Ty::Partial { name, fields } => {
            let mut seen: Vec<String> = Vec::new();
            let mut out = Vec::new();
            for (l, t) in fields {
                if !seen.contains(&l) {
                    seen.push(l.clone());
                    out.push((l, norm_shape(t)));
                }
            }
            Ty::Partial { name, fields: out }
        }
        Ty::Union(vs) => {
            let mut out: Vec<Ty> = Vec::new();
            for v in vs {
                let v = norm_shape(v);
                // a union directly inside a union would be flattened by the compiler (shifting
                // the meaning of back references); box it instead
                let v = match v {
                    Ty::Union(_) => Ty::Tuple { name: Some("W".into()), fields: vec![(None, v)] },
                    Ty::Never => Ty::unit("N"),
                    // a bare back reference as a variant is unguarded
                    Ty::Back(_) => Ty::Int,
                    other => other,
                };
                if !out.contains(&v) {
                    out.push(v);
                }
            }
            if !out.iter().any(|v| !v.has_back()) {
                out.push(Ty::unit("Z"));
            }
            if out.len() < 2 {
                let extra = if out[0] == Ty::nil() { Ty::unit("Z") } else { Ty::nil() };
                out.push(extra);
            }
            Ty::Union(out)
        }
        Ty::Fn { p, r } => Ty::Fn { p: Box::new(norm_shape(*p)), r: Box::new(norm_shape(*r)) },
        Ty::Proc { send, recv } => {
            let fixn = |t: Ty| if t == Ty::Never { Ty::Int } else { t };
            Ty::Proc { send: Box::new(fixn(norm_shape(*send))), recv: Box::new(fixn(norm_shape(*recv))) }
        }
        other => other,
    }
}

/// `stack[i]` = "is there a guard constructor between boundary i and here".
fn fix_backs(t: &mut Ty, stack: &mut Vec<bool>) {
    match t {
        Ty::Back(k) => {
            let ok = *k >= 1 && *k <= stack.len() && stack[stack.len() - *k];
            if !ok {
                // re-aim at the nearest guarded boundary, if there is one
                match (1..=stack.len()).find(|j| stack[stack.len() - *j]) {
                    Some(j) => *k = j,
                    None => *t = Ty::Int,
                }
            }
        }
        Ty::Union(vs) => {
            stack.push(false);
            for v in vs.iter_mut() {
                fix_backs(v, stack);
            }
            stack.pop();
        }
        Ty::Fn { p, r } => {
            let saved = stack.clone();
            for g in stack.iter_mut() {
                *g = true;
            }
            stack.push(true);
            fix_backs(p, stack);
            fix_backs(r, stack);
            *stack = saved;
        }
        Ty::Tuple { .. } | Ty::Partial { .. } | Ty::Proc { .. } => {
            let saved = stack.clone();
            for g in stack.iter_mut() {
                *g = true;
            }
            for c in t.children_mut() {
                fix_backs(c, stack);
            }
            *stack = saved;
        }
        _ => {}
    }
}

/// Register the tree bottom-up through the public `register_*` API.
pub fn register(t: &Ty, p: &mut Program) -> usize {
    match t {
        Ty::Int => p.register_type(Type::Integer),
        Ty::Bin => p.register_type(Type::Binary),
        Ty::Ref => p.register_type(Type::Reference),
        Ty::Never => p.never(),
        Ty::Tuple { name, fields } => {
            let fs: Vec<(Option<String>, usize)> = fields.iter().map(|(l, t)| (l.clone(), register(t, p))).collect();
            let tid = p.register_tuple(name.clone(), fs);
            p.register_type(Type::Tuple(tid))
        }
        Ty::Partial { name, fields } => {
            let fs: Vec<(String, usize)> = fields.iter().map(|(l, t)| (l.clone(), register(t, p))).collect();
            p.register_type(Type::Partial { name: name.clone(), fields: fs })
        }
        Ty::Union(vs) => {
            let ids: Vec<usize> = vs.iter().map(|v| register(v, p)).collect();
            p.register_type(Type::Union(ids))
        }
        Ty::Fn { p: param, r } => {
            let parameter = register(param, p);
            let result = register(r, p);
            let receive = p.never();
            p.register_type(Type::Callable { parameter, result, receive })
        }
        Ty::Proc { send, recv } => {
            let s = register(send, p);
            let r = register(recv, p);
            p.register_type(Type::Process { send: Some(s), receive: Some(r) })
        }
        Ty::Back(k) => p.register_type(Type::Cycle(*k)),
    }
}

/// Quiver type syntax. `depth` = number of enclosing boundaries.
pub fn render(t: &Ty) -> String {
    fn go(t: &Ty, depth: usize, top: bool) -> String {
        match t {
            Ty::Int => "'int".into(),
            Ty::Bin => "'bin".into(),
            Ty::Ref => "'ref".into(),
            Ty::Never => "'never".into(),
            Ty::Tuple { name, fields } => {
                let fs: Vec<String> = fields.iter().map(|(l, t)| match l {
                    Some(l) => format!("{l}: {}", go(t, depth, false)),
                    None => go(t, depth, false),
                }).collect();
                match (name, fs.is_empty()) {
                    (Some(n), true) => n.clone(),
                    (Some(n), false) => format!("{n}[{}]", fs.join(", ")),
                    (None, _) => format!("[{}]", fs.join(", ")),
                }
            }
            Ty::Partial { name, fields } => {
                let fs: Vec<String> = fields.iter().map(|(l, t)| format!("{l}: {}", go(t, depth, false))).collect();
                format!("{}({})", name.clone().unwrap_or_default(), fs.join(", "))
            }
            Ty::Union(vs) => {
                let s = vs.iter().map(|v| go(v, depth + 1, false)).collect::<Vec<_>>().join(" | ");
                if top { s } else { format!("({s})") }
            }
            Ty::Fn { p, r } => format!("(#{} -> {})", go(p, depth + 1, false), go(r, depth + 1, false)),
            Ty::Proc { send, recv } => format!("(@{} -> {})", go(send, depth, false), go(recv, depth, false)),
            Ty::Back(k) => {
                let target = depth - *k;
                if target == 0 { "^".into() } else { format!("^{target}") }
            }
        }
    }
    go(t, 0, true)
}

/// Add `by` to every back reference that escapes the subtree.
fn shift_escaping(t: &mut Ty, by: isize, depth: usize) {
    match t {
        Ty::Back(k) => {
            if *k > depth {
                *k = ((*k as isize) + by).max(0) as usize;
            }
        }
        Ty::Union(_) | Ty::Fn { .. } => {
            for c in t.children_mut() {
                shift_escaping(c, by, depth + 1);
            }
        }
        _ => {
            for c in t.children_mut() {
                shift_escaping(c, by, depth);
            }
        }
    }
}

fn count_nodes(t: &Ty) -> usize {
    t.size()
}

/// Visit the `n`-th node in pre-order with its boundary stack (clones of the enclosing boundary
/// nodes, outermost first).
fn with_node<R>(t: &mut Ty, n: &mut usize, stack: &mut Vec<Ty>, f: &mut dyn FnMut(&mut Ty, &[Ty]) -> R) -> Option<R> {
    if *n == 0 {
        return Some(f(t, stack));
    }
    *n -= 1;
    let pushed = t.is_boundary();
    if pushed {
        stack.push(t.clone());
    }
    let mut out = None;
    for c in t.children_mut() {
        if let Some(r) = with_node(c, n, stack, f) {
            out = Some(r);
            break;
        }
    }
    if pushed {
        stack.pop();
    }
    out
}

fn leaf_from(d: u8) -> Ty {
    match d % 7 {
        0 => Ty::Int,
        1 => Ty::Bin,
        2 => Ty::nil(),
        3 => Ty::unit("A"),
        4 => Ty::unit("B"),
        5 => Ty::Tuple { name: Some("C".into()), fields: vec![(None, Ty::Int)] },
        _ => Ty::Tuple { name: None, fields: vec![(Some("x".into()), Ty::Bin)] },
    }
}

/// One dice-driven mutation; the result is normalised again. Mutations are chosen so that the
/// result is often a super- or subtype of the input, or denotes the same set.
pub fn mutate(t: &Ty, dice: &[u8]) -> Ty {
    let d = |i: usize| dice.get(i).copied().unwrap_or(0);
    let mut t = t.clone();
    let total = count_nodes(&t);
    let mut idx = (d(0) as usize * total) >> 8;
    let op = d(1) % 14;
    let a = d(2);
    let b = d(3);
    with_node(&mut t, &mut idx, &mut Vec::new(), &mut |node, stack| {
        match op {
            // widen: add a variant
            0 | 1 => match node {
                Ty::Union(vs) => vs.push(leaf_from(a)),
                other => {
                    let mut inner = other.clone();
                    shift_escaping(&mut inner, 1, 0);
                    *other = Ty::Union(vec![inner, leaf_from(a)]);
                }
            },
            // narrow: drop a variant
            2 => {
                if let Ty::Union(vs) = node
                    && vs.len() > 2
                {
                    let i = a as usize % vs.len();
                    vs.remove(i);
                }
            }
            // same set: rotate variants
            3 => {
                if let Ty::Union(vs) = node {
                    let k = 1 + a as usize % (vs.len() - 1).max(1);
                    let n = vs.len().max(1);
                    vs.rotate_left(k % n);
                }
            }
            // same set: unfold a back reference once
            4 | 5 => {
                if let Ty::Back(k) = node
                    && *k <= stack.len()
                {
                    let mut copy = stack[stack.len() - *k].clone();
                    shift_escaping(&mut copy, *k as isize, 0);
                    *node = copy;
                }
            }
            // change a leaf
            6 => {
                if node.children().is_empty() && !matches!(node, Ty::Back(_)) {
                    *node = leaf_from(a);
                }
            }
            // tuple -> partial over a subset of its labelled fields (a supertype)
            7 => {
                if let Ty::Tuple { name, fields } = node {
                    let labelled: Vec<(String, Ty)> = fields.iter().filter_map(|(l, t)| l.clone().map(|l| (l, t.clone()))).collect();
                    if !labelled.is_empty() {
                        let keep = 1 + a as usize % labelled.len();
                        let nm = if b % 2 == 0 { name.clone() } else { None };
                        *node = Ty::Partial { name: nm, fields: labelled.into_iter().take(keep).collect() };
                    }
                }
            }
            // partial: drop a field / drop the name (supertypes)
            8 => {
                if let Ty::Partial { name, fields } = node {
                    if fields.len() > 1 && a % 2 == 0 {
                        fields.remove(b as usize % fields.len());
                    } else {
                        *name = None;
                    }
                }
            }
            // rename / relabel (usually unrelated)
            9 => match node {
                Ty::Tuple { name, fields } => {
                    if a % 2 == 0 || fields.is_empty() {
                        *name = Some(NAMES[b as usize % 4].to_string());
                    } else {
                        let i = b as usize % fields.len();
                        let l = LABELS[a as usize % 3].to_string();
                        if !fields.iter().any(|(x, _)| x.as_deref() == Some(l.as_str())) {
                            fields[i].0 = Some(l);
                        }
                    }
                }
                Ty::Partial { name, .. } => *name = Some(NAMES[b as usize % 4].to_string()),
                _ => {}
            },
            // add / remove a tuple field
            10 => {
                if let Ty::Tuple { fields, .. } = node {
                    if a % 2 == 0 && fields.len() < 4 {
                        fields.push((None, leaf_from(b)));
                    } else if !fields.is_empty() {
                        fields.remove(b as usize % fields.len());
                    }
                }
            }
            // split a tuple variant: a second copy that differs in one field, so that both
            // variants share their other (possibly union-typed) fields
            12 | 13 => {
                let split = |tp: &Ty| -> Option<Ty> {
                    if let Ty::Tuple { name, fields } = tp
                        && !fields.is_empty()
                    {
                        let j = a as usize % fields.len();
                        let mut f2 = fields.clone();
                        let mut nl = leaf_from(b);
                        if nl == f2[j].1 {
                            nl = leaf_from(b.wrapping_add(1));
                        }
                        f2[j].1 = nl;
                        Some(Ty::Tuple { name: name.clone(), fields: f2 })
                    } else {
                        None
                    }
                };
                match node {
                    Ty::Union(vs) => {
                        let cands: Vec<usize> = (0..vs.len()).filter(|i| matches!(&vs[*i], Ty::Tuple { fields, .. } if !fields.is_empty())).collect();
                        if !cands.is_empty() {
                            let i = cands[b as usize % cands.len()];
                            if let Some(copy) = split(&vs[i]) {
                                vs.insert(i + (a as usize % 2), copy);
                            }
                        }
                    }
                    other => {
                        if let Some(mut copy) = split(other) {
                            let mut inner = other.clone();
                            shift_escaping(&mut inner, 1, 0);
                            shift_escaping(&mut copy, 1, 0);
                            *other = if a % 2 == 0 { Ty::Union(vec![inner, copy]) } else { Ty::Union(vec![copy, inner]) };
                        }
                    }
                }
            }
            // swap function parameter and result, or process directions
            _ => match node {
                Ty::Fn { p, r } => {
                    if **r != Ty::Never {
                        std::mem::swap(p, r);
                    }
                }
                Ty::Proc { send, recv } => std::mem::swap(send, recv),
                _ => {}
            },
        }
    });
    normalize(t)
}

#[cfg(test)]
mod tests {
    use super::*;
    #[test]
    fn render_list() {
        let t = Ty::Union(vec![Ty::unit("Nil"), Ty::Tuple { name: Some("Cons".into()), fields: vec![(None, Ty::Int), (None, Ty::Back(1))] }]);
        assert_eq!(render(&t), "Nil | Cons['int, ^]");
        assert_eq!(normalize(t.clone()), t);
    }
}
