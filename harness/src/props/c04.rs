//! C04 — messages: exactly-once, per-sender FIFO, and no lost wake-ups.

use crate::fw::*;
use crate::hval::HVal;
use crate::props::c03::{QUANTA, end_kind};
use crate::qrun;
use crate::sim::{self, SimCfg, SimEnd};
use num_traits::ToPrimitive;
use proptest::prelude::*;
use serde_json::json;
use std::collections::BTreeMap;
use std::time::Instant;

#[derive(Clone, Debug)]
pub enum Recv {
    /// take everything in arrival order
    All,
    /// first take all messages of one sender through a capturing filter, then the rest
    TagFirst { tag: u8 },
    /// select mixing a typed receive with an await of a helper process
    Mix { helper_work: u16 },
    /// every message through a filter on the sequence number parity: evens first, then odds
    ParityFirst,
}

#[derive(Clone, Debug)]
pub struct Scn {
    pub senders: Vec<(u8, u16)>, // (messages, busy work between sends)
    pub recv: Recv,
    pub late_receiver: u16, // busy work the receiver does before its first receive
    pub observers: u8,      // extra processes that await the receiver (and the first sender) while it runs
}

#[derive(Clone, Debug)]
pub struct Case {
    pub scn: Scn,
    pub cfgs: Vec<(u8, u8, Vec<u8>)>,
}

pub fn strategy(n_cfgs: usize) -> impl Strategy<Value = Case> {
    let work = prop_oneof![3 => 0u16..10, 2 => 10u16..200, 1 => 200u16..1500];
    let recv = prop_oneof![
        2 => Just(Recv::All),
        3 => (0u8..4).prop_map(|tag| Recv::TagFirst { tag }),
        3 => work.clone().prop_map(|helper_work| Recv::Mix { helper_work }),
        2 => Just(Recv::ParityFirst),
    ];
    let scn = (prop::collection::vec((1u8..5, work.clone()), 2..5), recv, work, prop_oneof![2 => Just(0u8), 3 => 1u8..5]).prop_map(|(senders, recv, late_receiver, observers)| Scn { senders, recv, late_receiver, observers });
    let cfg = (1u8..=5, 0u8..6, prop::collection::vec(any::<u8>(), 0..220));
    (scn, prop::collection::vec(cfg, n_cfgs)).prop_map(|(scn, cfgs)| Case { scn, cfgs })
}

const PRELUDE: &str = "\
'msg = Msg['int, 'int],
'log = Nil | Cons['msg, ^],
loop = #['int, 'int] { =[n, acc], { | [n, 0] __integer_compare__ =0 => acc | [[n, 1] __integer_subtract__, [acc, n] __integer_add__] ^ } },
w = #'int { [~, 0] loop },
sender = #[(@'msg), 'int, 'int, 'int, 'int] { =[dst, tag, i, n, work], { | [i, n] __integer_compare__ =0 => Sent | { Msg[tag, i] dst, work w, [&dst, tag, [i, 1] __integer_add__, n, work] ^ } } },
recv_all = #['int, 'log] { =[k, acc], { | [k, 0] __integer_compare__ =0 => acc | [[k, 1] __integer_subtract__, Cons[!#'msg, acc]] ^ } },
recv_tag = #['int, 'int, 'log] { =[t, k, acc], { | [k, 0] __integer_compare__ =0 => acc | [t, [k, 1] __integer_subtract__, Cons[! [#'msg { =Msg[&t, _] => Ok }], acc]] ^ } },
recv_par = #['int, 'int, 'log] { =[p, k, acc], { | [k, 0] __integer_compare__ =0 => acc | [p, [k, 1] __integer_subtract__, Cons[! [#'msg { =Msg[_, i] => { [i, 2] __integer_modulo__ =&p => Ok } }], acc]] ^ } },
mix = #['int, 'log, (@-> 'int)] { =[k, acc, h], { | [k, 0] __integer_compare__ =0 => [acc, !h] | ! [#'msg, h] { | =Msg[t, i] => [[k, 1] __integer_subtract__, Cons[Msg[t, i], acc], &h] ^ | =('int)x => [k, acc, &h] ^ } } }";

pub fn render(s: &Scn) -> String {
    let total: usize = s.senders.iter().map(|(n, _)| *n as usize).sum();
    let mut lines = vec![PRELUDE.to_string()];
    let pre = format!("! [#'msg {{ [] }}, 0] Ok, {} w", s.late_receiver);
    let body = match &s.recv {
        Recv::All => format!("[{total}, Nil] ^recv_all"),
        Recv::TagFirst { tag } => {
            let t = (*tag as usize) % s.senders.len();
            let nt = s.senders[t].0 as usize;
            format!("[{t}, {nt}, Nil] recv_tag =first, [{}, first] ^recv_all", total - nt)
        }
        Recv::Mix { helper_work } => format!("h = {helper_work} @w, [{total}, Nil, &h] ^mix"),
        Recv::ParityFirst => {
            let evens: usize = s.senders.iter().map(|(n, _)| (*n as usize).div_ceil(2)).sum();
            format!("[0, {evens}, Nil] recv_par =first, [1, {}, first] ^recv_par", total - evens)
        }
    };
    lines.push(format!("r = @#{{ {pre}, {body} }}"));
    for (i, (n, work)) in s.senders.iter().enumerate() {
        lines.push(format!("s{i} = [&r, {i}, 0, {n}, {work}] @sender"));
    }
    for i in 0..s.observers {
        lines.push(format!("o{i} = @{{ !r, !s0 }}"));
    }
    let mut fields = vec!["!r".to_string()];
    for i in 0..s.senders.len() {
        fields.push(format!("!s{i}"));
    }
    for i in 0..s.observers {
        fields.push(format!("!o{i}"));
    }
    lines.push(format!("[{}]", fields.join(", ")));
    lines.join(",\n")
}

fn parse_log(v: &HVal) -> Option<Vec<(i64, i64)>> {
    let mut out = Vec::new();
    let mut cur = v;
    loop {
        match cur {
            HVal::Tuple(Some(n), f) if n == "Nil" && f.is_empty() => {
                out.reverse();
                return Some(out);
            }
            HVal::Tuple(Some(n), f) if n == "Cons" && f.len() == 2 => {
                match &f[0].1 {
                    HVal::Tuple(Some(m), mf) if m == "Msg" && mf.len() == 2 => match (&mf[0].1, &mf[1].1) {
                        (HVal::Int(a), HVal::Int(b)) => out.push((a.to_i64()?, b.to_i64()?)),
                        _ => return None,
                    },
                    _ => return None,
                }
                cur = &f[1].1;
            }
            _ => return None,
        }
    }
}

/// History invariant on the receiver's log.
pub fn judge_log(s: &Scn, log: &[(i64, i64)]) -> Result<(), String> {
    let mut seen: BTreeMap<(i64, i64), usize> = BTreeMap::new();
    for m in log {
        *seen.entry(*m).or_insert(0) += 1;
    }
    for (tag, (n, _)) in s.senders.iter().enumerate() {
        for i in 0..*n as i64 {
            match seen.get(&(tag as i64, i)).copied().unwrap_or(0) {
                1 => {}
                0 => return Err(format!("message Msg[{tag}, {i}] was sent but never received (lost)")),
                k => return Err(format!("message Msg[{tag}, {i}] was received {k} times (duplicated)")),
            }
        }
    }
    let expected: usize = s.senders.iter().map(|(n, _)| *n as usize).sum();
    if log.len() != expected {
        return Err(format!("receiver log has {} entries, {} were sent (a message was invented)", log.len(), expected));
    }
    // per-sender FIFO, within each receive phase (a filtered phase takes a sender's messages in order too)
    let phases: Vec<Vec<(i64, i64)>> = match &s.recv {
        Recv::ParityFirst => {
            let evens: usize = s.senders.iter().map(|(n, _)| (*n as usize).div_ceil(2)).sum();
            vec![log[..evens.min(log.len())].to_vec(), log[evens.min(log.len())..].to_vec()]
        }
        _ => vec![log.to_vec()],
    };
    for ph in &phases {
        let mut last: BTreeMap<i64, i64> = BTreeMap::new();
        for (tag, i) in ph {
            if let Some(prev) = last.get(tag)
                && prev >= i
            {
                return Err(format!("sender {tag}: message {i} was received after message {prev} (per-sender order broken)"));
            }
            last.insert(*tag, *i);
        }
    }
    // phase membership
    match &s.recv {
        Recv::TagFirst { tag } => {
            let t = (*tag as usize % s.senders.len()) as i64;
            let nt = s.senders[t as usize].0 as usize;
            if log[..nt.min(log.len())].iter().any(|(g, _)| *g != t) {
                return Err(format!("the filtered phase for sender {t} yielded a message of another sender"));
            }
        }
        Recv::ParityFirst => {
            let evens: usize = s.senders.iter().map(|(n, _)| (*n as usize).div_ceil(2)).sum();
            if log[..evens.min(log.len())].iter().any(|(_, i)| i % 2 != 0) {
                return Err("the even-parity filter accepted an odd message".into());
            }
        }
        _ => {}
    }
    Ok(())
}

pub struct Facts {
    pub runs: u32,
    pub inconclusive: u32,
    pub interleaved: bool,
    pub multi_worker: bool,
}

pub fn check(case: &Case, reg: &qrun::Registry) -> Result<Facts, (String, String)> {
    let src = render(&case.scn);
    let c = match catch(|| qrun::compile(&src, &qrun::Modules::new(), reg)) {
        Ok(Ok(c)) => c,
        Ok(Err(e)) => return Err(("generator-rejected".into(), format!("generated program does not compile: {e:?}\n{src}"))),
        Err(p) => return Err(("compile-panic".into(), format!("compiler panicked: {p}"))),
    };
    let bc = c.program.to_bytecode(c.entry);
    let mut facts = Facts { runs: 0, inconclusive: 0, interleaved: false, multi_worker: false };
    let mut cfgs: Vec<(usize, usize, Vec<u8>)> = vec![(1, 1000, vec![])];
    cfgs.extend(case.cfgs.iter().map(|(w, qi, s)| (*w as usize, QUANTA[*qi as usize % QUANTA.len()], s.clone())));
    for (workers, q, schedule) in cfgs {
        let run = sim::run_program(&bc, SimCfg { workers, quanta: vec![q], schedule: schedule.clone(), max_moves: 1_500_000, env_slow: 0 }, reg, None, |_, _| Ok(()));
        facts.runs += 1;
        facts.multi_worker |= workers >= 2;
        let desc = format!("workers={workers} quantum={q} schedule={}", hex(&schedule));
        let tail = |run: &sim::ProgRun| format!("--- program ---\n{}\n--- trace tail ---\n{}", &src[PRELUDE.len()..], run.trace.join("\n"));
        match &run.end {
            SimEnd::Done => {}
            SimEnd::Budget => {
                facts.inconclusive += 1;
                continue;
            }
            SimEnd::Quiescent => {
                // the system went idle without the entry result: some blocked process has a ready source
                let parked: Vec<String> = run.processes.iter().filter(|(_, r)| r.is_none()).map(|(p, _)| format!("pid {p}")).collect();
                return Err((
                    "lost-wakeup".into(),
                    format!("{desc}: the system became idle while {} still blocked although every expected message was sent and every awaited process can finish\n{}", parked.join(", "), tail(&run)),
                ));
            }
            other => return Err((format!("run:{}", end_kind(other)), format!("{desc}: run ended in {other:?}\n{}", tail(&run)))),
        }
        let Some(Ok(HVal::Tuple(None, fields))) = &run.result else {
            return Err(("bad-result".into(), format!("{desc}: entry result {:?}\n{}", run.result, tail(&run))));
        };
        let first = &fields[0].1;
        let log_v = match (&case.scn.recv, first) {
            (Recv::Mix { .. }, HVal::Tuple(None, f)) if f.len() == 2 => &f[0].1,
            _ => first,
        };
        let Some(log) = parse_log(log_v) else {
            return Err(("bad-result".into(), format!("{desc}: receiver result is not a message log: {first}\n{}", tail(&run))));
        };
        if let Err(m) = judge_log(&case.scn, &log) {
            let kind = if m.contains("lost") {
                "lost"
            } else if m.contains("duplicated") || m.contains("invented") {
                "duplicated"
            } else if m.contains("order") {
                "fifo"
            } else {
                "filter"
            };
            return Err((format!("history:{kind}"), format!("{desc}: {m}\nlog: {log:?}\n{}", tail(&run))));
        }
        // interleaving evidence: two different senders alternate in the log
        if log.windows(3).any(|w| w[0].0 != w[1].0 && w[1].0 != w[2].0) {
            facts.interleaved = true;
        }
        for (i, f) in fields.iter().enumerate().skip(1) {
            if f.1 != HVal::Tuple(Some("Sent".into()), vec![]) {
                return Err(("bad-result".into(), format!("{desc}: sender {} result {}\n{}", i - 1, f.1, tail(&run))));
            }
        }
    }
    Ok(facts)
}

pub fn run(ctx: &Ctx) -> i32 {
    let started = Instant::now();
    let stats = Stats::new();
    let known = KnownFindings::load();
    let cases_per_shard: u32 = ctx.tier.pick(120, 4_000);
    let n_cfgs = ctx.tier.pick(8, 24);

    let violations = run_sharded(ctx.shards, |shard| {
        let reg = qrun::registry();
        let mut out = Vec::new();
        let strat = strategy(n_cfgs);
        let seed = derive_seed(ctx.seed, ctx.id, shard, 0);
        let res = pt_search(seed, cases_per_shard, &strat, &stats, |case| match check(case, &reg) {
            Ok(f) => {
                stats.evals(f.runs as u64);
                for _ in 0..f.inconclusive {
                    stats.inconclusive();
                }
                match &case.scn.recv {
                    Recv::All => stats.class("receiver:all"),
                    Recv::TagFirst { .. } => stats.class("receiver:capturing-filter-then-rest"),
                    Recv::Mix { .. } => stats.class("receiver:select-mixing-receive-and-await"),
                    Recv::ParityFirst => stats.class("receiver:parity-filter-skips-then-takes-later"),
                }
                if f.interleaved {
                    stats.class("senders-interleaved-in-log");
                }
                if case.scn.observers >= 2 {
                    stats.class("several-processes-await-the-running-receiver");
                }
                if case.scn.late_receiver > 100 {
                    stats.class("messages-arrive-before-receiver-selects");
                }
                if f.interleaved && f.multi_worker {
                    let src = render(&case.scn);
                    stats.nontrivial(&src);
                    stats.sample(|| json!({"scenario": truncate(&src[PRELUDE.len()..], 400), "runs": f.runs}));
                }
                Ok(())
            }
            Err((sig, msg)) => {
                if !ctx.strict && known.is_known(ctx.id, &sig).is_some() {
                    stats.known_hit(&sig);
                    return Ok(());
                }
                Err(format!("{sig}\u{1}{msg}"))
            }
        });
        if let Search::Failed { minimal, message } = res {
            let (sig, msg) = message.split_once('\u{1}').map(|(a, b)| (a.to_string(), b.to_string())).unwrap_or((message.clone(), message));
            out.push(Violation {
                signature: sig,
                summary: truncate(&msg, 6000),
                replay: json!({"kind": "c04", "scenario": format!("{:?}", minimal.scn), "source": render(&minimal.scn),
                    "senders": minimal.scn.senders.iter().map(|(n, w)| json!([n, w])).collect::<Vec<_>>(),
                    "recv": match &minimal.scn.recv { Recv::All => json!("all"), Recv::TagFirst { tag } => json!({"tag": tag}), Recv::Mix { helper_work } => json!({"mix": helper_work}), Recv::ParityFirst => json!("parity") },
                    "late": minimal.scn.late_receiver, "observers": minimal.scn.observers,
                    "cfgs": minimal.cfgs.iter().map(|(w, q, s)| json!({"workers": w, "quantum": QUANTA[*q as usize % QUANTA.len()], "schedule": hex(s)})).collect::<Vec<_>>()}),
            });
        }
        out
    });

    finish(Report {
        ctx,
        stats: &stats,
        violations,
        rule: "fan-in scenarios: 2-4 sender processes each send Msg[sender, 0..n] to one receiver with generated busy work between sends; the receiver (optionally busy before its first receive) takes them all in arrival order, or through a capturing filter for one sender first, or through a parity filter (evens, then odds), or in a select that mixes the typed receive with an await of a helper process; 0-4 observer processes additionally await the receiver and the first sender while they run; run under a baseline and 8 (quick) generated configurations (workers 1-5, quantum in {1,2,3,7,64,1000}, partial-visibility schedules); judged on the receiver's log: every sent message exactly once, per-sender order, filter phases pure, and the run must end with all results (an idle system with a blocked process is a lost wake-up); evaluations = simulator runs; non-trivial = >= 2 workers and different senders alternating in the log; distinct by scenario text".into(),
        assumptions: vec![
            "scenarios are terminating by construction, so reaching global quiescence without the entry result is judged as a lost wake-up".into(),
            "transport model: FIFO per channel with arbitrary delay; fan-out, pipelines, request/reply, await chains and late awaits are covered by the confluent generator of C03".into(),
        ],
        required_classes: vec!["receiver:all", "receiver:capturing-filter-then-rest", "receiver:select-mixing-receive-and-await", "receiver:parity-filter-skips-then-takes-later", "senders-interleaved-in-log", "several-processes-await-the-running-receiver", "messages-arrive-before-receiver-selects"],
        started,
        technique: "proptest-generated fan-in scenarios x schedules in the deterministic simulator; oracle = history invariant on the receiver log + termination (no idle system with a blocked process)",
    })
}

pub fn replay(payload: &serde_json::Value) -> Result<(), String> {
    let senders: Vec<(u8, u16)> = payload["senders"].as_array().ok_or("senders")?.iter().map(|x| (x[0].as_u64().unwrap_or(1) as u8, x[1].as_u64().unwrap_or(0) as u16)).collect();
    let recv = match &payload["recv"] {
        serde_json::Value::String(s) if s == "all" => Recv::All,
        serde_json::Value::String(_) => Recv::ParityFirst,
        o if o.get("tag").is_some() => Recv::TagFirst { tag: o["tag"].as_u64().unwrap_or(0) as u8 },
        o => Recv::Mix { helper_work: o["mix"].as_u64().unwrap_or(0) as u16 },
    };
    let scn = Scn { senders, recv, late_receiver: payload["late"].as_u64().unwrap_or(0) as u16, observers: payload["observers"].as_u64().unwrap_or(0) as u8 };
    let cfgs = payload["cfgs"].as_array().cloned().unwrap_or_default().iter().map(|c| {
        let q = c["quantum"].as_u64().unwrap_or(1000) as usize;
        (c["workers"].as_u64().unwrap_or(1) as u8, QUANTA.iter().position(|x| *x == q).unwrap_or(5) as u8, unhex(c["schedule"].as_str().unwrap_or("")))
    }).collect();
    let reg = qrun::registry();
    match check(&Case { scn, cfgs }, &reg) {
        Ok(_) => Ok(()),
        Err((sig, msg)) => Err(format!("{sig}: {}", truncate(&msg, 3000))),
    }
}
