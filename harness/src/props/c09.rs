//! C09 — assignability implies containment; overlap detection is complete; narrowing helpers
//! never drop a value.

use crate::fw::*;
use crate::tygen::{self, Ty};
use crate::tysem::{self, V};
use proptest::prelude::*;
use quiver_compiler::compiler::verif_narrowing as narrowing;
use quiver_core::program::Program;
use quiver_core::types::{is_compatible, types_overlap};
use serde_json::json;
use std::time::Instant;

#[derive(Clone, Debug)]
pub struct Case {
    pub a: Ty,
    pub mut_b: Vec<Vec<u8>>,
    pub mut_c: Vec<Vec<u8>>,
    /// an unrelated second root, so that some pairs are not mutation-related
    pub other: Option<Ty>,
}

impl Case {
    pub fn types(&self) -> Vec<Ty> {
        let mut b = self.a.clone();
        for d in &self.mut_b {
            b = tygen::mutate(&b, d);
        }
        let mut c = match &self.other {
            Some(o) => o.clone(),
            None => b.clone(),
        };
        for d in &self.mut_c {
            c = tygen::mutate(&c, d);
        }
        vec![self.a.clone(), b, c]
    }
}

pub fn strategy() -> impl Strategy<Value = Case> {
    let dice = || prop::collection::vec(any::<u8>(), 4);
    (
        prop_oneof![3 => tygen::ty(true), 2 => tygen::ty(false)],
        prop::collection::vec(dice(), 1..4),
        prop::collection::vec(dice(), 1..4),
        prop::option::weighted(0.25, tygen::ty(true)),
    )
        .prop_map(|(a, mut_b, mut_c, other)| Case { a, mut_b, mut_c, other })
}

pub const DEPTH: usize = 3;

#[derive(Default)]
pub struct Facts {
    pub pairs: u32,
    pub related: u32,
    pub overlapping_unrelated: u32,
    pub disjoint: u32,
    pub triples_chained: u32,
    pub intersections_nonempty: u32,
    pub complements_nonempty: u32,
    pub values: u32,
}

fn show_types(tys: &[Ty]) -> String {
    tys.iter().enumerate().map(|(i, t)| format!("  T{i} = {}", tygen::render(t))).collect::<Vec<_>>().join("\n")
}


/// A back reference whose way up to its target boundary passes through a function parameter
/// (a contravariant position).
pub fn back_through_param(t: &Ty) -> bool {
    fn go(t: &Ty, flags: &mut Vec<bool>) -> bool {
        match t {
            Ty::Back(k) => *k >= 1 && *k <= flags.len() && flags[flags.len() - *k],
            Ty::Union(vs) => {
                flags.push(false);
                let r = vs.iter().any(|v| go(v, flags));
                flags.pop();
                r
            }
            Ty::Fn { p, r } => {
                flags.push(false);
                let saved = flags.clone();
                for f in flags.iter_mut() {
                    *f = true;
                }
                let a = go(p, flags);
                *flags = saved;
                let b = go(r, flags);
                flags.pop();
                a || b
            }
            _ => t.children().iter().any(|c| go(c, flags)),
        }
    }
    go(t, &mut Vec::new())
}

/// (k, target subtree) for every back reference in the tree.
fn back_targets(t: &Ty, stack: &mut Vec<Ty>, out: &mut Vec<(usize, Ty)>) {
    match t {
        Ty::Back(k) => {
            if *k >= 1 && *k <= stack.len() {
                out.push((*k, stack[stack.len() - *k].clone()));
            }
        }
        Ty::Union(_) | Ty::Fn { .. } => {
            stack.push(t.clone());
            for c in t.children() {
                back_targets(c, stack, out);
            }
            stack.pop();
        }
        _ => {
            for c in t.children() {
                back_targets(c, stack, out);
            }
        }
    }
}

/// Both types contain a back reference of the same depth (hence the same type id, and the same
/// id for every subtree built only from it) that points at different recursive types.
pub fn same_id_different_target(a: &Ty, b: &Ty) -> bool {
    let (mut ta, mut tb) = (Vec::new(), Vec::new());
    back_targets(a, &mut Vec::new(), &mut ta);
    back_targets(b, &mut Vec::new(), &mut tb);
    ta.iter().any(|(k, x)| tb.iter().any(|(k2, y)| k == k2 && x != y))
}

/// Would the value belong to the helper's result if the result's variants still had their back
/// references pointing at the original union `orig` (instead of at the re-assembled result)?
fn in_original_context(v: &V, result: usize, orig: usize, p: &Program) -> bool {
    use quiver_core::types::{Type, TypeLookup};
    match p.lookup_type(result) {
        Some(Type::Union(vs)) => vs.iter().any(|x| tysem::inhabits(v, *x, &[orig], p).yes),
        Some(_) => tysem::inhabits(v, result, &[orig], p).yes,
        None => false,
    }
}

pub fn check_types(tys: &[Ty]) -> Result<Facts, (String, String)> {
    let mut program = Program::new();
    let ids: Vec<usize> = tys.iter().map(|t| tygen::register(t, &mut program)).collect();
    let n = ids.len();
    let vals: Vec<Vec<V>> = ids.iter().map(|id| tysem::enumerate(*id, &[], DEPTH, &program)).collect();
    let mut f = Facts::default();
    f.values = vals.iter().map(|v| v.len() as u32).sum();
    let mut compat = vec![vec![false; n]; n];
    let head = |what: String| format!("{what}\n{}", show_types(tys));

    for i in 0..n {
        for j in 0..n {
            let (x, y) = (ids[i], ids[j]);
            let c = match catch(|| is_compatible(x, y, &program)) {
                Ok(c) => c,
                Err(p) => return Err(("checker-panic".into(), head(format!("is_compatible(T{i}, T{j}) panicked: {p}")))),
            };
            compat[i][j] = c;
            if i == j {
                if !c {
                    return Err(("not-reflexive".into(), head(format!("is_compatible(T{i}, T{i}) is false"))));
                }
                continue;
            }
            f.pairs += 1;
            if c {
                f.related += 1;
                for v in &vals[i] {
                    if !tysem::inhabits(v, y, &[], &program).yes {
                        let sig = if back_through_param(&tys[i]) || back_through_param(&tys[j]) { "assignable-not-contained:recursion-through-function-parameter" } else { "assignable-not-contained" };
                        return Err((
                            sig.into(),
                            head(format!("is_compatible(T{i}, T{j}) = true, but the value {v} of T{i} is not a value of T{j}")),
                        ));
                    }
                }
            }
            let o = match catch(|| types_overlap(x, y, &program)) {
                Ok(o) => o,
                Err(p) => return Err(("checker-panic".into(), head(format!("types_overlap(T{i}, T{j}) panicked: {p}")))),
            };
            let witness = vals[i].iter().find(|v| {
                let r = tysem::inhabits(v, y, &[], &program);
                r.yes && r.exact
            });
            match (witness, o) {
                (Some(v), false) => {
                    let sig = if tys[i].has_back() { "overlap-missed:recursive-left-operand" } else { "overlap-missed" };
                    return Err((
                        sig.into(),
                        head(format!("types_overlap(T{i}, T{j}) = false, but the value {v} belongs to both")),
                    ));
                }
                (Some(_), true) if !c => f.overlapping_unrelated += 1,
                (None, false) => f.disjoint += 1,
                _ => {}
            }
        }
    }
    for i in 0..n {
        for j in 0..n {
            for k in 0..n {
                if i != j && j != k && i != k && compat[i][j] && compat[j][k] {
                    f.triples_chained += 1;
                    if !compat[i][k] {
                        let sig = if tys[i].has_back() || tys[j].has_back() || tys[k].has_back() { "not-transitive:recursive-types" } else { "not-transitive" };
                        return Err((
                            sig.into(),
                            head(format!("is_compatible(T{i}, T{j}) and is_compatible(T{j}, T{k}) hold but is_compatible(T{i}, T{k}) does not")),
                        ));
                    }
                }
            }
        }
    }
    // narrowing helpers (they register new types, so they run last, on a scratch copy per pair)
    for i in 0..n {
        for j in 0..n {
            if i == j {
                continue;
            }
            let (x, y) = (ids[i], ids[j]);
            let mut p2 = program.clone();
            let inter = match catch(std::panic::AssertUnwindSafe(|| narrowing::intersect_types(x, y, &mut p2))) {
                Ok(t) => t,
                Err(p) => return Err(("narrowing-panic".into(), head(format!("intersect_types(T{i}, T{j}) panicked: {p}")))),
            };
            let mut any = false;
            for v in &vals[i] {
                let r = tysem::inhabits(v, y, &[], &program);
                if r.yes && r.exact {
                    any = true;
                    if !tysem::inhabits(v, inter, &[], &p2).yes {
                        let sig = if same_id_different_target(&tys[i], &tys[j]) {
                            "intersection-drops-value:same-id-different-recursion-target"
                        } else if in_original_context(v, inter, x, &p2) || tys[i].has_back() {
                            "intersection-drops-value:back-reference-retargeted"
                        } else {
                            "intersection-drops-value"
                        };
                        return Err((
                            sig.into(),
                            head(format!(
                                "the value {v} belongs to T{i} and T{j} but not to intersect_types(T{i}, T{j}) = {}",
                                quiver_core::format::format_type_by_id(&p2, inter)
                            )),
                        ));
                    }
                }
            }
            if any {
                f.intersections_nonempty += 1;
            }
            let mut p3 = program.clone();
            let comp = match catch(std::panic::AssertUnwindSafe(|| narrowing::compute_complement(x, y, &mut p3))) {
                Ok(t) => t,
                Err(p) => return Err(("narrowing-panic".into(), head(format!("compute_complement(T{i}, T{j}) panicked: {p}")))),
            };
            let mut any = false;
            for v in &vals[i] {
                if !tysem::inhabits(v, y, &[], &program).yes {
                    any = true;
                    if !tysem::inhabits(v, comp, &[], &p3).yes {
                        let sig = if same_id_different_target(&tys[i], &tys[j]) {
                            "complement-drops-value:same-id-different-recursion-target"
                        } else if in_original_context(v, comp, x, &p3) || tys[i].has_back() {
                            "complement-drops-value:back-reference-retargeted"
                        } else {
                            "complement-drops-value"
                        };
                        return Err((
                            sig.into(),
                            head(format!(
                                "the value {v} belongs to T{i} and not to T{j}, but not to compute_complement(T{i}, T{j}) = {}",
                                quiver_core::format::format_type_by_id(&p3, comp)
                            )),
                        ));
                    }
                }
            }
            if any {
                f.complements_nonempty += 1;
            }
        }
    }
    Ok(f)
}

pub fn run(ctx: &Ctx) -> i32 {
    let started = Instant::now();
    let stats = Stats::new();
    let known = KnownFindings::load();
    let cases_per_shard: u32 = ctx.tier.pick(25_000, 600_000);

    let violations = run_sharded(ctx.shards, |shard| {
        let mut out = Vec::new();
        let strat = strategy();
        let seed = derive_seed(ctx.seed, ctx.id, shard, 0);
        let res = pt_search(seed, cases_per_shard, &strat, &stats, |case| {
            let tys = case.types();
            crumb(ctx.id, || json!({"kind": "c09", "trees_json": tys.iter().map(ty_json).collect::<Vec<_>>()}));
            match check_types(&tys) {
                Ok(f) => {
                    stats.evals(f.pairs as u64);
                    stats.class_n("pairs-deemed-assignable", f.related as u64);
                    stats.class_n("pairs-overlapping-but-not-assignable", f.overlapping_unrelated as u64);
                    stats.class_n("pairs-disjoint", f.disjoint as u64);
                    stats.class_n("chained-triples", f.triples_chained as u64);
                    stats.class_n("intersections-with-common-values", f.intersections_nonempty as u64);
                    stats.class_n("complements-with-remaining-values", f.complements_nonempty as u64);
                    stats.class_n("values-enumerated", f.values as u64);
                    if tys.iter().any(|t| t.has_back()) {
                        stats.class("recursive-type");
                    }
                    if tys.iter().any(|t| t.has_fn_or_proc()) {
                        stats.class("function-or-process-type");
                    }
                    if tys.iter().any(|t| t.has_partial()) {
                        stats.class("partial-type");
                    }
                    if tys[0] != tys[1] && (tys[0].has_union_under_constructor() || tys[0].has_back()) && f.related > 0 {
                        let text = show_types(&tys);
                        stats.nontrivial(&text);
                        stats.sample(|| json!({"types": text, "assignable_pairs": f.related, "values": f.values}));
                    }
                    Ok(())
                }
                Err((sig, msg)) => {
                    if !ctx.strict && known.is_known(ctx.id, &sig).is_some() {
                        stats.known_hit(&sig);
                        return Ok(());
                    }
                    Err(format!("{sig}\u{1}{msg}"))
                }
            }
        });
        if let Search::Failed { minimal, message } = res {
            let (sig, msg) = message.split_once('\u{1}').map(|(a, b)| (a.to_string(), b.to_string())).unwrap_or((message.clone(), message));
            let tys = minimal.types();
            out.push(Violation {
                signature: sig,
                summary: truncate(&msg, 6000),
                replay: json!({"kind": "c09", "types": tys.iter().map(tygen::render).collect::<Vec<_>>(), "trees": format!("{tys:?}"), "trees_json": tys.iter().map(ty_json).collect::<Vec<_>>()}),
            });
        }
        out
    });

    // directed witnesses: every recorded finding is re-established on each run
    let mut violations = violations;
    if let Ok(text) = std::fs::read_to_string(format!("{VERIF_ROOT}/witnesses/c09.json"))
        && let Ok(ws) = serde_json::from_str::<Vec<serde_json::Value>>(&text)
    {
        for e in known.known_for(ctx.id) {
            let Some(w) = ws.iter().find(|w| w["signature"].as_str() == Some(e.signature.as_str())) else { continue };
            let Some(tys) = w["trees_json"].as_array().and_then(|a| a.iter().map(ty_from_json).collect::<Option<Vec<_>>>()) else { continue };
            match check_types(&tys) {
                Err((sig, _)) if sig == e.signature => stats.known_hit(&e.signature),
                Err((sig, msg)) => {
                    if known.is_known(ctx.id, &sig).is_some() {
                        stats.known_hit(&sig);
                    } else {
                        violations.push(Violation { signature: sig, summary: msg, replay: json!({"kind": "c09", "trees_json": w["trees_json"]}) });
                    }
                }
                Ok(_) => println!("NOTE: known finding {} no longer reproduces on its witness", e.signature),
            }
        }
    }

    finish(Report {
        ctx,
        stats: &stats,
        violations,
        rule: "three closed, contractive types per case: a generated tree T0 (ints, bins, refs, named/unnamed tuples with labelled fields, partials, unions, back references to enclosing unions/functions, callables, processes), T1 = T0 after 1-3 mutations (add/drop/rotate a union variant, unfold a back reference, tuple->partial, drop a partial field or name, rename/relabel, add/remove a field, swap function parameter and result), T2 = further mutations of T1 or of an unrelated tree; registered through Program::register_type/register_tuple. For every ordered pair: is_compatible => every enumerated value (tuple depth <= 3, <= 28 per node) of the left type inhabits the right one; a first-order value in both => types_overlap; transitivity over all triples; intersect_types keeps every common value and compute_complement keeps every value of the left type outside the right one. evaluations = ordered pairs; non-trivial = a related pair of different types with a union under a constructor or a back reference; distinct by the rendered types".into(),
        assumptions: vec![
            "Type::Cycle(k) is read as the k-th enclosing boundary (union or callable) on the path from the root, as typing.rs documents; a dangling cycle in a helper's result is read permissively (anything)".into(),
            "function values are represented by the canonical function of a callable type (declared with exactly that type); membership in another callable type is decided by bounded containment of parameters/results and only its 'no' answers are used as evidence; overlap witnesses are first-order values or identical callables".into(),
            "process handles are modelled covariantly in both components, as the checker does; enumeration is a subset of each type's values, so a deeper counterexample is missed, never invented".into(),
        ],
        required_classes: vec!["pairs-deemed-assignable", "pairs-overlapping-but-not-assignable", "pairs-disjoint", "chained-triples", "intersections-with-common-values", "complements-with-remaining-values", "recursive-type", "function-or-process-type", "partial-type"],
        started,
        technique: "proptest-generated type trees and mutation-related pairs/triples; oracle = bounded exhaustive value enumeration + inhabitation model over the Program's own type representation",
    })
}

fn ty_json(t: &Ty) -> serde_json::Value {
    match t {
        Ty::Int => json!("int"),
        Ty::Bin => json!("bin"),
        Ty::Ref => json!("ref"),
        Ty::Never => json!("never"),
        Ty::Back(k) => json!({"back": k}),
        Ty::Tuple { name, fields } => json!({"tuple": name, "fields": fields.iter().map(|(l, t)| json!([l, ty_json(t)])).collect::<Vec<_>>()}),
        Ty::Partial { name, fields } => json!({"partial": name, "fields": fields.iter().map(|(l, t)| json!([l, ty_json(t)])).collect::<Vec<_>>()}),
        Ty::Union(vs) => json!({"union": vs.iter().map(ty_json).collect::<Vec<_>>()}),
        Ty::Fn { p, r } => json!({"fn": [ty_json(p), ty_json(r)]}),
        Ty::Proc { send, recv } => json!({"proc": [ty_json(send), ty_json(recv)]}),
    }
}

fn ty_from_json(j: &serde_json::Value) -> Option<Ty> {
    if let Some(s) = j.as_str() {
        return Some(match s {
            "int" => Ty::Int,
            "bin" => Ty::Bin,
            "ref" => Ty::Ref,
            _ => Ty::Never,
        });
    }
    let o = j.as_object()?;
    if let Some(k) = o.get("back") {
        return Some(Ty::Back(k.as_u64()? as usize));
    }
    let name_of = |v: &serde_json::Value| v.as_str().map(|s| s.to_string());
    if let Some(n) = o.get("tuple") {
        let fields = o.get("fields")?.as_array()?.iter().map(|f| Some((name_of(&f[0]), ty_from_json(&f[1])?))).collect::<Option<Vec<_>>>()?;
        return Some(Ty::Tuple { name: name_of(n), fields });
    }
    if let Some(n) = o.get("partial") {
        let fields = o.get("fields")?.as_array()?.iter().map(|f| Some((name_of(&f[0])?, ty_from_json(&f[1])?))).collect::<Option<Vec<_>>>()?;
        return Some(Ty::Partial { name: name_of(n), fields });
    }
    if let Some(u) = o.get("union") {
        return Some(Ty::Union(u.as_array()?.iter().map(ty_from_json).collect::<Option<Vec<_>>>()?));
    }
    if let Some(f) = o.get("fn") {
        return Some(Ty::Fn { p: Box::new(ty_from_json(&f[0])?), r: Box::new(ty_from_json(&f[1])?) });
    }
    if let Some(f) = o.get("proc") {
        return Some(Ty::Proc { send: Box::new(ty_from_json(&f[0])?), recv: Box::new(ty_from_json(&f[1])?) });
    }
    None
}

pub fn replay(payload: &serde_json::Value) -> Result<(), String> {
    let tys: Vec<Ty> = payload["trees_json"].as_array().ok_or("trees_json")?.iter().map(ty_from_json).collect::<Option<Vec<_>>>().ok_or("bad tree")?;
    match check_types(&tys) {
        Ok(_) => Ok(()),
        Err((sig, msg)) => Err(format!("{sig}: {}", truncate(&msg, 3000))),
    }
}

/// `qv explore c09 <replay.json>`: print the relation matrices for a saved case.
pub fn explore(path: &str) {
    let text = std::fs::read_to_string(path).expect("read");
    let j: serde_json::Value = serde_json::from_str(&text).expect("json");
    let tys: Vec<Ty> = j["replay"]["trees_json"].as_array().expect("trees_json").iter().map(|t| ty_from_json(t).expect("tree")).collect();
    let mut program = Program::new();
    let ids: Vec<usize> = tys.iter().map(|t| tygen::register(t, &mut program)).collect();
    println!("{}", show_types(&tys));
    for (i, t) in program.get_types().iter().enumerate() {
        println!("  type #{i}: {t:?}");
    }
    for (i, t) in program.get_tuples().iter().enumerate() {
        println!("  tuple #{i}: {t:?}");
    }
    println!("ids: {ids:?}");
    for i in 0..ids.len() {
        for k in 0..ids.len() {
            println!("  T{i} vs T{k}: compatible={} overlap={}", is_compatible(ids[i], ids[k], &program), types_overlap(ids[i], ids[k], &program));
        }
    }
    if let Ok(extra) = std::env::var("QV_C09_PAIRS") {
        for pr in extra.split(',') {
            let (a, b) = pr.split_once(':').unwrap();
            let (a, b): (usize, usize) = (a.parse().unwrap(), b.parse().unwrap());
            println!("  #{a} vs #{b}: compatible={} overlap={}", is_compatible(a, b, &program), types_overlap(a, b, &program));
        }
    }
    for (i, id) in ids.iter().enumerate() {
        let vs = tysem::enumerate(*id, &[], DEPTH, &program);
        println!("  values of T{i}: {}", vs.iter().map(|v| v.to_string()).collect::<Vec<_>>().join("  "));
    }
}
