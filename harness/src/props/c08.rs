//! C08 — runtime type tests accept only members and never reject known members, identically in
//! every packaging configuration.

use crate::fw::*;
use crate::hval::HVal;
use crate::pack::{self, Res};
use crate::qrun::{self, Modules};
use crate::tygen::{self, Ty};
use crate::tysem::{self, V};
use proptest::prelude::*;
use quiver_core::program::Program;
use serde_json::json;
use std::time::Instant;

#[derive(Clone, Debug)]
pub struct Case {
    pub t: Ty,
    /// S = T mutated (usually related) or an independent type
    pub s_mut: Vec<Vec<u8>>,
    pub s_other: Option<Ty>,
    pub form: u8,
    pub pick: Vec<u8>,
    /// % 4 == 0: tuple values are assembled inside a generic function from one of their fields
    /// (same static type as the literal, but the value carries the generic definition's tuple id)
    pub generic: u8,
}

impl Case {
    pub fn s(&self) -> Ty {
        let mut s = self.s_other.clone().unwrap_or_else(|| self.t.clone());
        for d in &self.s_mut {
            s = tygen::mutate(&s, d);
        }
        s
    }
}

pub fn strategy() -> impl Strategy<Value = Case> {
    (
        tygen::ty(false),
        prop::collection::vec(prop::collection::vec(any::<u8>(), 4), 1..4),
        prop::option::weighted(0.2, tygen::ty(false)),
        0u8..4,
        prop::collection::vec(any::<u8>(), 8),
        any::<u8>(),
    )
        .prop_map(|(t, s_mut, s_other, form, pick, generic)| Case { t, s_mut, s_other, form, pick, generic })
}

pub const MARK: &str = "Fin9";
pub const GENERIC_BUILT: &str = "value-assembled-in-a-generic-function";

pub struct Rendered {
    pub source: String,
    pub values: Vec<V>,
    /// membership of each value in S by the model: Some(true/false) when exact
    pub member: Vec<Option<bool>>,
    pub form: u8,
    pub t: String,
    pub s: String,
    /// per value: it was assembled inside a generic function
    pub generic_built: Vec<bool>,
}

/// Build the program for a case; None when T has too few first-order values.
pub fn render(c: &Case) -> Option<Rendered> {
    let s_ty = c.s();
    // model: register both in a scratch program and enumerate T
    let mut p = Program::new();
    let tid = tygen::register(&c.t, &mut p);
    let sid = tygen::register(&s_ty, &mut p);
    let all: Vec<V> = tysem::enumerate(tid, &[], 3, &p).into_iter().filter(|v| v.first_order() && !contains_empty_bin(v)).collect();
    if all.is_empty() {
        return None;
    }
    // up to 8 values, chosen by the case's dice but keeping members and non-members both
    let mut values: Vec<V> = Vec::new();
    for d in &c.pick {
        let v = all[(*d as usize * all.len()) >> 8].clone();
        if !values.contains(&v) {
            values.push(v);
        }
    }
    let member: Vec<Option<bool>> = values.iter().map(|v| {
        let r = tysem::inhabits(v, sid, &[], &p);
        if r.yes && !r.exact { None } else { Some(r.yes) }
    }).collect();
    let (t, s) = (tygen::render(&c.t), tygen::render(&s_ty));
    let mut lines = Vec::new();
    if c.generic % 3 == 0 {
        // types nothing refers to, registered before 't and 's: tree-shaking drops them and has to
        // renumber every type id that follows
        lines.push("'unused9 = Uu9['int, Vv9['bin, (q: Xx9)]] | Ww9[(p: 'int)]".to_string());
    }
    lines.push(format!("'t = {t}"));
    lines.push(format!("'s = {s}"));
    let form = c.form % 4;
    match form {
        0 => lines.push("f = #'t { | =('s)y => Y | N }".into()),
        1 => lines.push("f = #'t { | ='s => Y | N }".into()),
        2 => lines.push("f = #'t { [~, 1] { | =[('s)y, _] => Y | N } }".into()),
        _ => {}
    }
    // how each value is written: a literal, or assembled inside a generic function
    let mut generic_built = vec![false; values.len()];
    let mut texts: Vec<String> = Vec::new();
    for (i, v) in values.iter().enumerate() {
        match v {
            V::Tup { name, fields } if c.generic % 4 == 0 && !fields.is_empty() => {
                let k = (c.generic as usize / 4 + i) % fields.len();
                let fs: Vec<String> = fields
                    .iter()
                    .enumerate()
                    .map(|(j, (l, f))| {
                        let val = if j == k { "~".to_string() } else { f.source() };
                        match l {
                            Some(l) => format!("{l}: {val}"),
                            None => val,
                        }
                    })
                    .collect();
                lines.push(format!("mk{i} = #<'g>'g {{ {}[{}] }}", name.clone().unwrap_or_default(), fs.join(", ")));
                texts.push(format!("{} mk{i}", fields[k].1.source()));
                generic_built[i] = true;
            }
            _ => texts.push(v.source()),
        }
    }
    if form < 3 {
        let calls: Vec<String> = texts.iter().map(|v| format!("{v} f")).collect();
        lines.push(format!("[{}]", calls.join(", ")));
    } else {
        // one receiver per prefix would be costly: a single receiver takes the earliest member
        lines.push(format!("h = @#{{ ! [#'t {{ [] }}, 0] Ok, ! [#'s, #{MARK}] }}"));
        for v in &texts {
            lines.push(format!("{v} h"));
        }
        lines.push(format!("{MARK} h"));
        lines.push("!h".into());
    }
    Some(Rendered { source: lines.join(",\n"), values, member, form, t, s, generic_built })
}

fn contains_empty_bin(v: &V) -> bool {
    match v {
        V::Bin(b) => b.is_empty(),
        V::Tup { fields, .. } => fields.iter().any(|(_, f)| contains_empty_bin(f)),
        _ => false,
    }
}

pub fn v_to_hval(v: &V) -> HVal {
    match v {
        V::Int(i) => HVal::int(*i),
        V::Bin(b) => HVal::Bin(b.clone()),
        V::Tup { name, fields } => HVal::Tuple(name.clone(), fields.iter().map(|(l, f)| (l.clone(), v_to_hval(f))).collect()),
        V::Ref(r) => HVal::Ref(*r as u64),
        _ => HVal::Tuple(Some("<fn>".into()), vec![]),
    }
}

pub struct Facts {
    pub runs: u32,
    pub accepted: u32,
    pub rejected: u32,
    pub discarded: bool,
    pub has_istype: bool,
}

fn before_pool(reg: &qrun::Registry) -> Vec<quiver_core::bytecode::Bytecode> {
    // programs that register tuples and types with the generator's names in other shapes, so that
    // every id is shifted and shared names are deduplicated against different entries
    ["A[1, 2], B[x: 0x01], [C, D[y: 1]]", "'q = A['bin] | B | (x: 'int), g = #'q { | =A[_] => 1 | 2 }, [A[0x00] g, W[1], N, Y]", "[x: 1, y: [z: 2]] =(x), [x, A, Z]"]
        .iter()
        .filter_map(|s| pack::bytecode_of(s, &Modules::new(), reg, false))
        .collect()
}

pub fn check_rendered(r: &Rendered, reg: &qrun::Registry) -> Result<Facts, (String, String)> {
    let what = format!("'t = {}\n's = {}\n--- program ---\n{}", r.t, r.s, r.source);
    let mut f = Facts { runs: 0, accepted: 0, rejected: 0, discarded: false, has_istype: false };
    let c = match catch(|| qrun::compile(&r.source, &Modules::new(), reg)) {
        Ok(Ok(c)) => c,
        Ok(Err(_)) => {
            // the literal's type is not accepted for 't, or the pattern is rejected statically
            f.discarded = true;
            return Ok(f);
        }
        Err(p) => return Err(("compile-panic".into(), format!("{p}\n{what}"))),
    };
    f.has_istype = c.program.get_functions().iter().any(|fun| fun.instructions.iter().any(|i| matches!(i, quiver_core::bytecode::Instruction::IsType(_))));
    let before = before_pool(reg);
    let (runs, _) = pack::run_all(&c, &before, reg);
    let y = HVal::Tuple(Some("Y".into()), vec![]);
    let n = HVal::Tuple(Some("N".into()), vec![]);
    for run in &runs {
        if r.form == 3 && !run.name.contains("merged") {
            continue;
        }
        f.runs += 1;
        let val = match &run.res {
            Res::Val(v) => v,
            other => return Err((format!("run:{}", match other { Res::Err(_) => "error", Res::Broken(_) => "broken", _ => "stuck" }), format!("variant {}: {}\n{what}", run.name, other.show()))),
        };
        if r.form < 3 {
            let HVal::Tuple(None, fields) = val else { return Err(("bad-result".into(), format!("variant {}: {}\n{what}", run.name, val.full()))) };
            if fields.len() != r.values.len() {
                return Err(("bad-result".into(), format!("variant {}: {}\n{what}", run.name, val.full())));
            }
            for (i, (_, verdict)) in fields.iter().enumerate() {
                let accepted = if *verdict == y {
                    true
                } else if *verdict == n {
                    false
                } else {
                    return Err(("bad-result".into(), format!("variant {}: verdict {} for value {}\n{what}", run.name, verdict.full(), r.values[i])));
                };
                if accepted {
                    f.accepted += 1;
                } else {
                    f.rejected += 1;
                }
                match (accepted, r.member[i]) {
                    (true, Some(false)) => {
                        let sig = if r.generic_built.get(i).copied().unwrap_or(false) { format!("accepted-non-member:{GENERIC_BUILT}") } else { "accepted-non-member".to_string() };
                        return Err((sig, format!("variant {}: the test accepts {} which is not a value of 's\n{what}", run.name, r.values[i])));
                    }
                    (false, Some(true)) => return Err(("rejected-member".into(), format!("variant {}: the test rejects {} which is a value of 's (and was written as a literal, so its compile-time type is contained in 's)\n{what}", run.name, r.values[i]))),
                    _ => {}
                }
            }
        } else {
            // the receiver takes the earliest message that is a member of 's, else the marker
            let first = r.values.iter().zip(r.member.iter()).find(|(_, m)| **m != Some(false));
            let uncertain = r.values.iter().zip(r.member.iter()).take_while(|(_, m)| **m != Some(true)).any(|(_, m)| m.is_none());
            if uncertain {
                continue;
            }
            let expected = match first {
                Some((v, _)) => v_to_hval(v),
                None => HVal::Tuple(Some(MARK.into()), vec![]),
            };
            if val.canon_ids() != expected.canon_ids() {
                // attributed to the recorded defect only if the message taken is a non-member that was
                // assembled inside a generic function
                let taken = r.values.iter().position(|v| v_to_hval(v).canon_ids() == val.canon_ids());
                let kind = match taken {
                    Some(i) if r.generic_built.get(i).copied().unwrap_or(false) && r.member[i] == Some(false) => format!("receive-took-wrong-message:{GENERIC_BUILT}"),
                    _ => "receive-took-wrong-message".to_string(),
                };
                return Err((kind, format!("variant {}: the typed receive took {} but the earliest message that is a value of 's is {}\n{what}", run.name, val.full(), expected.full())));
            }
            if first.is_some() {
                f.accepted += 1;
            } else {
                f.rejected += 1;
            }
        }
    }
    Ok(f)
}

pub fn run(ctx: &Ctx) -> i32 {
    let started = Instant::now();
    let stats = Stats::new();
    let known = KnownFindings::load();
    let cases_per_shard: u32 = ctx.tier.pick(4_000, 120_000);

    let violations = run_sharded(ctx.shards, |shard| {
        let reg = qrun::registry();
        let mut out = Vec::new();
        let strat = strategy();
        let res = pt_search(derive_seed(ctx.seed, ctx.id, shard, 0), cases_per_shard, &strat, &stats, |case| {
            let Some(r) = render(case) else {
                stats.discard();
                return Ok(());
            };
            crumb(ctx.id, || json!({"kind": "c08", "source": r.source, "t": r.t, "s": r.s, "form": r.form, "values": r.values.iter().map(|v| v.source()).collect::<Vec<_>>(), "member": r.member, "generic_built": r.generic_built}));
            match check_rendered(&r, &reg) {
                Ok(f) => {
                    if f.discarded {
                        stats.discard();
                        return Ok(());
                    }
                    stats.evals(f.runs as u64);
                    stats.class_n("verdict:accepted", f.accepted as u64);
                    stats.class_n("verdict:rejected", f.rejected as u64);
                    stats.class(["form:=('s)y", "form:='s", "form:typed-tuple-pattern", "form:typed-receive"][r.form as usize]);
                    if case.t.has_back() {
                        stats.class("recursive-scrutinee-type");
                    }
                    if case.t.has_partial() || case.s().has_partial() {
                        stats.class("partial-type");
                    }
                    if case.generic % 3 == 0 {
                        stats.class("unused-types-registered-first");
                    }
                    if r.generic_built.iter().any(|b| *b) {
                        stats.class("value-assembled-in-a-generic-function");
                    }
                    if f.has_istype && f.accepted > 0 && f.rejected > 0 {
                        stats.nontrivial(&r.source);
                        stats.sample(|| json!({"t": r.t, "s": r.s, "form": r.form, "values": r.values.iter().map(|v| v.to_string()).collect::<Vec<_>>(), "member": r.member}));
                    }
                    Ok(())
                }
                Err((sig, msg)) => {
                    if !ctx.strict && known.is_known(ctx.id, &sig).is_some() {
                        stats.known_hit(&sig);
                        return Ok(());
                    }
                    Err(format!("{sig}\u{1}{msg}"))
                }
            }
        });
        if let Search::Failed { minimal, message } = res {
            let (sig, msg) = message.split_once('\u{1}').map(|(a, b)| (a.to_string(), b.to_string())).unwrap_or((message.clone(), message));
            let r = render(&minimal);
            out.push(Violation {
                signature: sig,
                summary: truncate(&msg, 6000),
                replay: match r {
                    Some(r) => json!({"kind": "c08", "source": r.source, "t": r.t, "s": r.s, "form": r.form, "values": r.values.iter().map(|v| v.source()).collect::<Vec<_>>(), "member": r.member, "generic_built": r.generic_built, "values_json": r.values.iter().map(v_json).collect::<Vec<_>>()}),
                    None => json!({"kind": "c08"}),
                },
            });
        }
        out
    });

    // recorded findings are re-established by a directed input on every run
    {
        let reg = qrun::registry();
        for e in known.known_for(ctx.id) {
            if e.signature == format!("accepted-non-member:{GENERIC_BUILT}") {
                let src = "'u = T['int] | T['bin]\nwd = #'u { $ },\nmk = #<'g>'g { T[~] },\na = 5 mk wd,\na { | =T['bin] => 1 | =T['int] => 2 }";
                match qrun::eval_source(src, &Modules::new(), &reg, 1000, 1_000_000) {
                    qrun::Outcome::Val(v) if v.to_string() == "1" => stats.known_hit(&e.signature),
                    other => println!("NOTE: known finding {} no longer reproduces (witness gives {other:?})", e.signature),
                }
            }
            if e.signature == "witness:union-nested-directly-in-a-union" {
                // excluded by construction: the type generator boxes a union that would sit directly
                // inside a union (tygen::norm_shape)
                let src = "'t = A | (B | C[^])\nwd = #(A | B | C['int] | C[A]) { $ },\nx = C[5] wd,\nx ='t";
                match qrun::eval_source(src, &Modules::new(), &reg, 1000, 1_000_000) {
                    qrun::Outcome::Val(v) if v.to_string() == "Ok" => stats.known_hit(&e.signature),
                    other => println!("NOTE: known finding {} no longer reproduces (witness gives {other:?})", e.signature),
                }
            }
            if e.signature == format!("receive-took-wrong-message:{GENERIC_BUILT}") {
                let src = format!("mk = #<'g>'g {{ T[~] }},\nh = @#{{ ! [#(T['int] | T['bin]) {{ [] }}, 0] Ok, ! [#T['bin], #{MARK}] }},\n5 mk h,\n{MARK} h,\n!h");
                let got = qrun::compile(&src, &Modules::new(), &reg).ok().map(|c| {
                    let bc = c.program.to_bytecode(c.entry);
                    let cfg = crate::sim::SimCfg { workers: 2, quanta: vec![1000], schedule: vec![], max_moves: 200_000, env_slow: 0 };
                    let r = crate::sim::run_program(&bc, cfg, &reg, None, |_, _| Ok(()));
                    r.result.map(|x| x.map(|v| v.to_string()).unwrap_or_else(|e| format!("{e:?}"))).unwrap_or_default()
                });
                match got.as_deref() {
                    Some("T[5]") => stats.known_hit(&e.signature),
                    other => println!("NOTE: known finding {} no longer reproduces (witness gives {other:?})", e.signature),
                }
            }
        }
    }

    finish(Report {
        ctx,
        stats: &stats,
        violations,
        rule: "a generated scrutinee type 't (unions, named/unnamed tuples with labels, partials, recursive types), a test type 's = 't after 1-3 mutations or an independent type, up to 8 first-order values enumerated from 't and written as literals (in a quarter of the cases tuple values are instead assembled inside a generic function from one of their fields), and a test form: `=('s)y`, `='s`, a typed tuple pattern `=[('s)y, _]`, or a process that receives `! [#'s, #Fin9]` after the values were mailed to it in order; the verdict per value is compared with the model (inhabits(v, 's) over the same type trees): an accepted value must be a member, a member written as a literal must be accepted, the typed receive must take the earliest member; a third of the programs start with an alias nothing refers to (so that tree-shaking renumbers every later type id); every program runs as compiled, tree-shaken, after a JSON round trip and merged into an environment behind three programs that register tuples of the same names in other shapes. evaluations = program runs; non-trivial = the compiled code contains an IsType and both verdicts occur; distinct by program text".into(),
        assumptions: vec![
            "values are literals, so their compile-time type is contained in 's exactly when the value is a member; widening routes are covered by C13's paths".into(),
            "programs the compiler rejects (literal not accepted for 't, pattern statically impossible) are discarded".into(),
            "recorded finding: a tuple assembled inside a generic function carries the generic definition's tuple id, whose type-variable fields the precomputed run-time table treats as matching anything; acceptances of such non-members are attributed to it (and only those), members must still be accepted".into(),
        ],
        required_classes: vec!["verdict:accepted", "verdict:rejected", "form:=('s)y", "form:='s", "form:typed-tuple-pattern", "form:typed-receive", "recursive-scrutinee-type", "partial-type", "value-assembled-in-a-generic-function", "unused-types-registered-first"],
        started,
        technique: "proptest-generated (scrutinee type, test type, values, form) x packaging variants; oracle = inhabitation model over the generated type trees",
    })
}

fn v_json(v: &V) -> serde_json::Value {
    match v {
        V::Int(i) => json!({"int": i}),
        V::Bin(b) => json!({"bin": hex(b)}),
        V::Tup { name, fields } => json!({"name": name, "fields": fields.iter().map(|(l, f)| json!([l, v_json(f)])).collect::<Vec<_>>()}),
        _ => json!(null),
    }
}

fn v_from_json(j: &serde_json::Value) -> Option<V> {
    if let Some(i) = j.get("int") {
        return Some(V::Int(i.as_i64()?));
    }
    if let Some(b) = j.get("bin") {
        return Some(V::Bin(unhex(b.as_str()?)));
    }
    let name = j.get("name")?.as_str().map(|s| s.to_string());
    let fields = j.get("fields")?.as_array()?.iter().map(|f| Some((f[0].as_str().map(|s| s.to_string()), v_from_json(&f[1])?))).collect::<Option<Vec<_>>>()?;
    Some(V::Tup { name, fields })
}

pub fn replay(payload: &serde_json::Value) -> Result<(), String> {
    let reg = qrun::registry();
    let values: Vec<V> = match payload["values_json"].as_array() {
        Some(a) => a.iter().map(v_from_json).collect::<Option<Vec<_>>>().ok_or("values")?,
        None => vec![],
    };
    let member: Vec<Option<bool>> = payload["member"].as_array().map(|a| a.iter().map(|x| x.as_bool()).collect()).unwrap_or_default();
    let r = Rendered {
        source: payload["source"].as_str().ok_or("source")?.to_string(),
        values,
        member,
        form: payload["form"].as_u64().unwrap_or(0) as u8,
        t: payload["t"].as_str().unwrap_or("").to_string(),
        s: payload["s"].as_str().unwrap_or("").to_string(),
        generic_built: payload["generic_built"].as_array().map(|a| a.iter().map(|x| x.as_bool().unwrap_or(false)).collect()).unwrap_or_default(),
    };
    if r.values.is_empty() {
        // a breadcrumb (no structured values): only look for crashes, in every packaging variant
        if let Ok(c) = qrun::compile(&r.source, &Modules::new(), &reg) {
            let _ = pack::run_all(&c, &before_pool(&reg), &reg);
        }
        return Ok(());
    }
    match check_rendered(&r, &reg) {
        Ok(f) if f.discarded => Err("discarded (rejected by the compiler)".into()),
        Ok(_) => Ok(()),
        Err((s, m)) => Err(format!("{s}: {}", truncate(&m, 4000))),
    }
}
