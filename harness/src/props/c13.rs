//! C13 — equality is structural and construction-independent; refs are unique.

use crate::fw::*;
use crate::hval::HVal;
use crate::pack::{self, Res};
use crate::qrun::{self, Modules};
use crate::sim::{self, SimCfg, SimEnd};
use crate::tysem::V;
use proptest::prelude::*;
use serde_json::json;
use std::time::Instant;

// ---------------------------------------------------------------------------------------------
// values and construction paths

fn value() -> impl Strategy<Value = V> {
    let leaf = prop_oneof![
        3 => prop_oneof![-3i64..20, Just(i64::MAX / 2), Just(-4_000_000_000i64)].prop_map(V::Int),
        2 => prop::collection::vec(any::<u8>(), 1..5).prop_map(V::Bin),
        // periodic binaries, so that the same bytes can be tiled from different units
        2 => (any::<u8>(), 2usize..7).prop_map(|(b, n)| V::Bin(vec![b; n])),
        1 => (any::<[u8; 2]>(), 2usize..4).prop_map(|(u, n)| V::Bin(u.iter().copied().cycle().take(2 * n).collect())),
        // no nil leaves: a variable bound to nil is narrowed to non-nil by the compiler after its
        // binding statement (a separate, recorded defect), which would make these programs
        // measure that instead of equality; nil equality has its own directed probe below
        2 => Just(V::Tup { name: Some("K".into()), fields: vec![] }),
    ];
    leaf.prop_recursive(3, 12, 3, |inner| {
        (prop_oneof![Just(None), Just(Some("P".to_string())), Just(Some("Q".to_string()))], prop::collection::vec((prop_oneof![Just(None), Just(Some("x".to_string())), Just(Some("y".to_string())), Just(Some("z".to_string()))], inner), 1..4)).prop_map(|(name, fields)| {
            // labels must be distinct
            let mut seen: Vec<String> = Vec::new();
            let fields = fields.into_iter().map(|(l, v)| match l {
                Some(l) if seen.contains(&l) => (None, v),
                Some(l) => {
                    seen.push(l.clone());
                    (Some(l), v)
                }
                None => (None, v),
            }).collect();
            V::Tup { name, fields }
        })
    })
}

/// A value that differs from `v` in exactly one place (chosen by `dice`).
fn mutate(v: &V, dice: &[u8]) -> V {
    fn count(v: &V) -> usize {
        match v {
            V::Tup { fields, .. } => 1 + fields.iter().map(|(_, f)| count(f)).sum::<usize>(),
            _ => 1,
        }
    }
    fn go(v: &mut V, n: &mut usize, d: &[u8]) -> bool {
        if *n == 0 {
            let k = d.get(1).copied().unwrap_or(0);
            match v {
                V::Int(i) => *i = if k % 2 == 0 { i.wrapping_add(1) } else { -*i - 1 },
                V::Bin(b) => {
                    if k % 3 == 0 && b.len() > 1 {
                        b.pop();
                    } else if k % 3 == 1 {
                        b.push(k);
                    } else {
                        let i = k as usize % b.len();
                        b[i] ^= 0x01;
                    }
                }
                V::Tup { name, fields } => match k % 4 {
                    0 => *name = if name.as_deref() == Some("P") { Some("Q".into()) } else { Some("P".into()) },
                    1 if !fields.is_empty() => {
                        // relabel a field
                        let i = (k as usize / 4) % fields.len();
                        let new = if fields[i].0.as_deref() == Some("w") { None } else { Some("w".to_string()) };
                        fields[i].0 = new;
                    }
                    2 => fields.push((None, V::Int(0))),
                    _ => {
                        if fields.len() > 1 {
                            fields.pop();
                        } else {
                            *name = if name.is_none() { Some("R".into()) } else { None };
                        }
                    }
                },
                _ => {}
            }
            return true;
        }
        *n -= 1;
        if let V::Tup { fields, .. } = v {
            for (_, f) in fields.iter_mut() {
                if go(f, n, d) {
                    return true;
                }
            }
        }
        false
    }
    let mut out = v.clone();
    let mut n = (dice.first().copied().unwrap_or(0) as usize * count(v)) >> 8;
    go(&mut out, &mut n, dice);
    out
}

#[derive(Clone, Debug, PartialEq)]
pub enum Path {
    Literal,
    Computed,
    ViaVars,
    Spread,
    GenericId,
    Dispatch,
    Module,
    Closure,
    Captured,
    Message,
    /// the tuple is assembled inside a generic function from its first field (the value then
    /// carries the tuple id of the generic definition, not the one of the literal)
    GenericCtor,
}

fn path() -> impl Strategy<Value = Path> {
    prop_oneof![
        2 => Just(Path::Literal),
        3 => Just(Path::Computed),
        2 => Just(Path::ViaVars),
        2 => Just(Path::Spread),
        2 => Just(Path::GenericId),
        2 => Just(Path::Dispatch),
        2 => Just(Path::Module),
        1 => Just(Path::Closure),
        2 => Just(Path::Captured),
        2 => Just(Path::Message),
        3 => Just(Path::GenericCtor),
    ]
}

fn type_of(v: &V) -> String {
    match v {
        V::Int(_) => "'int".into(),
        V::Bin(_) => "'bin".into(),
        V::Tup { name, fields } => {
            let fs: Vec<String> = fields.iter().map(|(l, f)| match l {
                Some(l) => format!("{l}: {}", type_of(f)),
                None => type_of(f),
            }).collect();
            match (name, fs.is_empty()) {
                (Some(n), true) => n.clone(),
                (Some(n), false) => format!("{n}[{}]", fs.join(", ")),
                (None, _) => format!("[{}]", fs.join(", ")),
            }
        }
        _ => "'int".into(),
    }
}

/// Expression that computes `v` without writing it as one literal: integers by arithmetic,
/// binaries by concatenation / slicing / tiling / bit operations (heap ropes, views and tiled
/// binaries instead of a constant; which one is chosen by `salt`), tuples field by field.
fn computed(v: &V, salt: u8) -> String {
    fn hexs(b: &[u8]) -> String {
        V::Bin(b.to_vec()).source()
    }
    match v {
        V::Int(i) => match salt % 3 {
            0 => format!("[{}, 3] __integer_add__", i.wrapping_sub(3)),
            1 => format!("[{}, -7] __integer_subtract__", i.wrapping_sub(7)),
            _ => format!("[{i}, 1] __integer_multiply__"),
        },
        V::Bin(b) => {
            let n = b.len();
            // shortest period of the bytes
            let period = (1..=n).find(|p| n % p == 0 && b.iter().enumerate().all(|(i, x)| *x == b[i % p])).unwrap_or(n);
            let mut options: Vec<String> = Vec::new();
            if n >= 2 {
                let (x, y) = b.split_at(n / 2);
                options.push(format!("[{}, {}] __binary_concat__", hexs(x), hexs(y)));
                let (x, y) = b.split_at(1);
                options.push(format!("[{}, {}] __binary_concat__", hexs(x), hexs(y)));
            }
            options.push(format!("[{}, 0, {n}] __binary_slice__", hexs(&[b.clone(), vec![0x55]].concat())));
            options.push(format!("[{}, 1, {}] __binary_slice__", hexs(&[vec![0x66], b.clone()].concat()), n + 1));
            // tiled from the shortest unit, from the whole, and (if possible) from a double unit
            options.push(format!("[{}, {}] __binary_repeat__", hexs(&b[..period]), n / period));
            options.push(format!("[{}, 1] __binary_repeat__", hexs(b)));
            if n / period >= 2 && (n / period) % 2 == 0 {
                options.push(format!("[{}, {}] __binary_repeat__", hexs(&b[..2 * period]), n / period / 2));
            }
            options.push(format!("[{}, {}] __binary_xor__", hexs(b), hexs(&vec![0u8; n])));
            options.push(format!("[{}, {}] __binary_and__", hexs(b), hexs(&vec![0xffu8; n])));
            options[(salt as usize * options.len()) >> 8].clone()
        }
        V::Tup { name, fields } => {
            let fs: Vec<String> = fields.iter().enumerate().map(|(i, (l, f))| {
                let e = computed(f, salt.wrapping_mul(31).wrapping_add(i as u8 * 57 + 11));
                match l {
                    Some(l) => format!("{l}: {e}"),
                    None => e,
                }
            }).collect();
            match (name, fs.is_empty()) {
                (Some(n), true) => n.clone(),
                (Some(n), false) => format!("{n}[{}]", fs.join(", ")),
                (None, _) => format!("[{}]", fs.join(", ")),
            }
        }
        other => other.source(),
    }
}

pub struct Built {
    pub lines: Vec<String>,
    pub modules: Vec<(String, String)>,
    pub needs_env: bool,
}

/// Emit the lines that bind `var` to `v` built along `path`, then widened at type `'u`.
fn construct(var: &str, v: &V, path: &Path, salt: u8, out: &mut Built) {
    let lit = v.source();
    let expr: String = match path {
        Path::Literal => lit,
        Path::Computed => computed(v, salt),
        Path::ViaVars => match v {
            V::Tup { name, fields } if !fields.is_empty() => {
                let mut fs = Vec::new();
                for (i, (l, f)) in fields.iter().enumerate() {
                    out.lines.push(format!("{var}_f{i} = {}", computed(f, salt.wrapping_add(i as u8 * 29 + 5))));
                    fs.push(match l {
                        Some(l) => format!("{l}: {var}_f{i}"),
                        None => format!("{var}_f{i}"),
                    });
                }
                format!("{}[{}]", name.clone().unwrap_or_default(), fs.join(", "))
            }
            _ => {
                out.lines.push(format!("{var}_v = {}", computed(v, salt)));
                format!("{var}_v")
            }
        },
        Path::Spread => match v {
            // build the tuple with a wrong value in one labelled field, then override it
            V::Tup { name, fields } if fields.iter().any(|(l, _)| l.is_some()) => {
                let k = fields.iter().position(|(l, _)| l.is_some()).unwrap();
                let fs: Vec<String> = fields.iter().enumerate().map(|(i, (l, f))| {
                    let val = if i == k { "0".to_string() } else { f.source() };
                    match l {
                        Some(l) => format!("{l}: {val}"),
                        None => val,
                    }
                }).collect();
                out.lines.push(format!("{var}_base = {}[{}]", name.clone().unwrap_or_default(), fs.join(", ")));
                let lab = fields[k].0.clone().unwrap();
                format!("{var}_base ~[..., {lab}: {}]", computed(&fields[k].1, salt))
            }
            _ => computed(v, salt),
        },
        Path::GenericId => format!("{lit} idg"),
        Path::GenericCtor => match v {
            V::Tup { name, fields } if !fields.is_empty() => {
                let k = salt as usize % fields.len();
                let fs: Vec<String> = fields
                    .iter()
                    .enumerate()
                    .map(|(i, (l, f))| {
                        let val = if i == k { "~".to_string() } else { f.source() };
                        match l {
                            Some(l) => format!("{l}: {val}"),
                            None => val,
                        }
                    })
                    .collect();
                out.lines.push(format!("{var}_mk = #<'t>'t {{ {}[{}] }}", name.clone().unwrap_or_default(), fs.join(", ")));
                format!("{} {var}_mk", computed(&fields[k].1, salt))
            }
            _ => format!("{} idg", computed(v, salt)),
        },
        Path::Dispatch => format!("{} dsp", computed(v, salt)),
        Path::Module => {
            let name = format!("mod{var}");
            out.modules.push((name.clone(), computed(v, salt)));
            format!("%{name}")
        }
        Path::Closure => {
            out.lines.push(format!("{var}_c = #{{ {} }}", computed(v, salt)));
            format!("[] {var}_c")
        }
        Path::Captured => {
            out.lines.push(format!("{var}_t = {}", computed(v, salt)));
            out.lines.push(format!("{var}_c = #{{ {var}_t }}"));
            format!("[] {var}_c")
        }
        Path::Message => {
            out.needs_env = true;
            out.lines.push(format!("{var}_h = @#{{ ! [#'u] }}"));
            out.lines.push(format!("{} {var}_h", computed(v, salt)));
            format!("!{var}_h")
        }
    };
    out.lines.push(format!("{var}_raw = {expr}"));
    out.lines.push(format!("{var} = {var}_raw wd"));
}

#[derive(Clone, Debug)]
pub struct Case {
    pub a: V,
    pub dice: Option<Vec<u8>>, // None: b equals a
    pub pa: Path,
    pub pb: Path,
    pub pc: Path,
    pub salts: [u8; 3],
}

impl Case {
    pub fn b(&self) -> V {
        match &self.dice {
            None => self.a.clone(),
            Some(d) => mutate(&self.a, d),
        }
    }
}

pub fn strategy() -> impl Strategy<Value = Case> {
    (value(), prop::option::weighted(0.55, prop::collection::vec(any::<u8>(), 2)), path(), path(), path(), any::<[u8; 3]>()).prop_map(|(a, dice, pa, pb, pc, salts)| Case { a, dice, pa, pb, pc, salts })
}

pub const FORMS: usize = 14;

pub struct Rendered {
    pub source: String,
    pub modules: Vec<(String, String)>,
    pub needs_env: bool,
    /// expected verdict per form (true = Ok)
    pub expected: Vec<bool>,
    /// `a` is a tuple that was assembled inside a generic function (see LITERAL_ON_GENERIC)
    pub a_generic_built: bool,
}

/// Recorded finding (C08's, seen here): a literal / tuple pattern is a run-time type test, and that
/// looks only at the tuple id the value was constructed with; a tuple assembled inside a generic
/// function matches every pattern of its name and arity. Only "different values compare equal" in
/// the two literal-pattern forms with such a scrutinee is attributed to it.
pub const LITERAL_ON_GENERIC: &str = "different-values-compare-equal:literal-pattern-on-a-value-assembled-in-a-generic-function";

pub fn render(c: &Case) -> Rendered {
    let b = c.b();
    let eq = c.a == b;
    let (ta, tb) = (type_of(&c.a), type_of(&b));
    let u = if ta == tb { format!("{ta} | Zz") } else { format!("{ta} | {tb}") };
    let mut out = Built { lines: vec![], modules: vec![], needs_env: false };
    out.lines.push(format!("'u = {u}"));
    out.lines.push("wd = #'u { $ }".into());
    out.lines.push("idg = #<'t>'t { ~ }".into());
    out.lines.push("dsp = #'u { | ='int => $ | ='bin => $ | $ }".into());
    construct("a", &c.a, &c.pa, c.salts[0], &mut out);
    construct("b", &b, &c.pb, c.salts[1], &mut out);
    construct("c", &c.a, &c.pc, c.salts[2], &mut out);
    let lb = b.source();
    // Recorded finding (see LITERAL_ON_GENERIC): a literal pattern on a tuple that was assembled
    // inside a generic function is excluded by construction — the two literal-pattern forms then
    // test b against its own literal (Ok however b was built).
    let a_generic_built = c.pa == Path::GenericCtor && matches!(&c.a, V::Tup { fields, .. } if !fields.is_empty());
    let (lit_scrutinee, lit_eq) = if a_generic_built { ("b", true) } else { ("a", eq) };
    let forms = vec![
        ("a =&b".to_string(), eq),
        ("b =&a".to_string(), eq),
        ("[a, b] =[x0, x0]".to_string(), eq),
        (format!("{lit_scrutinee} ={lb}"), lit_eq),
        ("P[q: a, r: 1] =P[q: &b, r: 1]".to_string(), eq),
        (format!("[{lit_scrutinee}, 5] =[{lb}, 5]"), lit_eq),
        ("Wr[a] =Wr[&b]".to_string(), eq),
        ("a =&c".to_string(), true),
        ("c =&a".to_string(), true),
        ("[a, c, a] =[y0, y0, y0]".to_string(), true),
        ("[c, b] =[z0, z0]".to_string(), eq),
        // repeated binders whose occurrences carry a type ascription
        ("[a, b] =[v0, ('u)v0]".to_string(), eq),
        ("[b, a] =[('u)w0, w0]".to_string(), eq),
        ("[a, b, c] =[('u)t0, ('u)t0, t0]".to_string(), eq),
    ];
    // each form in its own closure: a match used as a value narrows its operands for the rest of
    // the enclosing scope (a separate, recorded defect), so forms must not see each other
    for (i, (f, _)) in forms.iter().enumerate() {
        out.lines.push(format!("q{i} = #{{ {f} }}"));
    }
    out.lines.push(format!("[{}]", (0..forms.len()).map(|i| format!("[] q{i}")).collect::<Vec<_>>().join(", ")));
    Rendered { source: out.lines.join(",\n"), modules: out.modules, needs_env: out.needs_env, expected: forms.iter().map(|(_, e)| *e).collect(), a_generic_built }
}

fn verdicts(v: &HVal) -> Option<Vec<bool>> {
    let HVal::Tuple(None, fields) = v else { return None };
    fields.iter().map(|(_, f)| match f {
        HVal::Tuple(Some(n), fs) if n == "Ok" && fs.is_empty() => Some(true),
        HVal::Tuple(None, fs) if fs.is_empty() => Some(false),
        _ => None,
    }).collect()
}

pub struct Facts {
    pub runs: u32,
    pub equal_pair: bool,
    pub different_runtime_shape: bool,
    pub discarded: bool,
}

const FORM_TEXT: [&str; FORMS] = ["a =&b", "b =&a", "[a, b] =[x, x]", "a =<literal b>", "P[q: a, r: 1] =P[q: &b, r: 1]", "[a, 5] =[<literal b>, 5]", "Wr[a] =Wr[&b]", "a =&c", "c =&a", "[a, c, a] =[y, y, y]", "[c, b] =[z, z]", "[a, b] =[v, ('u)v]", "[b, a] =[('u)w, w]", "[a, b, c] =[('u)t, ('u)t, t]"];

pub fn check_rendered(r: &Rendered, reg: &qrun::Registry) -> Result<Facts, (String, String)> {
    let mods: Modules = r.modules.iter().map(|(n, s)| (vec![n.clone()], s.clone())).collect();
    let what = format!("{}--- program ---\n{}", r.modules.iter().map(|(n, s)| format!("--- module {n} ---\n{s}\n")).collect::<String>(), r.source);
    let c = match catch(|| qrun::compile(&r.source, &mods, reg)) {
        Ok(Ok(c)) => c,
        Ok(Err(e)) => return Err(("generator-rejected".into(), format!("{e:?}\n{what}"))),
        Err(p) => return Err(("compile-panic".into(), format!("{p}\n{what}"))),
    };
    let (runs, _) = pack::run_all(&c, &[], reg);
    let mut f = Facts { runs: 0, equal_pair: r.expected[0], different_runtime_shape: false, discarded: false };
    for run in &runs {
        // programs with a process need an environment: only the merged variants can run them
        if r.needs_env && !run.name.contains("merged") {
            continue;
        }
        f.runs += 1;
        let got = match &run.res {
            Res::Val(v) => match verdicts(v) {
                Some(g) => g,
                None => return Err(("bad-result".into(), format!("variant {}: {}\n{what}", run.name, run.res.show()))),
            },
            other => return Err((format!("run:{}", match other { Res::Err(_) => "error", Res::Broken(_) => "broken", _ => "stuck" }), format!("variant {}: {}\n{what}", run.name, other.show()))),
        };
        for (i, (g, e)) in got.iter().zip(r.expected.iter()).enumerate() {
            if g != e {
                let kind = if *e {
                    "equal-values-compare-unequal"
                } else if r.a_generic_built && (i == 3 || i == 5) {
                    LITERAL_ON_GENERIC
                } else {
                    "different-values-compare-equal"
                };
                return Err((kind.into(), format!("variant {}: form `{}` gives {} but the two values are structurally {}\n{what}", run.name, FORM_TEXT[i], if *g { "Ok" } else { "[]" }, if *e { "the same" } else { "different" })));
            }
        }
    }
    Ok(f)
}

/// The same comparisons spread over a REPL session: the definitions on the first line, a line
/// that adds code but no new tuple shape, then all forms on a later line (the workers' tables are
/// updated incrementally between lines). Verdicts must be the ones of the single program.
pub fn check_in_repl(r: &Rendered, reg: &qrun::Registry, workers: usize) -> Result<(), (String, String)> {
    let mods: Modules = r.modules.iter().map(|(n, s)| (vec![n.clone()], s.clone())).collect();
    let lines: Vec<&str> = r.source.split(",\n").collect();
    let Some((_, defs)) = lines.split_last() else { return Ok(()) };
    // every form on a line of its own: `[] qi` yields Ok or [] and registers no new tuple shape
    let mut session = vec![defs.join(", "), "n9 = 12345, n9".to_string()];
    session.extend((0..r.expected.len()).map(|i| format!("[] q{i}")));
    let what = format!("{}--- session ---\n{}", r.modules.iter().map(|(n, s)| format!("--- module {n} ---\n{s}\n")).collect::<String>(), session.join("\n"));
    let cfg = SimCfg { workers, quanta: vec![1000], schedule: vec![], max_moves: 3_000_000, env_slow: 0 };
    let mut rs = match catch(|| crate::replsim::ReplSim::new(cfg, &mods, reg)) {
        Ok(Ok(rs)) => rs,
        Ok(Err(e)) => return Err(("harness".into(), format!("ReplSim::new: {e}"))),
        Err(p) => return Err(("repl-panic".into(), format!("{p}\n{what}"))),
    };
    let ok = HVal::Tuple(Some("Ok".into()), vec![]);
    for (li, l) in session.iter().enumerate() {
        let v = match catch(|| rs.eval(l)) {
            Ok(Ok(crate::replsim::LineOutcome::Value(v))) => v,
            Ok(Ok(other)) => return Err(("repl:line-not-evaluated".into(), format!("line `{}` gives {other:?}\n{what}", truncate(l, 200)))),
            Ok(Err(e)) if e == "budget" => return Ok(()),
            Ok(Err(e)) => return Err(("repl:stuck".into(), format!("line `{}`: {e}\n{what}", truncate(l, 200)))),
            Err(p) => return Err(("repl-panic".into(), format!("{p}\n{what}"))),
        };
        if li < 2 {
            continue;
        }
        let i = li - 2;
        let g = if v == ok {
            true
        } else if v.is_nil() {
            false
        } else {
            return Err(("bad-result".into(), format!("REPL session: line `{l}` gives {}\n{what}", v.full())));
        };
        let e = r.expected[i];
        if g != e {
            let kind = if e {
                "equal-values-compare-unequal"
            } else if r.a_generic_built && (i == 3 || i == 5) {
                LITERAL_ON_GENERIC
            } else {
                "different-values-compare-equal"
            };
            return Err((kind.into(), format!("REPL session ({workers} worker(s)): form `{}` gives {} on a later line but the two values are structurally {}\n{what}", FORM_TEXT[i], if g { "Ok" } else { "[]" }, if e { "the same" } else { "different" })));
        }
    }
    Ok(())
}

// ---------------------------------------------------------------------------------------------
// functions: identity of definition + equality of captures

#[derive(Clone, Debug)]
pub struct FnCase {
    pub cap_a: i64,
    pub cap_b: i64,
    pub bin_caps: bool,
    pub via: u8,
}

pub fn render_fn(c: &FnCase) -> (String, Vec<bool>) {
    let cap = |n: i64| if c.bin_caps { format!("[0xab, {}] __binary_repeat__", n.rem_euclid(6)) } else { n.to_string() };
    let ty = if c.bin_caps { "'bin" } else { "'int" };
    let same_caps = if c.bin_caps { c.cap_a.rem_euclid(6) == c.cap_b.rem_euclid(6) } else { c.cap_a == c.cap_b };
    let via = |name: &str| match c.via % 4 {
        0 => format!("&{name}"),
        1 => format!("{{ [&{name}] =[k{name}], &k{name} }}"),
        2 => format!("&{name} idg"),
        _ => format!("{{ w{name} = #{{ &{name} }}, [] w{name} }}"),
    };
    let lines = vec![
        "idg = #<'t>'t { ~ }".to_string(),
        format!("mk = #{ty} {{ =n, #{{ n }} }}"),
        // a different definition (the program table merges textually identical functions, so
        // identical text is one definition)
        format!("mk2 = #{ty} {{ =n, #{{ n =k, k }} }}"),
        format!("fa = {} mk", cap(c.cap_a)),
        format!("fb = {} mk", cap(c.cap_b)),
        format!("fo = {} mk2", cap(c.cap_a)),
        format!("ga = {}", via("fa")),
        "plain = #{ 1 }".to_string(),
        "plain2 = #{ 1 =k, k }".to_string(),
        format!("pv = {}", via("plain")),
        "[&fa =&fb, &fb =&fa, &fa =&ga, &ga =&fa, &fa =&fo, &plain =&pv, &plain =&plain2, [&fa, &ga] =[x0, x0], [&fa, &fb] =[y0, y0], &mk =&mk, &mk =&mk2]".to_string(),
    ];
    let expected = vec![same_caps, same_caps, true, true, false, true, false, true, same_caps, true, false];
    (lines.join(",\n"), expected)
}

const FN_FORM_TEXT: [&str; 11] = ["closures of one definition with these captures", "the same, other way round", "a closure and itself through another path", "the same, other way round", "closures of two different definitions with equal captures", "a capture-free function and itself through another path", "two different capture-free functions", "[fa, ga] =[x, x]", "[fa, fb] =[y, y]", "a function and itself", "two different functions"];

pub fn check_fn(c: &FnCase, reg: &qrun::Registry) -> Result<u32, (String, String)> {
    let (src, expected) = render_fn(c);
    let comp = match catch(|| qrun::compile(&src, &Modules::new(), reg)) {
        Ok(Ok(c)) => c,
        Ok(Err(e)) => return Err(("generator-rejected".into(), format!("{e:?}\n{src}"))),
        Err(p) => return Err(("compile-panic".into(), format!("{p}\n{src}"))),
    };
    let (runs, _) = pack::run_all(&comp, &[], reg);
    for run in &runs {
        let got = match &run.res {
            Res::Val(v) => verdicts(v).ok_or_else(|| ("bad-result".to_string(), format!("variant {}: {}\n{src}", run.name, run.res.show())))?,
            other => return Err(("run:error".into(), format!("variant {}: {}\n{src}", run.name, other.show()))),
        };
        for (i, (g, e)) in got.iter().zip(expected.iter()).enumerate() {
            if g != e {
                return Err(("function-equality".into(), format!("variant {}: {} compare {} but should compare {}\n{src}", run.name, FN_FORM_TEXT[i], if *g { "equal" } else { "unequal" }, if *e { "equal" } else { "unequal" })));
            }
        }
    }
    Ok(runs.len() as u32)
}

// ---------------------------------------------------------------------------------------------
// refs: equal iff same minting, across processes and workers

#[derive(Clone, Debug)]
pub struct RefCase {
    pub minters: Vec<u8>, // refs minted per process (1..5)
    pub main_mints: u8,
    pub by_message: bool,
    pub cfg: (u8, u8, Vec<u8>),
}

pub fn ref_strategy() -> impl Strategy<Value = RefCase> {
    (prop::collection::vec(1u8..5, 2..6), 0u8..3, any::<bool>(), (1u8..=4, 0u8..6, prop::collection::vec(any::<u8>(), 0..120))).prop_map(|(minters, main_mints, by_message, cfg)| RefCase { minters, main_mints, by_message, cfg })
}

pub fn render_ref(c: &RefCase) -> (String, Vec<(usize, usize)>) {
    // identity of each collected ref: (minter index, ordinal); main = minter usize::MAX
    let mut lines = Vec::new();
    let mut ids: Vec<(usize, usize)> = Vec::new();
    let mut vars: Vec<String> = Vec::new();
    if c.by_message {
        lines.push("! [#'ref { [] }, 0] Ok".to_string());
    }
    for (i, n) in c.minters.iter().enumerate() {
        let mints: Vec<String> = (0..*n).map(|_| "[] __reference__".to_string()).collect();
        if c.by_message && i % 2 == 1 {
            // this minter mails its first ref to main as well
            lines.push(format!("m{i} = @#{{ r0 = [] __reference__, r0 ., [r0{}] }}", (1..*n).map(|_| ", [] __reference__".to_string()).collect::<String>()));
        } else {
            lines.push(format!("m{i} = @{{ [{}] }}", mints.join(", ")));
        }
    }
    for (i, n) in c.minters.iter().enumerate() {
        let names: Vec<String> = (0..*n).map(|k| format!("r{i}_{k}")).collect();
        lines.push(format!("[{}] = !m{i}", names.join(", ")));
        for (k, nm) in names.iter().enumerate() {
            ids.push((i, k));
            vars.push(nm.clone());
        }
    }
    for k in 0..c.main_mints {
        lines.push(format!("mr{k} = [] __reference__"));
        ids.push((usize::MAX, k as usize));
        vars.push(format!("mr{k}"));
    }
    // cap the number of pairs
    let n = vars.len().min(9);
    let mut cmps = Vec::new();
    for i in 0..n {
        for j in 0..n {
            cmps.push(format!("{} =&{}", vars[i], vars[j]));
        }
    }
    lines.push(format!("[{}]", cmps.join(", ")));
    (lines.join(",\n"), ids[..n].to_vec())
}

pub fn check_ref(c: &RefCase, reg: &qrun::Registry) -> Result<(u32, bool), (String, String)> {
    // the message variant needs `.` (self) which this language does not have: keep await only
    let c = RefCase { by_message: false, ..c.clone() };
    let (src, ids) = render_ref(&c);
    let comp = match catch(|| qrun::compile(&src, &Modules::new(), reg)) {
        Ok(Ok(c)) => c,
        Ok(Err(e)) => return Err(("generator-rejected".into(), format!("{e:?}\n{src}"))),
        Err(p) => return Err(("compile-panic".into(), format!("{p}\n{src}"))),
    };
    let bc = comp.program.to_bytecode(comp.entry);
    let (workers, qi, schedule) = &c.cfg;
    let q = crate::props::c03::QUANTA[*qi as usize % crate::props::c03::QUANTA.len()];
    let run = sim::run_program(&bc, SimCfg { workers: *workers as usize, quanta: vec![q], schedule: schedule.clone(), max_moves: 300_000, env_slow: 0 }, reg, None, |_, _| Ok(()));
    let desc = format!("workers={workers} quantum={q} schedule={}", hex(schedule));
    if !matches!(run.end, SimEnd::Done) {
        if matches!(run.end, SimEnd::Budget) {
            return Ok((0, false));
        }
        return Err(("run:error".into(), format!("{desc}: {:?}\n{src}", run.end)));
    }
    let Some(Ok(v)) = &run.result else { return Err(("bad-result".into(), format!("{desc}: {:?}\n{src}", run.result))) };
    let Some(got) = verdicts(v) else { return Err(("bad-result".into(), format!("{desc}: {v}\n{src}"))) };
    let n = ids.len();
    for i in 0..n {
        for j in 0..n {
            let e = ids[i] == ids[j];
            if got[i * n + j] != e {
                let (kind, text) = if e { ("ref-not-equal-to-itself", "a ref does not equal itself") } else { ("distinct-refs-compare-equal", "two refs from different mintings compare equal") };
                return Err((kind.into(), format!("{desc}: {text}: ref {:?} vs ref {:?} (minter, ordinal)\n{src}", ids[i], ids[j])));
            }
        }
    }
    Ok((1, *workers >= 2))
}

// ---------------------------------------------------------------------------------------------

pub fn run(ctx: &Ctx) -> i32 {
    let started = Instant::now();
    let stats = Stats::new();
    let known = KnownFindings::load();
    let cases_per_shard: u32 = ctx.tier.pick(4_000, 100_000);

    let violations = run_sharded(ctx.shards, |shard| {
        let reg = qrun::registry();
        let mut out = Vec::new();
        let tolerate = |sig: &str| -> bool { !ctx.strict && known.is_known(ctx.id, sig).is_some() };

        // stream 1: structural values along construction paths
        let strat = strategy();
        let res = pt_search(derive_seed(ctx.seed, ctx.id, shard, 0), cases_per_shard, &strat, &stats, |case| {
            let r = render(case);
            crumb(ctx.id, || json!({"kind": "values", "source": r.source, "modules": r.modules, "needs_env": r.needs_env, "expected": r.expected, "a_generic_built": r.a_generic_built}));
            let in_repl = case.salts[2] % 4 == 0;
            let checked = check_rendered(&r, &reg).and_then(|f| {
                if in_repl {
                    check_in_repl(&r, &reg, 1 + (case.salts[1] % 2) as usize)?;
                }
                Ok(f)
            });
            match checked {
                Ok(f) => {
                    stats.evals(f.runs as u64 + in_repl as u64);
                    if in_repl {
                        stats.class("variant:repl-session-forms-on-a-later-line");
                    }
                    stats.class(if f.equal_pair { "pair:structurally-equal" } else { "pair:differs-in-one-place" });
                    for p in [&case.pa, &case.pb, &case.pc] {
                        stats.class(match p {
                            Path::Literal => "path:literal",
                            Path::Computed => "path:computed(heap-rope-vs-constant)",
                            Path::ViaVars => "path:fields-through-variables",
                            Path::Spread => "path:spread-override",
                            Path::GenericId => "path:generic-function",
                            Path::Dispatch => "path:dispatch-function",
                            Path::Module => "path:imported-from-module",
                            Path::Closure => "path:returned-from-closure",
                            Path::Captured => "path:captured-then-returned",
                            Path::Message => "path:sent-and-received",
                            Path::GenericCtor => "path:assembled-inside-a-generic-function",
                        });
                    }
                    if case.pa != case.pb {
                        stats.nontrivial(&r.source);
                        stats.sample(|| json!({"program": truncate(&r.source, 700), "expected": r.expected}));
                    }
                    Ok(())
                }
                Err((sig, msg)) => {
                    if tolerate(&sig) {
                        stats.known_hit(&sig);
                        return Ok(());
                    }
                    Err(format!("{sig}\u{1}{msg}"))
                }
            }
        });
        if let Search::Failed { minimal, message } = res {
            let (sig, msg) = message.split_once('\u{1}').map(|(a, b)| (a.to_string(), b.to_string())).unwrap_or((message.clone(), message));
            let r = render(&minimal);
            out.push(Violation { signature: sig, summary: truncate(&msg, 6000), replay: json!({"kind": "values", "source": r.source, "modules": r.modules, "needs_env": r.needs_env, "expected": r.expected, "a_generic_built": r.a_generic_built}) });
        }

        // stream 2: functions
        let fstrat = (-3i64..9, -3i64..9, any::<bool>(), 0u8..4).prop_map(|(cap_a, cap_b, bin_caps, via)| FnCase { cap_a, cap_b, bin_caps, via });
        let res = pt_search(derive_seed(ctx.seed, ctx.id, shard, 1), cases_per_shard / 10, &fstrat, &stats, |case| match check_fn(case, &reg) {
            Ok(n) => {
                stats.evals(n as u64);
                stats.class("functions:definition-identity-and-captures");
                Ok(())
            }
            Err((sig, msg)) => {
                if tolerate(&sig) {
                    stats.known_hit(&sig);
                    return Ok(());
                }
                Err(format!("{sig}\u{1}{msg}"))
            }
        });
        if let Search::Failed { minimal, message } = res {
            let (sig, msg) = message.split_once('\u{1}').map(|(a, b)| (a.to_string(), b.to_string())).unwrap_or((message.clone(), message));
            out.push(Violation { signature: sig, summary: truncate(&msg, 6000), replay: json!({"kind": "fn", "cap_a": minimal.cap_a, "cap_b": minimal.cap_b, "bin_caps": minimal.bin_caps, "via": minimal.via}) });
        }

        // stream 3: refs across processes and workers
        let rstrat = ref_strategy();
        let res = pt_search(derive_seed(ctx.seed, ctx.id, shard, 2), cases_per_shard / 4, &rstrat, &stats, |case| match check_ref(case, &reg) {
            Ok((n, multi)) => {
                stats.evals(n as u64);
                if n == 0 {
                    stats.inconclusive();
                } else {
                    stats.class("refs:all-pairs-compared");
                    if multi {
                        stats.class("refs:minted-on-2+-workers");
                    }
                }
                Ok(())
            }
            Err((sig, msg)) => {
                if tolerate(&sig) {
                    stats.known_hit(&sig);
                    return Ok(());
                }
                Err(format!("{sig}\u{1}{msg}"))
            }
        });
        if let Search::Failed { minimal, message } = res {
            let (sig, msg) = message.split_once('\u{1}').map(|(a, b)| (a.to_string(), b.to_string())).unwrap_or((message.clone(), message));
            out.push(Violation { signature: sig, summary: truncate(&msg, 6000), replay: json!({"kind": "ref", "minters": minimal.minters, "main_mints": minimal.main_mints, "workers": minimal.cfg.0, "qi": minimal.cfg.1, "schedule": hex(&minimal.cfg.2)}) });
        }
        out
    });

    // directed probe: nil equals nil under a pin, a nested pin and a repeated binder
    let mut violations = violations;
    {
        let reg = qrun::registry();
        let src = "a = [], b = [], [a =&b, [a] =[&b], [a, b] =[x, x], [a, 1] =[[], 1], P[a] =P[&b]]";
        match qrun::eval_source(src, &Modules::new(), &reg, 1000, 1_000_000) {
            qrun::Outcome::Val(v) if verdicts(&v) == Some(vec![true; 5]) => stats.class("probe:nil-equals-nil"),
            other => {
                let sig = "equal-values-compare-unequal".to_string();
                if !ctx.strict && known.is_known(ctx.id, &sig).is_some() {
                    stats.known_hit(&sig);
                } else {
                    violations.push(Violation { signature: sig, summary: format!("nil does not compare equal to nil: {src} evaluates to {other:?}"), replay: json!({"kind": "nil-probe"}) });
                }
            }
        }
    }

    // the recorded finding is re-established by a directed input on every run
    if known.is_known(ctx.id, LITERAL_ON_GENERIC).is_some() {
        let reg = qrun::registry();
        let src = "'u = [K] | [P]\nwd = #'u { $ },\nmk = #<'t>'t { [~] },\na = K mk wd,\na =[P]";
        match qrun::eval_source(src, &Modules::new(), &reg, 1000, 1_000_000) {
            qrun::Outcome::Val(v) if v.to_string() == "Ok" => stats.known_hit(LITERAL_ON_GENERIC),
            other => println!("NOTE: known finding {LITERAL_ON_GENERIC} no longer reproduces (witness gives {other:?})"),
        }
    }

    finish(Report {
        ctx,
        stats: &stats,
        violations,
        rule: "stream 1: a generated value a (ints incl. large, binaries, named/unnamed tuples with labels, depth <= 3), b = a or a changed in exactly one place (a leaf, a byte, a length, a name, a label, the arity), and c = a again; each built along a generated path (literal; computed: addition, concatenation/slice so the binary is a heap rope; fields through variables; spread override; through a generic function; assembled inside a generic function from one of its fields; through a dispatch function; imported from a module; returned from a closure; captured then returned; sent to a process and awaited back) and widened at a union type so the comparison runs at run time; fourteen comparison forms (pinned both ways, repeated binders, literal patterns, nested in tuples, a vs c both ways, three-way repeated binder, repeated binders with type ascriptions on the first / later / several occurrences) in every packaging variant (as compiled, tree-shaken, JSON, merged) and, for a quarter of the cases, spread over a REPL session in the simulator (definitions, a line adding code but no tuple shape, then every form on a line of its own); verdict = structural equality of the host values. stream 2: closures of one definition with equal/different captures (ints or heap binaries), the same closure through four paths, and closures of a second, different definition with the same captures. stream 3: 2-5 processes mint 1-4 refs each on 1-4 simulated workers, main mints 0-2, all pairs compared: equal iff same minting. evaluations = program runs; non-trivial = the two values were built along different paths; distinct by program text".into(),
        assumptions: vec![
            "integers are compared by value, binaries by bytes, tuples by name, labels and fields; functions by definition site and captured values, as the statement says".into(),
            "the widening function is an identity at a union type; it does not rebuild the value".into(),
            "recorded finding (root cause under C08): literal/tuple patterns are run-time type tests on the tuple id a value was constructed with, and a tuple assembled inside a generic function matches every pattern of its name and arity; only 'different values compare equal' in the two literal-pattern forms with such a scrutinee is attributed to it".into(),
        ],
        required_classes: vec!["pair:structurally-equal", "pair:differs-in-one-place", "variant:repl-session-forms-on-a-later-line", "path:assembled-inside-a-generic-function", "path:literal", "path:computed(heap-rope-vs-constant)", "path:fields-through-variables", "path:spread-override", "path:generic-function", "path:dispatch-function", "path:imported-from-module", "path:returned-from-closure", "path:captured-then-returned", "path:sent-and-received", "functions:definition-identity-and-captures", "probe:nil-equals-nil", "refs:all-pairs-compared", "refs:minted-on-2+-workers"],
        started,
        technique: "proptest-generated values x construction paths x comparison forms x packaging variants; oracle = structural equality of host models; refs: identity model over simulated workers",
    })
}

pub fn replay(payload: &serde_json::Value) -> Result<(), String> {
    let reg = qrun::registry();
    match payload["kind"].as_str().unwrap_or("") {
        "values" => {
            let r = Rendered {
                source: payload["source"].as_str().ok_or("source")?.to_string(),
                modules: payload["modules"].as_array().map(|a| a.iter().filter_map(|m| Some((m[0].as_str()?.to_string(), m[1].as_str()?.to_string()))).collect()).unwrap_or_default(),
                needs_env: payload["needs_env"].as_bool().unwrap_or(false),
                expected: payload["expected"].as_array().map(|a| a.iter().map(|x| x.as_bool().unwrap_or(false)).collect()).unwrap_or_default(),
                a_generic_built: payload["a_generic_built"].as_bool().unwrap_or(false),
            };
            check_rendered(&r, &reg).map(|_| ()).map_err(|(s, m)| format!("{s}: {}", truncate(&m, 4000)))?;
            for w in [1, 2] {
                check_in_repl(&r, &reg, w).map_err(|(s, m)| format!("{s}: {}", truncate(&m, 4000)))?;
            }
            Ok(())
        }
        "fn" => {
            let c = FnCase { cap_a: payload["cap_a"].as_i64().unwrap_or(0), cap_b: payload["cap_b"].as_i64().unwrap_or(0), bin_caps: payload["bin_caps"].as_bool().unwrap_or(false), via: payload["via"].as_u64().unwrap_or(0) as u8 };
            check_fn(&c, &reg).map(|_| ()).map_err(|(s, m)| format!("{s}: {}", truncate(&m, 4000)))
        }
        "ref" => {
            let c = RefCase {
                minters: payload["minters"].as_array().map(|a| a.iter().map(|x| x.as_u64().unwrap_or(1) as u8).collect()).unwrap_or_default(),
                main_mints: payload["main_mints"].as_u64().unwrap_or(0) as u8,
                by_message: false,
                cfg: (payload["workers"].as_u64().unwrap_or(1) as u8, payload["qi"].as_u64().unwrap_or(5) as u8, unhex(payload["schedule"].as_str().unwrap_or(""))),
            };
            check_ref(&c, &reg).map(|_| ()).map_err(|(s, m)| format!("{s}: {}", truncate(&m, 4000)))
        }
        "nil-probe" => {
            let src = "a = [], b = [], [a =&b, [a] =[&b], [a, b] =[x, x], [a, 1] =[[], 1], P[a] =P[&b]]";
            match qrun::eval_source(src, &Modules::new(), &reg, 1000, 1_000_000) {
                qrun::Outcome::Val(v) if verdicts(&v) == Some(vec![true; 5]) => Ok(()),
                other => Err(format!("{src} evaluates to {other:?}")),
            }
        }
        _ => Err("unknown replay kind".into()),
    }
}
