//! C15 — failures are contained and propagate only to awaiters; workers never crash.

use crate::corpus;
use crate::fw::*;
use crate::mockfs::{MockBackend, Shared};
use crate::props::c03::{QUANTA, end_kind};
use crate::qrun;
use crate::sim::{self, SimCfg, SimEnd};
use proptest::prelude::*;
use serde_json::json;
use std::collections::BTreeMap;
use std::sync::atomic::AtomicUsize;
use std::sync::{Arc, Mutex};
use std::time::Instant;

#[derive(Clone, Debug, PartialEq)]
pub enum Fail {
    DivZero,
    SliceRange,
    ModZero,
    NegativeSqrt,
    EffectError,
    SpawnInFilter,
    SendInFilter,
    SelectInFilter,
}

impl Fail {
    fn body(&self) -> &'static str {
        match self {
            Fail::DivZero => "[1, 0] __integer_divide__",
            Fail::SliceRange => "[0x0102, 1, 9] __binary_slice__",
            Fail::ModZero => "[7, 0] __integer_modulo__",
            Fail::NegativeSqrt => "-4 __integer_sqrt__",
            Fail::EffectError => "[0x6661696c, 0, 420] __file_open__",
            Fail::SpawnInFilter => "! [#'int { @#{ 1 }, Ok }]",
            Fail::SendInFilter => "! [#'int { 42 k0, Ok }]",
            Fail::SelectInFilter => "! [#'int { ! [1], Ok }]",
        }
    }
    fn needs_message(&self) -> bool {
        matches!(self, Fail::SpawnInFilter | Fail::SendInFilter | Fail::SelectInFilter)
    }
    fn expect(&self) -> &'static str {
        match self {
            Fail::DivZero => "Division by zero",
            Fail::SliceRange => "Index out of bounds",
            Fail::ModZero => "Modulo by zero",
            Fail::NegativeSqrt => "square root of negative",
            Fail::EffectError => "Effect operation failed",
            Fail::SpawnInFilter => "operation: \"spawn\"",
            Fail::SendInFilter => "operation: \"send\"",
            Fail::SelectInFilter => "nest select",
        }
    }
}

#[derive(Clone, Debug)]
pub struct Scn {
    pub fail: Fail,
    pub fail_work: u16,
    /// awaiters of the failing process: (busy work before awaiting, awaits through a chain of this depth)
    pub awaiters: Vec<(u16, u8)>,
    /// an awaiter that first receives a message from a bystander
    pub talking_awaiter: Option<u16>,
    /// bystanders: busy work
    pub bystanders: Vec<u16>,
    /// the entry process spawns one more awaiter after this much work (await after the failure)
    pub late_awaiter: Option<u16>,
    /// a second, independent failing process with its own awaiter
    pub second: Option<(Fail, u16)>,
    /// a process that awaits a third failing process with a timeout, gives up when the timeout
    /// fires (the target is blocked until then), only then triggers the failure, and goes on
    /// working: (failure kind, timeout ms, work afterwards). It no longer awaits the failing
    /// process when that fails, so it must reach its normal result.
    pub gave_up: Option<(u8, u8, u16)>,
    /// an awaiter of the failing process whose select has a second source that becomes ready
    /// later (false: a timeout of this many ms; true: a message the entry sends near its end),
    /// followed by an observable effect: once it has failed it must not run on
    pub second_source: Option<(bool, u8)>,
}

#[derive(Clone, Debug)]
pub struct Case {
    pub scn: Scn,
    pub cfgs: Vec<(u8, u8, Vec<u8>)>,
}

fn fail() -> impl Strategy<Value = Fail> {
    prop::sample::select(vec![Fail::DivZero, Fail::SliceRange, Fail::ModZero, Fail::NegativeSqrt, Fail::EffectError, Fail::SpawnInFilter, Fail::SendInFilter, Fail::SelectInFilter])
}

pub fn strategy(n_cfgs: usize) -> impl Strategy<Value = Case> {
    let work = prop_oneof![3 => 0u16..20, 2 => 20u16..300, 1 => 300u16..1500];
    let scn = (
        fail(),
        work.clone(),
        prop::collection::vec((work.clone(), 0u8..3), 1..4),
        prop::option::of(work.clone()),
        prop::collection::vec(work.clone(), 1..3),
        prop::option::of(work.clone()),
        prop::option::of((fail(), work.clone())),
        prop::option::weighted(0.4, (0u8..5, 1u8..12, work)),
        prop::option::weighted(0.5, (any::<bool>(), 5u8..80)),
    )
        .prop_map(|(fail, fail_work, awaiters, talking_awaiter, bystanders, late_awaiter, second, gave_up, second_source)| Scn {
            fail,
            fail_work,
            awaiters,
            talking_awaiter,
            bystanders,
            late_awaiter,
            second,
            gave_up,
            second_source,
        });
    let cfg = (1u8..=4, 0u8..48, prop::collection::vec(any::<u8>(), 0..200));
    (scn, prop::collection::vec(cfg, n_cfgs)).prop_map(|(scn, cfgs)| Case { scn, cfgs })
}

const PRELUDE: &str = "\
loop = #['int, 'int] { =[n, acc], { | [n, 0] __integer_compare__ =0 => acc | [[n, 1] __integer_subtract__, [acc, n] __integer_add__] ^ } },
w = #'int { [~, 0] loop }";

fn tag(role: &str, i: usize) -> String {
    let b = role.as_bytes()[0];
    format!("0x{:02x}{:02x} __filesystem_stat__ Ok", b, i as u8)
}

pub fn render(s: &Scn) -> String {
    let mut lines = vec![PRELUDE.to_string()];
    // a process that only ever waits for a message (target of the forbidden send inside a filter)
    lines.push("k0 = @#{ ! [#'int] }".to_string());
    // failing process(es)
    lines.push(format!("f0 = @#{{ {}, {} w, {} }}", tag("f", 0), s.fail_work, s.fail.body()));
    if s.fail.needs_message() {
        lines.push("7 f0".to_string());
    }
    if let Some((f, wk)) = &s.second {
        lines.push(format!("f1 = @#{{ {}, {wk} w, {} }}", tag("f", 1), f.body()));
        if f.needs_message() {
            lines.push("7 f1".to_string());
        }
        lines.push(format!("s0 = @#{{ {}, ! [f1] }}", tag("s", 0)));
    }
    // awaiters (chains)
    for (i, (wk, depth)) in s.awaiters.iter().enumerate() {
        lines.push(format!("a{i}_0 = @#{{ {}, {wk} w, ! [f0] }}", tag("a", i * 4)));
        for d in 1..=*depth as usize {
            lines.push(format!("a{i}_{d} = @#{{ {}, ! [a{i}_{}] }}", tag("a", i * 4 + d), d - 1));
        }
    }
    // bystanders
    for (i, wk) in s.bystanders.iter().enumerate() {
        lines.push(format!("b{i} = @#{{ {}, {wk} w }}", tag("b", i)));
    }
    if let Some(wk) = s.talking_awaiter {
        lines.push(format!("t0 = @#{{ {}, ! [#'int] =x, ! [f0] }}", tag("t", 0)));
        lines.push(format!("c0 = &t0 @#(@'int) {{ =dst, {}, {wk} w, 41 dst, Told }}", tag("c", 0)));
    }
    if let Some(wk) = s.late_awaiter {
        lines.push(format!("{wk} w"));
        lines.push(format!("l0 = @#{{ {}, ! [f0] }}", tag("l", 0)));
    }
    if let Some((k, t, wk)) = s.gave_up {
        lines.push(format!("f2 = @#{{ {}, ! [#'int] =n, {} }}", tag("f", 2), GAVE_UP_FAILS[k as usize % GAVE_UP_FAILS.len()].body()));
        lines.push(format!("g0 = @#{{ {}, r = ! [f2, {t}], 7 f2, ! [20] Ok, {wk} w }}", tag("g", 0)));
    }
    if let Some((by_message, t)) = s.second_source {
        let other = if by_message { "#'int".to_string() } else { t.to_string() };
        lines.push(format!("z0 = @#{{ {}, r = ! [f0, {other}], {} }}", tag("z", 0), tag("z", 1)));
    }
    let mut fields: Vec<String> = (0..s.bystanders.len()).map(|i| format!("! [b{i}]")).collect();
    if s.talking_awaiter.is_some() {
        fields.push("! [c0]".to_string());
    }
    if s.gave_up.is_some() {
        fields.push("! [g0]".to_string());
    }
    lines.push("! [40] Ok".to_string());
    if let Some((true, _)) = s.second_source {
        lines.push("9 z0".to_string());
        lines.push("! [30] Ok".to_string());
    } else if s.second_source.is_some() {
        lines.push("! [90] Ok".to_string());
    }
    lines.push(format!("[{}]", fields.join(", ")));
    lines.join(",\n")
}

const GAVE_UP_FAILS: [Fail; 5] = [Fail::DivZero, Fail::SliceRange, Fail::ModZero, Fail::NegativeSqrt, Fail::EffectError];

fn sum_to(n: u16) -> String {
    ((n as u64) * (n as u64 + 1) / 2).to_string()
}

pub struct Facts {
    pub runs: u32,
    pub inconclusive: u32,
    pub cross_worker: bool,
}

pub fn check(case: &Case, reg: &qrun::Registry) -> Result<Facts, (String, String)> {
    let s = &case.scn;
    let src = render(s);
    let c = match catch(|| qrun::compile(&src, &qrun::Modules::new(), reg)) {
        Ok(Ok(c)) => c,
        Ok(Err(e)) => return Err(("generator-rejected".into(), format!("generated program does not compile: {e:?}\n{src}"))),
        Err(p) => return Err(("compile-panic".into(), format!("compiler panicked: {p}"))),
    };
    let bc = c.program.to_bytecode(c.entry);
    let mut facts = Facts { runs: 0, inconclusive: 0, cross_worker: false };
    const SLOW: [u8; 8] = [0, 0, 1, 2, 4, 8, 16, 32];
    let mut cfgs: Vec<(usize, usize, Vec<u8>, u8)> = vec![(1, 1000, vec![], 0), (2, 1, vec![], 0), (3, 7, vec![], 8)];
    cfgs.extend(case.cfgs.iter().map(|(w, qi, sch)| (*w as usize, QUANTA[*qi as usize % QUANTA.len()], sch.clone(), SLOW[(*qi as usize / 6) % 8])));
    for (workers, q, schedule, env_slow) in cfgs {
        let shared = Arc::new(Mutex::new(Shared::default()));
        let poke = Arc::new(AtomicUsize::new(0));
        let backend = MockBackend::new(shared.clone(), 0, 0, poke.clone());
        sim::POKE.with(|p| *p.borrow_mut() = Some(poke));
        let run = sim::run_program(&bc, SimCfg { workers, quanta: vec![q], schedule: schedule.clone(), max_moves: 1_500_000, env_slow }, reg, Some(Box::new(backend)), |_, _| Ok(()));
        facts.runs += 1;
        facts.cross_worker |= workers >= 2;
        let desc = format!("workers={workers} quantum={q} env_slow={env_slow} schedule={}", hex(&schedule));
        let tail = |run: &sim::ProgRun| format!("--- scenario ---\n{}\n--- trace tail ---\n{}", &src[PRELUDE.len()..], run.trace.iter().rev().take(40).rev().cloned().collect::<Vec<_>>().join("\n"));
        match &run.end {
            SimEnd::Done => {}
            SimEnd::Budget => {
                facts.inconclusive += 1;
                continue;
            }
            SimEnd::Panic(m) => return Err(("worker-or-environment-panic".into(), format!("{desc}: {m}\n{}", tail(&run)))),
            SimEnd::StepErr(m) => return Err(("step-returned-error".into(), format!("{desc}: {m}\n{}", tail(&run)))),
            other => return Err((format!("run:{}", end_kind(other)), format!("{desc}: run ended in {other:?}\n{}", tail(&run)))),
        }
        // role -> pid from the backend log
        let log = shared.lock().unwrap().log.clone();
        let mut roles: BTreeMap<String, usize> = BTreeMap::new();
        for e in &log {
            if let crate::mockfs::LogEntry::Stat { pid, path } = e
                && path.len() == 2
            {
                roles.insert(format!("{}{}", path[0] as char, path[1]), *pid);
            }
        }
        let result_of = |role: &str| roles.get(role).and_then(|p| run.processes.get(p)).cloned().flatten();
        // the failing process itself
        let ferr = match result_of("f0") {
            Some(Err(e)) => format!("{e:?}"),
            other => return Err(("failing-process-did-not-fail".into(), format!("{desc}: f0 ended with {other:?}\n{}", tail(&run)))),
        };
        if !ferr.contains(s.fail.expect()) {
            return Err(("unexpected-error".into(), format!("{desc}: f0 failed with {ferr}, expected an error mentioning {:?}\n{}", s.fail.expect(), tail(&run))));
        }
        // every (transitive) awaiter fails with the same error
        let mut awaiter_roles: Vec<String> = Vec::new();
        for (i, (_, depth)) in s.awaiters.iter().enumerate() {
            for d in 0..=*depth as usize {
                awaiter_roles.push(format!("a{}", i * 4 + d));
            }
        }
        if s.talking_awaiter.is_some() {
            awaiter_roles.push("t0".into());
        }
        if s.late_awaiter.is_some() {
            awaiter_roles.push("l0".into());
        }
        for role in &awaiter_roles {
            match result_of(role) {
                Some(Err(e)) if format!("{e:?}") == ferr => {}
                Some(Err(e)) => {
                    return Err(("awaiter-got-different-error".into(), format!("{desc}: awaiter {role} failed with {e:?}, the awaited process failed with {ferr}\n{}", tail(&run))));
                }
                Some(Ok(v)) => {
                    return Err(("awaiter-did-not-fail".into(), format!("{desc}: awaiter {role} finished with {v} although the process it awaits failed with {ferr}\n{}", tail(&run))));
                }
                None => {
                    return Err(("awaiter-hangs".into(), format!("{desc}: awaiter {role} is still blocked although the process it awaits has failed\n{}", tail(&run))));
                }
            }
        }
        if let Some((f2, _)) = &s.second {
            let e2 = match result_of("f1") {
                Some(Err(e)) => format!("{e:?}"),
                other => return Err(("failing-process-did-not-fail".into(), format!("{desc}: f1 ended with {other:?}\n{}", tail(&run)))),
            };
            if !e2.contains(f2.expect()) {
                return Err(("unexpected-error".into(), format!("{desc}: f1 failed with {e2}\n{}", tail(&run))));
            }
            match result_of("s0") {
                Some(Err(e)) if format!("{e:?}") == e2 => {}
                other => return Err(("awaiter-got-different-error".into(), format!("{desc}: s0 (awaits f1) ended with {other:?}, f1 failed with {e2}\n{}", tail(&run)))),
            }
        }
        // bystanders and the entry are untouched
        for (i, wk) in s.bystanders.iter().enumerate() {
            match result_of(&format!("b{i}")) {
                Some(Ok(v)) if v.to_string() == sum_to(*wk) => {}
                other => return Err(("bystander-affected".into(), format!("{desc}: bystander b{i} should finish with {} but ended with {other:?}\n{}", sum_to(*wk), tail(&run)))),
            }
        }
        if s.talking_awaiter.is_some() {
            match result_of("c0") {
                Some(Ok(v)) if v.to_string() == "Told" => {}
                other => return Err(("bystander-affected".into(), format!("{desc}: the process that only sent a message to an awaiter ended with {other:?}\n{}", tail(&run)))),
            }
        }
        if s.second_source.is_some() {
            // either the other source won (normal result) or the failure did — and then the
            // process is over: nothing it would have done after its select may happen
            if let Some(Err(e)) = result_of("z0")
                && roles.contains_key("z1")
            {
                return Err((
                    "failed-awaiter-kept-running".into(),
                    format!("{desc}: z0 failed with {e:?} while awaiting f0, yet it went on and performed the effect that follows its select\n{}", tail(&run)),
                ));
            }
            if let Some(Err(e)) = result_of("z0")
                && format!("{e:?}") != ferr
            {
                return Err(("awaiter-got-different-error".into(), format!("{desc}: z0 failed with {e:?}, the awaited process failed with {ferr}\n{}", tail(&run))));
            }
        }
        if let Some((k, _, wk)) = s.gave_up {
            let f2 = &GAVE_UP_FAILS[k as usize % GAVE_UP_FAILS.len()];
            match result_of("f2") {
                Some(Err(e)) if format!("{e:?}").contains(f2.expect()) => {}
                other => return Err(("failing-process-did-not-fail".into(), format!("{desc}: f2 ended with {other:?}\n{}", tail(&run)))),
            }
            match result_of("g0") {
                Some(Ok(v)) if v.to_string() == sum_to(wk) => {}
                other => {
                    return Err((
                        "former-awaiter-affected".into(),
                        format!("{desc}: g0 stopped awaiting f2 when its timeout fired, before f2 failed, and should finish with {} but ended with {other:?}\n{}", sum_to(wk), tail(&run)),
                    ));
                }
            }
        }
        let mut want: Vec<String> = s.bystanders.iter().map(|w| sum_to(*w)).collect();
        if s.talking_awaiter.is_some() {
            want.push("Told".into());
        }
        if let Some((_, _, wk)) = s.gave_up {
            want.push(sum_to(wk));
        }
        let want = format!("[{}]", want.join(", "));
        match &run.result {
            Some(Ok(v)) if v.to_string() == want => {}
            other => return Err(("entry-affected".into(), format!("{desc}: the entry process awaits only bystanders and should yield {want}, got {other:?}\n{}", tail(&run)))),
        }
    }
    Ok(facts)
}

/// Second stream: any accepted program must not panic a worker or make a step return Err.
pub fn panic_stream(src: &str, reg: &qrun::Registry, workers: usize, q: usize) -> Result<bool, (String, String)> {
    let c = match catch(|| qrun::compile(src, &qrun::Modules::new(), reg)) {
        Ok(Ok(c)) => c,
        _ => return Ok(false),
    };
    let Some(entry) = c.entry else { return Ok(false) };
    let bc = c.program.to_bytecode(Some(entry));
    let shared = Arc::new(Mutex::new(Shared::default()));
    let poke = Arc::new(AtomicUsize::new(0));
    let backend = MockBackend::new(shared, 0, 0, poke.clone());
    sim::POKE.with(|p| *p.borrow_mut() = Some(poke));
    let run = sim::run_program(&bc, SimCfg { workers, quanta: vec![q], schedule: vec![], max_moves: 60_000, env_slow: 0 }, reg, Some(Box::new(backend)), |_, _| Ok(()));
    match &run.end {
        SimEnd::Panic(m) => {
            let norm: String = m.chars().map(|c| if c.is_ascii_digit() { '#' } else { c }).collect();
            let mut norm = norm;
            while norm.contains("##") {
                norm = norm.replace("##", "#");
            }
            Err((format!("panic:{}", truncate(&norm, 100)), format!("workers={workers} quantum={q}: {m}\n--- program ---\n{}", truncate(src, 1500))))
        }
        SimEnd::StepErr(m) => Err(("step-returned-error".into(), format!("workers={workers} quantum={q}: {m}\n--- program ---\n{}", truncate(src, 1500)))),
        _ => Ok(true),
    }
}

pub fn run(ctx: &Ctx) -> i32 {
    let started = Instant::now();
    let stats = Stats::new();
    let known = KnownFindings::load();
    let cases_per_shard: u32 = ctx.tier.pick(120, 4_000);
    let n_cfgs = ctx.tier.pick(7, 20);
    let corpus: Arc<Vec<String>> = Arc::new(corpus::all_sources());

    let violations = run_sharded(ctx.shards, |shard| {
        let reg = qrun::registry_io();
        let mut out = Vec::new();
        // stream 2: harvested programs under two configurations
        for (i, src) in corpus.iter().enumerate() {
            if i % ctx.shards != shard || src.len() > 3000 {
                continue;
            }
            for (workers, q) in [(2usize, 1000usize), (3, 3)] {
                match panic_stream(src, &reg, workers, q) {
                    Ok(true) => {
                        stats.eval();
                        stats.class("panic-stream:program-run");
                    }
                    Ok(false) => {}
                    Err((sig, msg)) => {
                        if !ctx.strict && known.is_known(ctx.id, &sig).is_some() {
                            stats.known_hit(&sig);
                            continue;
                        }
                        out.push(Violation { signature: sig, summary: msg, replay: json!({"kind": "c15", "stream": "panic", "source": src, "workers": workers, "quantum": q}) });
                    }
                }
            }
        }
        let strat = strategy(n_cfgs);
        let seed = derive_seed(ctx.seed, ctx.id, shard, 0);
        let res = pt_search(seed, cases_per_shard, &strat, &stats, |case| match check(case, &reg) {
            Ok(f) => {
                stats.evals(f.runs as u64);
                for _ in 0..f.inconclusive {
                    stats.inconclusive();
                }
                stats.class(&format!("failure:{:?}", case.scn.fail));
                if case.scn.late_awaiter.is_some() {
                    stats.class("await-issued-after-the-failure");
                }
                if case.scn.awaiters.iter().any(|(w, _)| *w < 5) {
                    stats.class("await-issued-before-the-failure");
                }
                if case.scn.awaiters.iter().any(|(_, d)| *d > 0) {
                    stats.class("chain-of-awaiters");
                }
                if case.scn.second.is_some() {
                    stats.class("two-independent-failures");
                }
                if case.scn.second_source.is_some() {
                    stats.class("awaiter-with-a-second-source-that-fires-later");
                }
                if case.scn.gave_up.is_some() {
                    stats.class("awaiter-gave-up-before-the-failure");
                }
                if f.cross_worker && case.scn.talking_awaiter.is_some() {
                    let src = render(&case.scn);
                    stats.nontrivial(&src);
                    stats.sample(|| json!({"scenario": truncate(&src[PRELUDE.len()..], 600), "runs": f.runs}));
                }
                Ok(())
            }
            Err((sig, msg)) => {
                if !ctx.strict && known.is_known(ctx.id, &sig).is_some() {
                    stats.known_hit(&sig);
                    return Ok(());
                }
                Err(format!("{sig}\u{1}{msg}"))
            }
        });
        if let Search::Failed { minimal, message } = res {
            let (sig, msg) = message.split_once('\u{1}').map(|(a, b)| (a.to_string(), b.to_string())).unwrap_or((message.clone(), message));
            out.push(Violation { signature: sig, summary: truncate(&msg, 7000), replay: json!({"kind": "c15", "stream": "scenario", "scenario": format!("{:?}", minimal.scn), "source": render(&minimal.scn), "case": case_to_json(&minimal)}) });
        }
        out
    });

    finish(Report {
        ctx,
        stats: &stats,
        violations,
        rule: "stream 1: a failing process (division by zero, modulo by zero, sqrt of a negative, out-of-range slice, effect error from the backend, spawn / send / nested select inside a receive filter) with 1-3 awaiters that await it after generated work (before, during or after the failure), chains of awaiters up to depth 3, an awaiter that first receives a message from a bystander, a late awaiter spawned by the entry, bystanders awaited by the entry, optionally a second independent failure; 10 configurations each; judged at quiescence: every transitive awaiter has exactly the failed process's error, every other process and the entry have their normal results, no step panics or returns Err. stream 2: every harvested program that compiles runs under 2 configurations looking only for panics / step errors; evaluations = simulator runs; non-trivial = >= 2 workers and a bystander that talks to an awaiter; distinct by scenario text".into(),
        assumptions: vec![
            "processes that race the failing one against another source and move on are outside the statement's two classes and are not generated".into(),
            "effect errors come from the mock backend (an open of a path starting with 'fail')".into(),
        ],
        required_classes: vec!["failure:DivZero", "failure:SliceRange", "failure:EffectError", "failure:SpawnInFilter", "failure:SendInFilter", "failure:SelectInFilter", "await-issued-after-the-failure", "await-issued-before-the-failure", "chain-of-awaiters", "two-independent-failures", "awaiter-gave-up-before-the-failure", "awaiter-with-a-second-source-that-fires-later", "panic-stream:program-run"],
        started,
        technique: "proptest-generated failure scenarios x schedules in the deterministic simulator + harvested programs as a panic stream; oracle = per-role final states (error identity for awaiters, baseline results for bystanders) and no panic / step error",
    })
}

pub fn replay(payload: &serde_json::Value) -> Result<(), String> {
    let reg = qrun::registry_io();
    let source = payload["source"].as_str().ok_or("missing source")?;
    if payload["stream"] == "panic" {
        let w = payload["workers"].as_u64().unwrap_or(2) as usize;
        let q = payload["quantum"].as_u64().unwrap_or(1000) as usize;
        return match panic_stream(source, &reg, w, q) {
            Ok(_) => Ok(()),
            Err((s, m)) => Err(format!("{s}: {}", truncate(&m, 3000))),
        };
    }
    let case = case_from_json(&payload["case"]).ok_or("missing or malformed case")?;
    match check(&case, &reg) {
        Ok(_) => Ok(()),
        Err((s, m)) => Err(format!("{s}: {}", truncate(&m, 3000))),
    }
}

const FAIL_NAMES: [(&str, Fail); 8] = [
    ("DivZero", Fail::DivZero),
    ("SliceRange", Fail::SliceRange),
    ("ModZero", Fail::ModZero),
    ("NegativeSqrt", Fail::NegativeSqrt),
    ("EffectError", Fail::EffectError),
    ("SpawnInFilter", Fail::SpawnInFilter),
    ("SendInFilter", Fail::SendInFilter),
    ("SelectInFilter", Fail::SelectInFilter),
];

fn fail_name(f: &Fail) -> &'static str {
    FAIL_NAMES.iter().find(|(_, x)| x == f).map(|(n, _)| *n).unwrap_or("DivZero")
}

fn fail_from(n: &str) -> Option<Fail> {
    FAIL_NAMES.iter().find(|(x, _)| *x == n).map(|(_, f)| f.clone())
}

pub fn case_to_json(c: &Case) -> serde_json::Value {
    let s = &c.scn;
    json!({
        "fail": fail_name(&s.fail),
        "fail_work": s.fail_work,
        "awaiters": s.awaiters.iter().map(|(w, d)| json!([w, d])).collect::<Vec<_>>(),
        "talking_awaiter": s.talking_awaiter,
        "bystanders": s.bystanders,
        "late_awaiter": s.late_awaiter,
        "second": s.second.as_ref().map(|(f, w)| json!([fail_name(f), w])),
        "gave_up": s.gave_up.map(|(k, t, w)| json!([k, t, w])),
        "second_source": s.second_source.map(|(m, t)| json!([m, t])),
        "cfgs": c.cfgs.iter().map(|(w, q, sch)| json!([w, q, hex(sch)])).collect::<Vec<_>>(),
    })
}

pub fn case_from_json(j: &serde_json::Value) -> Option<Case> {
    let u16of = |v: &serde_json::Value| v.as_u64().map(|x| x as u16);
    let scn = Scn {
        fail: fail_from(j["fail"].as_str()?)?,
        fail_work: u16of(&j["fail_work"])?,
        awaiters: j["awaiters"].as_array()?.iter().map(|a| Some((u16of(&a[0])?, a[1].as_u64()? as u8))).collect::<Option<Vec<_>>>()?,
        talking_awaiter: u16of(&j["talking_awaiter"]),
        bystanders: j["bystanders"].as_array()?.iter().map(u16of).collect::<Option<Vec<_>>>()?,
        late_awaiter: u16of(&j["late_awaiter"]),
        second: j["second"].as_array().and_then(|a| Some((fail_from(a[0].as_str()?)?, u16of(&a[1])?))),
        gave_up: j["gave_up"].as_array().and_then(|a| Some((a[0].as_u64()? as u8, a[1].as_u64()? as u8, u16of(&a[2])?))),
        second_source: j["second_source"].as_array().and_then(|a| Some((a[0].as_bool()?, a[1].as_u64()? as u8))),
    };
    let cfgs = j["cfgs"].as_array()?.iter().map(|c| Some((c[0].as_u64()? as u8, c[1].as_u64()? as u8, unhex(c[2].as_str()?)))).collect::<Option<Vec<_>>>()?;
    Some(Case { scn, cfgs })
}
