use crate::fw::Ctx;

pub mod c01;
pub mod c02;
pub mod c03;
pub mod c04;
pub mod c05;
pub mod c06;
pub mod c07;
pub mod c08;
pub mod c09;
pub mod c10;
pub mod c11;
pub mod c12;
pub mod c13;
pub mod c14;
pub mod c15;
pub mod c16;
pub mod c17;
pub mod c18;
pub mod c19;
pub mod c20;

pub struct Prop {
    pub id: &'static str,
    pub run: fn(&Ctx) -> i32,
    pub replay: fn(&serde_json::Value) -> Result<(), String>,
}

pub const PROPS: &[Prop] = &[
    Prop { id: "C01", run: c01::run, replay: c01::replay },
    Prop { id: "C02", run: c02::run, replay: c02::replay },
    Prop { id: "C03", run: c03::run, replay: c03::replay },
    Prop { id: "C04", run: c04::run, replay: c04::replay },
    Prop { id: "C05", run: c05::run, replay: c05::replay },
    Prop { id: "C06", run: c06::run, replay: c06::replay },
    Prop { id: "C07", run: c07::run, replay: c07::replay },
    Prop { id: "C08", run: c08::run, replay: c08::replay },
    Prop { id: "C09", run: c09::run, replay: c09::replay },
    Prop { id: "C10", run: c10::run, replay: c10::replay },
    Prop { id: "C11", run: c11::run, replay: c11::replay },
    Prop { id: "C12", run: c12::run, replay: c12::replay },
    Prop { id: "C13", run: c13::run, replay: c13::replay },
    Prop { id: "C14", run: c14::run, replay: c14::replay },
    Prop { id: "C15", run: c15::run, replay: c15::replay },
    Prop { id: "C16", run: c16::run, replay: c16::replay },
    Prop { id: "C17", run: c17::run, replay: c17::replay },
    Prop { id: "C18", run: c18::run, replay: c18::replay },
    Prop { id: "C19", run: c19::run, replay: c19::replay },
    Prop { id: "C20", run: c20::run, replay: c20::replay },
];

pub fn find(id: &str) -> Option<&'static Prop> {
    PROPS.iter().find(|p| p.id == id)
}

pub fn explore(args: &[String]) {
    match args.first().map(|s| s.as_str()) {
        Some("c18-ticks") => {
            let reg = crate::qrun::registry();
            for (ti, (pre, open, close, suf)) in c18::NESTS.iter().enumerate() {
                let mut line = format!("{ti:2} {pre:?}{open:?}: ");
                for d in [2usize, 4, 8, 12, 16, 20] {
                    let inner = args.get(1).map(|s| s.as_str()).unwrap_or("1");
                    let closes = if args.get(2).is_some() { 0 } else { d };
                    let s = format!("{pre}{}{inner}{}{suf}", open.repeat(d), close.repeat(closes));
                    let t = std::time::Instant::now();
                    let r = c18::check(&s, &reg);
                    let el = t.elapsed().as_millis();
                    match r {
                        Ok((f, ticks)) => line.push_str(&format!("d{d}:{ticks}t/{el}ms/{:?} ", f)),
                        Err((sig, _)) => line.push_str(&format!("d{d}:ERR({sig})/{el}ms ")),
                    }
                }
                println!("{line}");
            }
            let corpus = crate::corpus::all_sources();
            let mut worst = (0f64, 0usize, 0u64);
            for s in &corpus {
                if let Ok((_, t)) = c18::check(s, &reg) {
                    let r = t as f64 / (s.len().max(1) as f64);
                    if r > worst.0 {
                        worst = (r, s.len(), t);
                    }
                }
            }
            println!("corpus {} programs; worst ticks/byte = {:.2} (len {}, ticks {})", corpus.len(), worst.0, worst.1, worst.2);
        }
        Some("dump-corpus") => {
            // qv explore dump-corpus <dir> — one file per harvested program (fuzzer seeds)
            let dir = &args[1];
            std::fs::create_dir_all(dir).expect("mkdir");
            let mut n = 0;
            for (i, s) in crate::corpus::all_sources().iter().enumerate() {
                if s.len() <= 4096 && c18::excluded(s).is_none() {
                    std::fs::write(format!("{dir}/seed-{i:04}.qv"), s).expect("write");
                    n += 1;
                }
            }
            println!("{n} seeds written to {dir}");
        }
        Some("eval") => {
            // qv explore eval <file> [quantum] — programs separated by a line "===="
            let src = std::fs::read_to_string(&args[1]).expect("read");
            let quantum: usize = args.get(2).and_then(|s| s.parse().ok()).unwrap_or(1000);
            let reg = crate::qrun::registry();
            let mods = crate::qrun::Modules::new();
            for prog in src.split("\n====\n") {
                let c = match crate::qrun::compile(prog, &mods, &reg) {
                    Ok(c) => c,
                    Err(e) => {
                        println!("{}\n  => COMPILE FAIL: {e:?}\n", prog.trim());
                        continue;
                    }
                };
                let Some(entry) = c.entry else { println!("{}\n  => no code\n", prog.trim()); continue };
                let bc = c.program.to_bytecode(Some(entry));
                let run = crate::qrun::run_sync(&bc, &reg, quantum, 2_000_000_000, true);
                let t = crate::hval::Tables { tuples: &bc.tuples, constants: &bc.constants };
                let shown = match &run.end {
                    crate::qrun::RunEnd::Value(v) => crate::hval::from_executor(v, &run.executor, &t).full(),
                    other => format!("{other:?}"),
                };
                let st = &run.executor.stats;
                println!("{}\n  => {shown} : {}\n     peaks frames={} locals={} stack={} heap_slots={} slices={}\n", prog.trim(),
                    quiver_core::format::format_type(&c.program, &c.program.get_types()[c.result_type]),
                    st.peak_frame_count, st.peak_locals_size, st.peak_stack_size, run.executor.heap_stats().slots, run.slices);
            }
        }
        Some("c09") => c09::explore(&args[1]),
        Some("bc") => {
            // qv explore bc <file>: dump functions, types and tuples of the compiled program
            let src = std::fs::read_to_string(&args[1]).expect("read");
            let reg = crate::qrun::registry();
            match crate::qrun::compile(&src, &crate::qrun::Modules::new(), &reg) {
                Ok(c) => {
                    for (i, f) in c.program.get_functions().iter().enumerate() {
                        println!("fn#{i} type={} captures={}", f.type_id, f.captures);
                        for (k, ins) in f.instructions.iter().enumerate() {
                            println!("    {k:3} {ins:?}");
                        }
                    }
                    for (i, t) in c.program.get_types().iter().enumerate() {
                        println!("type#{i} {t:?}  = {}", quiver_core::format::format_type(&c.program, t));
                    }
                    for (i, t) in c.program.get_tuples().iter().enumerate() {
                        println!("tuple#{i} {t:?}");
                    }
                }
                Err(e) => println!("COMPILE FAIL {e:?}"),
            }
        }
        Some("refcorpus") => c02::explore_corpus(args.get(1).is_some()),
        Some("c02gen") => {
            // qv explore c02gen <n>: print generated programs with verdicts
            let n: usize = args.get(1).and_then(|s| s.parse().ok()).unwrap_or(5);
            let reg = crate::qrun::registry();
            let mut shown = 0;
            let want = args.get(2).cloned().unwrap_or_default();
            for seed in 0..100000u64 {
                let bytes: Vec<u8> = (0..300).map(|i| (crate::fw::hash64(&(seed, i as u64)) & 0xff) as u8).collect();
                let (src, _) = c02::gen_program(&bytes);
                let v = c02::compare(&src, &reg);
                let text = format!("{v:?}");
                if want.is_empty() || text.contains(&want) {
                    println!("---- {text}\n{src}\n");
                    shown += 1;
                    if shown >= n {
                        break;
                    }
                }
            }
        }
        Some("c02cmp") => {
            // qv explore c02cmp <file>: reference evaluator vs VM on programs separated by ====
            let src = std::fs::read_to_string(&args[1]).expect("read");
            let reg = crate::qrun::registry();
            for prog in src.split("\n====\n") {
                println!("{}\n  => {:?}\n", prog.trim(), c02::compare(prog, &reg));
            }
        }
        Some("c02min") => {
            // qv explore c02min <replay.json | file.qv>
            let text = std::fs::read_to_string(&args[1]).expect("read");
            let src = match serde_json::from_str::<serde_json::Value>(&text) {
                Ok(j) => j["replay"]["source"].as_str().unwrap_or("").to_string(),
                Err(_) => text,
            };
            let reg = crate::qrun::registry();
            let m = c02::minimize(&src, &reg);
            println!("{m}\n  => {:?}", c02::compare(&m, &reg));
        }
        Some("sim") => {
            // qv explore sim <file> [workers] [quantum]
            let src = std::fs::read_to_string(&args[1]).expect("read");
            let workers: usize = args.get(2).and_then(|s| s.parse().ok()).unwrap_or(2);
            let quantum: usize = args.get(3).and_then(|s| s.parse().ok()).unwrap_or(1000);
            let reg = crate::qrun::registry();
            for prog in src.split("\n====\n") {
                let c = match crate::qrun::compile(prog, &crate::qrun::Modules::new(), &reg) {
                    Ok(c) => c,
                    Err(e) => {
                        println!("COMPILE FAIL: {e:?}\n{prog}\n");
                        continue;
                    }
                };
                let bc = c.program.to_bytecode(c.entry);
                let cfg = crate::sim::SimCfg { workers, quanta: vec![quantum], schedule: vec![], max_moves: 200_000, env_slow: 0 };
                let r = crate::sim::run_program(&bc, cfg, &reg, None, |_, _| Ok(()));
                println!("{}\n  => end={:?} result={} moves={} clock={}", prog.trim(), r.end, r.result.as_ref().map(|x| match x { Ok(v) => v.to_string(), Err(e) => format!("ERR {e:?}") }).unwrap_or("<none>".into()), r.moves, r.clock);
                for (pid, pr) in &r.processes {
                    println!("     pid {pid}: {}", pr.as_ref().map(|x| match x { Ok(v) => v.to_string(), Err(e) => format!("ERR {e:?}") }).unwrap_or("<running>".into()));
                }
                println!();
            }
        }
        Some("simio") => {
            let src = std::fs::read_to_string(&args[1]).expect("read");
            let workers: usize = args.get(2).and_then(|s| s.parse().ok()).unwrap_or(2);
            let reg = crate::qrun::registry_io();
            for prog in src.split("\n====\n") {
                let c = match crate::qrun::compile(prog, &crate::qrun::Modules::new(), &reg) {
                    Ok(c) => c,
                    Err(e) => {
                        println!("COMPILE FAIL: {e:?}\n{prog}\n");
                        continue;
                    }
                };
                let bc = c.program.to_bytecode(c.entry);
                let shared = std::sync::Arc::new(std::sync::Mutex::new(crate::mockfs::Shared::default()));
                let poke = std::sync::Arc::new(std::sync::atomic::AtomicUsize::new(0));
                let backend = crate::mockfs::MockBackend::new(shared.clone(), 2, 3, poke.clone());
                crate::sim::POKE.with(|p| *p.borrow_mut() = Some(poke));
                let cfg = crate::sim::SimCfg { workers, quanta: vec![1000], schedule: vec![], max_moves: 200_000, env_slow: 0 };
                let r = crate::sim::run_program(&bc, cfg, &reg, Some(Box::new(backend)), |_, _| Ok(()));
                println!("{}\n  => end={:?} result={} moves={}", prog.trim(), r.end, r.result.as_ref().map(|x| match x { Ok(v) => v.to_string(), Err(e) => format!("ERR {e:?}") }).unwrap_or("<none>".into()), r.moves);
                for (pid, pr) in &r.processes {
                    println!("     pid {pid}: {}", pr.as_ref().map(|x| match x { Ok(v) => v.to_string(), Err(e) => format!("ERR {e:?}") }).unwrap_or("<running>".into()));
                }
                for l in &shared.lock().unwrap().log {
                    println!("     log: {l:?}");
                }
                println!();
            }
        }
        Some("corpus") => {
            let sessions = crate::corpus::harvest_tests();
            let with_expect = sessions.iter().flat_map(|s| s.steps.iter()).filter(|s| s.expect.is_some()).count();
            println!("sessions={} steps={} with_expect={} docs={} all={}", sessions.len(), sessions.iter().map(|s| s.steps.len()).sum::<usize>(), with_expect, crate::corpus::harvest_docs().len(), crate::corpus::all_sources().len());
        }
        _ => eprintln!("unknown explore target"),
    }
}
