//! C06 — binary heap accounting is exact: no leak, no premature free, no aliasing damage.

use crate::fw::*;
use crate::gproc::{self, GProg, Part};
use crate::qrun;
use crate::sim::{self, Move, Sim, SimCfg, SimEnd};
use crate::props::c03::{QUANTA, end_kind, summarize};
use proptest::prelude::*;
use serde_json::json;
use std::collections::{BTreeMap, HashSet};
use std::time::Instant;

#[derive(Clone, Debug)]
pub struct Case {
    pub prog: GProg,
    pub cfgs: Vec<(u8, u8, Vec<u8>)>,
}

pub fn strategy(n_cfgs: usize) -> impl Strategy<Value = Case> {
    // quantum index biased towards 1-instruction slices
    let qi = prop_oneof![3 => Just(0u8), 1 => 0u8..6];
    let cfg = (1u8..=4, qi, prop::collection::vec(any::<u8>(), 0..200));
    (gproc::heap_prog(), prop::collection::vec(cfg, n_cfgs)).prop_map(|(prog, cfgs)| Case { prog, cfgs })
}

#[derive(Default)]
pub struct HeapFacts {
    pub reclaimed_and_reused: bool,
    pub max_slots: usize,
    pub checks: u64,
}

/// Per-worker shadow of reachable slot contents.
pub type Shadow = Vec<BTreeMap<usize, Vec<u8>>>;

/// The invariant checked after every worker step.
pub fn heap_invariant(s: &Sim, i: usize, shadow: &mut Shadow, facts: &mut HeapFacts) -> Result<(), String> {
    let ex = s.workers[i].verif_executor();
    facts.checks += 1;
    if let Err(e) = ex.check_refcounts() {
        return Err(format!("worker {i}: refcount invariant: {e}"));
    }
    let view = ex.verif_heap_view();
    let reachable: HashSet<usize> = ex.reachable_heap_indices();
    facts.max_slots = facts.max_slots.max(view.refcounts.len());
    let mut seen_free = HashSet::new();
    for f in &view.free {
        if !seen_free.insert(*f) {
            return Err(format!("worker {i}: slot {f} is in the free list twice"));
        }
        if !view.freed.get(*f).copied().unwrap_or(false) {
            return Err(format!("worker {i}: slot {f} is in the free list but not marked freed"));
        }
    }
    let pending: HashSet<usize> = view.pending_free.iter().copied().collect();
    for (slot, rc) in view.refcounts.iter().enumerate() {
        let freed = view.freed[slot];
        if reachable.contains(&slot) && freed {
            return Err(format!("worker {i}: live value refers to reclaimed slot {slot}"));
        }
        if *rc == 0 && !freed && !pending.contains(&slot) {
            return Err(format!("worker {i}: slot {slot} has refcount 0 but is neither freed nor queued for reclamation (it floats for ever)"));
        }
        if freed && *rc != 0 {
            return Err(format!("worker {i}: freed slot {slot} has refcount {rc}"));
        }
    }
    // generation-aware shadow: a slot that was reachable at the previous observation, is reachable
    // now and was not reallocated in between (hook: per-slot allocation generation) keeps its bytes
    let sh = &mut shadow[i];
    let mut next = BTreeMap::new();
    for slot in &reachable {
        let mut bytes = view.bytes.get(*slot).cloned().unwrap_or_default();
        // the generation is stored in front of the bytes (8 bytes) so the shadow's type stays simple
        let generation = view.generations.get(*slot).copied().unwrap_or(0);
        let mut tagged = generation.to_le_bytes().to_vec();
        tagged.append(&mut bytes);
        let bytes = tagged;
        if let Some(prev) = sh.get(slot) {
            if prev[..8] != bytes[..8] {
                // reclaimed and reused between the two observations: a different binary
                facts.reclaimed_and_reused = true;
            } else if *prev != bytes {
                return Err(format!(
                    "worker {i}: slot {slot} stayed reachable but its bytes changed from 0x{} to 0x{}",
                    hex(&prev[8..prev.len().min(32)]),
                    hex(&bytes[8..bytes.len().min(32)])
                ));
            }
        } else if !sh.is_empty() || !view.free.is_empty() {
            // a slot index that was not reachable before: reuse of a reclaimed slot while others live
            if view.refcounts.len() > reachable.len() {
                facts.reclaimed_and_reused = true;
            }
        }
        next.insert(*slot, bytes);
    }
    *sh = next;
    Ok(())
}

/// Expected result of the parts that can be predicted without running anything (content oracle).
pub fn expected_part(p: &Part) -> Option<String> {
    let mk = |n: u8| {
        let mut v = vec![0xabu8; n as usize];
        v.extend([0xcd, 0xef]);
        format!("0x{}", hex(&v))
    };
    match p {
        Part::SpawnCaps { a, b, arg, nested } => {
            let (a, b) = (mk(*a), mk(*b));
            let inner = match (arg, nested) {
                (None, false) => format!("[{a}, {b}]"),
                (None, true) => format!("[[{a}, 1], P[x: {b}]]"),
                (Some(c), false) => format!("[{a}, {b}, {}]", mk(*c)),
                (Some(c), true) => format!("[[{a}, {}], P[x: {b}]]", mk(*c)),
            };
            Some(format!("[{inner}, {a}, {b}]"))
        }
        Part::AwaitTwiceBin { n, thrice } => {
            let l = *n as usize + 2;
            Some(if *thrice { format!("[{l}, {l}, {l}]") } else { format!("[{l}, {l}]") })
        }
        Part::BinFork { sizes, concat_in_main } => {
            let mut f: Vec<String> = sizes.iter().map(|n| mk(*n)).collect();
            if *concat_in_main && sizes.len() >= 2 {
                let mut v = vec![0xabu8; sizes[0] as usize];
                v.extend([0xcd, 0xef]);
                v.extend(vec![0xabu8; sizes[1] as usize]);
                v.extend([0xcd, 0xef]);
                f.push(format!("0x{}", hex(&v)));
            }
            Some(format!("[{}]", f.join(", ")))
        }
        Part::ClosureNested { a, b, form } => {
            let (a, b) = (mk(*a), mk(*b));
            Some(match form % 4 {
                0 | 3 => format!("[{a}, [{b}]]"),
                1 => format!("[{a}, 7]"),
                _ => format!("[{a}, 8]"),
            })
        }
        Part::TimeoutThenAwait { n, .. } => Some(mk(*n)),
        Part::FilterBin { sizes, pick } => {
            let k = sizes.len();
            let want = sizes[(*pick as usize) % k];
            let first_idx = sizes.iter().position(|s| *s == want).unwrap();
            let rest: Vec<u8> = sizes.iter().enumerate().filter(|(i, _)| *i != first_idx).map(|(_, s)| *s).collect();
            // takeall conses in arrival order, so the list is reversed
            let mut list = "Nil".to_string();
            for s in rest.iter() {
                list = format!("Cons[{}, {list}]", mk(*s));
            }
            Some(format!("[{}, {list}]", mk(want)))
        }
        _ => None,
    }
}

fn stats_final_send(f: &mut Facts) {
    f.final_send = true;
}

pub struct Facts {
    pub final_send: bool,
    pub heap: HeapFacts,
    pub runs: u32,
    pub inconclusive: u32,
    pub discarded: bool,
    pub q1: bool,
}

pub fn check(case: &Case, reg: &qrun::Registry) -> Result<Facts, (String, String)> {
    let r = gproc::render(&case.prog);
    let mut facts = Facts { final_send: false, heap: HeapFacts::default(), runs: 0, inconclusive: 0, discarded: false, q1: false };
    let c = match catch(|| qrun::compile(&r.source, &qrun::Modules::new(), reg)) {
        Ok(Ok(c)) => c,
        Ok(Err(e)) => return Err(("generator-rejected".into(), format!("generated program does not compile: {e:?}\n{}", r.source))),
        Err(p) => return Err(("compile-panic".into(), format!("compiler panicked: {p}"))),
    };
    let bc = c.program.to_bytecode(c.entry);
    let racy = case.prog.parts.iter().any(|p| p.racy());
    let expected: Vec<Option<String>> = case.prog.parts.iter().map(expected_part).collect();
    let mut baseline: Option<(String, Vec<String>)> = None;
    let mut cfgs: Vec<(usize, usize, Vec<u8>)> = vec![(1, 1000, vec![])];
    cfgs.extend(case.cfgs.iter().map(|(w, qi, s)| (*w as usize, QUANTA[*qi as usize % QUANTA.len()], s.clone())));
    for (workers, q, schedule) in cfgs {
        let cfg = SimCfg { workers, quanta: vec![q], schedule: schedule.clone(), max_moves: 600_000, env_slow: 0 };
        let mut shadow: Shadow = vec![BTreeMap::new(); workers];
        let mut hf = HeapFacts::default();
        let run = sim::run_program(&bc, cfg, reg, None, |s, m| match m {
            Move::Worker { i, .. } => heap_invariant(s, *i, &mut shadow, &mut hf),
            _ => Ok(()),
        });
        facts.runs += 1;
        facts.q1 |= q == 1;
        facts.heap.checks += hf.checks;
        facts.heap.max_slots = facts.heap.max_slots.max(hf.max_slots);
        facts.heap.reclaimed_and_reused |= hf.reclaimed_and_reused;
        let desc = format!("workers={workers} quantum={q} schedule={}", hex(&schedule));
        let tail = |run: &sim::ProgRun| format!("--- program ---\n{}\n--- trace tail ---\n{}", r.source, run.trace.join("\n"));
        match &run.end {
            SimEnd::Done => {}
            SimEnd::Budget => {
                facts.inconclusive += 1;
                continue;
            }
            SimEnd::StepErr(m) if m.starts_with("invariant: ") => {
                let kind = if m.contains("refcount invariant") {
                    "refcount"
                } else if m.contains("floats for ever") {
                    "floating-slot"
                } else if m.contains("bytes changed") {
                    "bytes-changed"
                } else if m.contains("reclaimed slot") {
                    "use-after-free"
                } else {
                    "free-list"
                };
                return Err((format!("heap:{kind}"), format!("{desc}: {m}\n{}", tail(&run))));
            }
            SimEnd::Panic(m) => {
                let kind = if m.contains("refcount invariant") || m.contains("underflow") || m.contains("use-after-free") { "heap:debug-assertion" } else { "panic" };
                return Err((kind.into(), format!("{desc}: {m}\n{}", tail(&run))));
            }
            other => {
                return Err((format!("run:{}", end_kind(other)), format!("{desc}: run ended in {other:?}\n{}", tail(&run))));
            }
        }
        let (res, procs) = summarize(&run);
        if res.starts_with("ERR") || res.contains("BAD") {
            return Err(("result-error".into(), format!("{desc}: entry result {res}\n{}", tail(&run))));
        }
        // content oracle for predictable parts: the entry result is `[r0, r1, …]`
        if let Some(crate::hval::HVal::Tuple(None, fields)) = run.result.as_ref().and_then(|r| r.as_ref().ok()) {
            for (i, e) in expected.iter().enumerate() {
                if let (Some(e), Some((_, got))) = (e, fields.get(i))
                    && got.full() != *e
                {
                    return Err((
                        "wrong-bytes".into(),
                        format!("{desc}: part {i} ({:?}) evaluates to {got}, the bytes it was built from give {e}\n{}", case.prog.parts[i], tail(&run)),
                    ));
                }
            }
        }
        // a program that ends in a send: the sink must hold exactly the bytes that were sent
        if let Some(e) = &r.final_send_expected {
            stats_final_send(&mut facts);
            let got: Vec<String> = run.processes.values().filter_map(|p| p.as_ref().and_then(|x| x.as_ref().ok()).map(|v| v.full())).collect();
            if !got.iter().any(|g| g == e) {
                return Err((
                    "wrong-bytes".into(),
                    format!("{desc}: the binary sent by the program's last instruction should arrive as {e}; the processes finished with {got:?}\n{}", tail(&run)),
                ));
            }
        }
        if !racy {
            match &baseline {
                None => baseline = Some((res, procs)),
                Some((bres, bprocs)) => {
                    if res != *bres || procs != *bprocs {
                        return Err(("result-differs".into(), format!("{desc}: result {res}, baseline {bres}\n{}", tail(&run))));
                    }
                }
            }
        }
    }
    Ok(facts)
}

pub fn run(ctx: &Ctx) -> i32 {
    let started = Instant::now();
    let stats = Stats::new();
    let known = KnownFindings::load();
    let cases_per_shard: u32 = ctx.tier.pick(400, 8_000);
    let n_cfgs = ctx.tier.pick(6, 16);

    let violations = run_sharded(ctx.shards, |shard| {
        let reg = qrun::registry();
        let mut out = Vec::new();
        let strat = strategy(n_cfgs);
        let seed = derive_seed(ctx.seed, ctx.id, shard, 0);
        let res = pt_search(seed, cases_per_shard, &strat, &stats, |case| match check(case, &reg) {
            Ok(f) => {
                if f.discarded {
                    stats.discard();
                    return Ok(());
                }
                stats.evals(f.runs as u64);
                for _ in 0..f.inconclusive {
                    stats.inconclusive();
                }
                stats.class_n("invariant-checks", f.heap.checks);
                if f.q1 {
                    stats.class("quantum-1");
                }
                if f.final_send {
                    stats.class("program-ends-in-a-send-of-a-fresh-binary");
                }
                if f.heap.reclaimed_and_reused {
                    stats.class("slot-reclaimed-and-reused-while-others-live");
                }
                for p in &case.prog.parts {
                    match p {
                        Part::SpawnCaps { arg, .. } => {
                            stats.class("two-heap-binaries-cross-one-spawn");
                            if arg.is_some() {
                                stats.class("captures-plus-heap-argument");
                            }
                        }
                        Part::AwaitTwiceBin { .. } => stats.class("finished-process-awaited-twice-with-heap-result"),
                        Part::TwoFilters { .. } => stats.class("two-filter-sources-with-arrivals"),
                        Part::FilterBin { .. } => stats.class("filter-rejects-then-later-receive"),
                        Part::MailboxLeftover { .. } => stats.class("binaries-left-in-mailbox"),
                        Part::ClosureNested { .. } => stats.class("binary-nested-in-captured-tuple-or-closure-crosses-process"),
                        Part::PrioFilter { .. } => stats.class("higher-priority-source-before-a-filtered-receive"),
                        Part::TimeoutThenAwait { .. } => stats.class("await-timed-out-then-awaited-again-while-running"),
                        _ => {}
                    }
                }
                let r = gproc::render(&case.prog);
                if f.heap.reclaimed_and_reused || case.prog.parts.iter().any(|p| matches!(p, Part::SpawnCaps { .. } | Part::BinStream { .. } | Part::FilterBin { .. })) {
                    stats.nontrivial(&r.source);
                    stats.sample(|| json!({"program": truncate(&r.source[gproc::PRELUDE.len()..], 500), "max_slots": f.heap.max_slots, "runs": f.runs}));
                }
                Ok(())
            }
            Err((sig, msg)) => {
                if !ctx.strict && known.is_known(ctx.id, &sig).is_some() {
                    stats.known_hit(&sig);
                    return Ok(());
                }
                Err(format!("{sig}\u{1}{msg}"))
            }
        });
        if let Search::Failed { minimal, message } = res {
            let (sig, msg) = message.split_once('\u{1}').map(|(a, b)| (a.to_string(), b.to_string())).unwrap_or((message.clone(), message));
            let r = gproc::render(&minimal.prog);
            out.push(Violation {
                signature: sig,
                summary: truncate(&msg, 6000),
                replay: json!({"kind": "c06", "source": r.source, "racy": minimal.prog.parts.iter().any(|p| p.racy()),
                    "expected": minimal.prog.parts.iter().map(expected_part).collect::<Vec<_>>(),
                    "cfgs": minimal.cfgs.iter().map(|(w, q, s)| json!({"workers": w, "quantum": QUANTA[*q as usize % QUANTA.len()], "schedule": hex(s)})).collect::<Vec<_>>()}),
            });
        }
        out
    });

    finish(Report {
        ctx,
        stats: &stats,
        violations,
        rule: "binary-heavy process systems (closures capturing two heap binaries spawned with and without a heap argument, heap results awaited twice, filtered receives that skip and later take binaries, two filter sources with arrivals in between, binaries left in a mailbox, binaries built in children and concatenated in the parent, streamed chunks, a select on a running process that times out before the process is awaited again, a final send of a freshly built binary as the program's last instruction) x generated configurations biased to 1-instruction slices; after EVERY worker step: check_refcounts, free-list and freed-flag consistency, no reachable slot freed, no slot at count 0 that is neither freed nor queued, and bytes of every slot that stayed reachable in the same allocation generation unchanged; plus a content oracle (results must equal the bytes they were built from); evaluations = simulator runs; non-trivial = a slot reclaimed and reused while other binaries are live, or binaries crossing a spawn/message boundary; distinct by program text".into(),
        assumptions: vec![
            "invariants are read through hook H3 (verif_heap_view) at slice boundaries, the quiescent point the runtime documents".into(),
            "built with debug assertions, so the runtime's own use-after-free / underflow / completion checks surface as caught panics and are attributed to this property".into(),
            "REPL local compaction is exercised by the C11 check with the same invariant".into(),
        ],
        required_classes: vec!["quantum-1", "two-heap-binaries-cross-one-spawn", "captures-plus-heap-argument", "finished-process-awaited-twice-with-heap-result", "two-filter-sources-with-arrivals", "slot-reclaimed-and-reused-while-others-live", "binaries-left-in-mailbox", "binary-nested-in-captured-tuple-or-closure-crosses-process", "higher-priority-source-before-a-filtered-receive", "await-timed-out-then-awaited-again-while-running", "program-ends-in-a-send-of-a-fresh-binary"],
        started,
        technique: "proptest-generated binary-heavy process systems x schedules in the deterministic simulator; oracle = heap-accounting invariants after every worker step + byte-content model",
    })
}

pub fn replay(payload: &serde_json::Value) -> Result<(), String> {
    let source = payload["source"].as_str().ok_or("missing source")?;
    let reg = qrun::registry();
    let c = qrun::compile(source, &qrun::Modules::new(), &reg).map_err(|e| format!("{e:?}"))?;
    let bc = c.program.to_bytecode(c.entry);
    let expected: Vec<Option<String>> = payload["expected"].as_array().map(|a| a.iter().map(|x| x.as_str().map(|s| s.to_string())).collect()).unwrap_or_default();
    let mut cfgs = vec![(1usize, 1000usize, vec![])];
    for cfg in payload["cfgs"].as_array().cloned().unwrap_or_default() {
        cfgs.push((cfg["workers"].as_u64().unwrap_or(1) as usize, cfg["quantum"].as_u64().unwrap_or(1000) as usize, unhex(cfg["schedule"].as_str().unwrap_or(""))));
    }
    for (workers, q, schedule) in cfgs {
        let mut shadow: Shadow = vec![BTreeMap::new(); workers];
        let mut hf = HeapFacts::default();
        let run = sim::run_program(&bc, SimCfg { workers, quanta: vec![q], schedule, max_moves: 600_000, env_slow: 0 }, &reg, None, |s, m| match m {
            Move::Worker { i, .. } => heap_invariant(s, *i, &mut shadow, &mut hf),
            _ => Ok(()),
        });
        let (res, _) = summarize(&run);
        println!("  workers={workers} quantum={q}: end={:?} result={res}", run.end);
        if std::env::var("QV_TRACE").is_ok() {
            for l in &run.trace {
                println!("    {l}");
            }
        }
        if !matches!(run.end, SimEnd::Done | SimEnd::Budget) {
            return Err(format!("workers={workers} quantum={q}: {:?}", run.end));
        }
        if let Some(crate::hval::HVal::Tuple(None, fields)) = run.result.as_ref().and_then(|r| r.as_ref().ok()) {
            for (i, e) in expected.iter().enumerate() {
                if let (Some(e), Some((_, got))) = (e, fields.get(i))
                    && got.full() != *e
                {
                    return Err(format!("workers={workers} quantum={q}: part {i} evaluates to {got}, expected {e}"));
                }
            }
        }
    }
    Ok(())
}
