//! C02 — compiled execution agrees with the reference semantics (E4).

use crate::corpus;
use crate::fw::*;
use crate::hval::HVal;
use crate::qrun::{self, Modules, Outcome};
use crate::refeval::{self, RefOutcome};

#[derive(Debug, PartialEq)]
pub enum Verdict {
    Agree,
    /// the reference evaluator does not cover the program
    Skipped(String),
    /// (signature, message)
    Differ(String),
}

/// Triggers of recorded compiler defects, in attribution order.
pub const EVENT_ORDER: [&str; 7] = [
    "partial-typed-parameter-with-other-layout",
    "variable-bound-to-nil",
    "nil-scrutinee-reaches-a-later-branch",
    "chain-continues-to-a-value-after-a-failed-match",
    "binder-of-a-failed-match-is-read",
    "tail-call",
    "star-pattern",
];

thread_local! {
    /// events of the last `compare` on this thread
    pub static LAST_EVENTS: std::cell::RefCell<Vec<&'static str>> = const { std::cell::RefCell::new(Vec::new()) };
}

/// Signature of a difference: the first recorded trigger the reference run met, if any.
pub fn signature(vm_type_failure: bool) -> String {
    let ev = LAST_EVENTS.with(|e| e.borrow().clone());
    let base = if vm_type_failure { "vm-type-failure" } else { "result-differs" };
    match EVENT_ORDER.iter().find(|k| ev.contains(k) && (**k != "star-pattern" || vm_type_failure)) {
        Some(k) => format!("{base}:{k}"),
        None => base.to_string(),
    }
}

/// As `signature`, with the program text: a VM type failure inside a generic std function is the
/// hole the C01 property text itself names (a union argument accepted for a non-union parameter
/// of a generic function).
pub fn signature_for(src: &str, vm_type_failure: bool) -> String {
    let s = signature(vm_type_failure);
    if (s == "vm-type-failure" || s == "result-differs") && src.contains('%') {
        return format!("{s}:argument-of-generic-std-function");
    }
    if (s == "vm-type-failure" || s == "result-differs") && src.contains("#<") {
        return format!("{s}:generic-function");
    }
    s
}

/// Programs recorded one by one (exact text) in /verif/witnesses/c02_inputs.json: differences that
/// were confirmed against the reference semantics but not yet reduced to a root cause.
pub fn known_inputs() -> std::collections::HashSet<u64> {
    let mut out = std::collections::HashSet::new();
    if let Ok(text) = std::fs::read_to_string(format!("{VERIF_ROOT}/witnesses/c02_inputs.json"))
        && let Ok(v) = serde_json::from_str::<Vec<serde_json::Value>>(&text)
    {
        for e in v {
            if let Some(s) = e["source"].as_str() {
                out.insert(hash64(s));
            }
        }
    }
    out
}

/// Compare the VM with the reference evaluator on one source.
pub fn compare(src: &str, reg: &qrun::Registry) -> Verdict {
    let r = match catch(|| refeval::run_source_events(src, 400_000)) {
        Ok(Ok((r, ev))) => {
            LAST_EVENTS.with(|e| *e.borrow_mut() = ev);
            r
        }
        Ok(Err(e)) => return Verdict::Skipped(format!("parse: {e}")),
        Err(p) => return Verdict::Skipped(format!("reference evaluator panicked: {p}")),
    };
    let expected: Result<HVal, String> = match r {
        RefOutcome::Val(v) => Ok(v),
        RefOutcome::DomainError(m) => Err(m),
        RefOutcome::Unsupported(m) => return Verdict::Skipped(format!("unsupported: {m}")),
        RefOutcome::Budget => return Verdict::Skipped("budget".into()),
        RefOutcome::Stuck(m) => {
            // by the reference semantics the program is ill-formed; the compiler must reject it
            return match catch(|| qrun::compile(src, &Modules::new(), reg)) {
                Ok(Err(_)) => Verdict::Skipped("rejected by both".into()),
                Ok(Ok(_)) => Verdict::Skipped(format!("stuck in the reference evaluator ({m}) but accepted by the compiler")),
                Err(p) => Verdict::Differ(format!("compiler panicked: {p}")),
            };
        }
    };
    let got = match catch(|| qrun::eval_source(src, &Modules::new(), reg, 1000, 8_000_000)) {
        Ok(o) => o,
        Err(p) => return Verdict::Differ(format!("VM panicked: {p}")),
    };
    match (expected, got) {
        (_, Outcome::Front(e)) => Verdict::Skipped(format!("rejected by the compiler: {e:?}")),
        (_, Outcome::NoCode) => Verdict::Skipped("no code".into()),
        (_, Outcome::Diverged) | (_, Outcome::Blocked) => Verdict::Skipped("VM budget".into()),
        (Ok(e), Outcome::Val(v)) => {
            if e.canon_ids() == v.canon_ids() {
                Verdict::Agree
            } else {
                Verdict::Differ(format!("the reference semantics give {} but the compiled program evaluates to {}", e.full(), v.full()))
            }
        }
        (Err(m), Outcome::Err(_)) => {
            let _ = m;
            Verdict::Agree
        }
        (Ok(e), Outcome::Err(err)) => Verdict::Differ(format!("the reference semantics give {} but the compiled program fails with {err:?}", e.full())),
        (Err(m), Outcome::Val(v)) => Verdict::Differ(format!("the reference semantics give a domain error in {m} but the compiled program evaluates to {}", v.full())),
    }
}

/// `qv explore refcorpus [show]`: validate the reference evaluator against the harvested programs.
pub fn explore_corpus(show: bool) {
    let reg = qrun::registry();
    let corpus = corpus::all_sources();
    let (mut agree, mut differ) = (0, 0);
    let mut skipped: std::collections::BTreeMap<String, usize> = Default::default();
    for src in &corpus {
        match compare(src, &reg) {
            Verdict::Agree => agree += 1,
            Verdict::Skipped(why) => {
                if show && why.starts_with("stuck") {
                    println!("STUCK-BUT-ACCEPTED: {why}\n{}\n", truncate(src.trim(), 400));
                }
                let key = why.split(':').take(2).collect::<Vec<_>>().join(":");
                *skipped.entry(truncate(&key, 60)).or_insert(0) += 1;
            }
            Verdict::Differ(m) => {
                differ += 1;
                if show {
                    println!("DIFFER: {m}\n{}\n", truncate(src.trim(), 600));
                }
            }
        }
    }
    println!("corpus={} agree={agree} differ={differ}", corpus.len());
    for (k, n) in skipped {
        println!("  skipped {n:4}  {k}");
    }
}

// ---------------------------------------------------------------------------------------------
// generator B: nested control flow over integers (blocks, branches, conditions, patterns that
// bind and then fail, sequences with bindings, closures), all Int-typed and never nil where an
// integer is needed

use proptest::prelude::*;

/// Dice-driven program text. Every choice is taken from the byte stream, so the case shrinks by
/// shrinking bytes.
pub struct Dice<'a> {
    bytes: &'a [u8],
    pos: usize,
}

impl<'a> Dice<'a> {
    pub fn new(bytes: &'a [u8]) -> Dice<'a> {
        Dice { bytes, pos: 0 }
    }
    fn next(&mut self) -> u8 {
        let b = self.bytes.get(self.pos).copied().unwrap_or(0);
        self.pos += 1;
        b
    }
    fn below(&mut self, n: usize) -> usize {
        (self.next() as usize * n) >> 8
    }
}

#[derive(Default)]
pub struct GenB {
    n: usize,
    pub features: std::collections::BTreeSet<&'static str>,
}

impl GenB {
    fn fresh(&mut self, p: &str) -> String {
        self.n += 1;
        format!("{p}{}", self.n)
    }

    fn small(&mut self, d: &mut Dice) -> i64 {
        [0, 1, 2, 3, 5, -1, 7, 10][d.below(8)]
    }

    /// An Int-typed, never-nil expression (a chain or a block). `vars` are Int variables in scope.
    pub fn int(&mut self, d: &mut Dice, depth: u32, vars: &[String]) -> String {
        let leaf = depth == 0;
        // shapes 18-21 trigger recorded compiler defects; they are kept in the mix at a low rate
        // so that most programs are free of them (a program that meets one is only attributed)
        let choice = if leaf {
            d.below(3)
        } else if d.below(64) == 0 {
            21 + d.below(4)
        } else {
            d.below(21)
        };
        match choice {
            0 => self.small(d).to_string(),
            1 | 2 => {
                if vars.is_empty() {
                    self.small(d).to_string()
                } else {
                    vars[d.below(vars.len())].clone()
                }
            }
            3 | 4 => {
                let op = ["__integer_add__", "__integer_subtract__", "__integer_multiply__"][d.below(3)];
                format!("[{}, {}] {op}", self.int(d, depth - 1, vars), self.int(d, depth - 1, vars))
            }
            5 | 6 => self.literal_switch(d, depth, vars),
            7 | 8 => self.tuple_switch(d, depth, vars),
            9 => self.seq_block(d, depth, vars),
            10 => self.union_switch(d, depth, vars),
            11 => self.closure_call(d, depth, vars),
            12 => self.guard_chain(d, depth, vars),
            13 => self.nested_fallthrough(d, depth, vars),
            14 => self.ripple_chain(d, depth, vars),
            15 => self.shadow_block(d, depth, vars),
            16 => self.nested_repeated_binder(d, depth, vars),
            17 => self.spread_override(d, depth, vars),
            18 => self.early_nil_step(d, depth, vars),
            19 => self.narrowed_then_shadowed(d, depth, vars),
            20 => self.binding_in_tuple_field(d, depth, vars),
            21 => self.failed_branch_then_binding_branch(d, depth, vars),
            22 => self.nil_block_bound_then_more_bindings(d, depth, vars),
            23 => self.nil_bound_then_tested(d, depth, vars),
            _ => self.partial_param_access(d, depth, vars),
        }
    }

    /// `E { | =k1 => A | =k2 => B | C }`
    fn literal_switch(&mut self, d: &mut Dice, depth: u32, vars: &[String]) -> String {
        self.features.insert("literal-switch");
        let scr = self.int(d, depth - 1, vars);
        let n = 1 + d.below(3);
        let mut s = format!("{scr} {{ ");
        for _ in 0..n {
            let k = self.small(d);
            s.push_str(&format!("| ={k} => {} ", self.int(d, depth - 1, vars)));
        }
        // the default uses the flowing value
        if d.below(2) == 0 {
            self.features.insert("default-branch-uses-flowing-value");
            s.push_str(&format!("| [~, {}] __integer_add__ }}", self.small(d)));
        } else {
            s.push_str(&format!("| {} }}", self.int(d, depth - 1, vars)));
        }
        s
    }

    fn pattern(&mut self, d: &mut Dice, vars: &[String], binds: &mut Vec<String>, arity: usize, named: bool) -> String {
        let mut fields = Vec::new();
        for i in 0..arity {
            let label = if named && i == arity - 1 { "x: " } else { "" };
            let p = match d.below(8) {
                0 => {
                    self.features.insert("pattern:literal-after-binder");
                    self.small(d).to_string()
                }
                1 => "_".to_string(),
                2 if !binds.is_empty() => {
                    self.features.insert("pattern:repeated-binder");
                    binds[d.below(binds.len())].clone()
                }
                3 if !vars.is_empty() => {
                    self.features.insert("pattern:pin");
                    format!("&{}", vars[d.below(vars.len())])
                }
                4 => {
                    self.features.insert("pattern:type-ascribed-binder");
                    let b = self.fresh("q");
                    binds.push(b.clone());
                    format!("('int){b}")
                }
                _ => {
                    let b = self.fresh("p");
                    binds.push(b.clone());
                    b
                }
            };
            fields.push(format!("{label}{p}"));
        }
        format!("{}[{}]", if named { "T" } else { "" }, fields.join(", "))
    }

    /// `[E, E(, E)] { | =[a, 3] => … a … | =[a, b] => … }` — patterns that bind, then may fail.
    fn tuple_switch(&mut self, d: &mut Dice, depth: u32, vars: &[String]) -> String {
        self.features.insert("tuple-switch");
        let arity = 2 + d.below(2);
        let named = d.below(3) == 0;
        let elems: Vec<String> = (0..arity).map(|i| {
            let e = self.int(d, depth - 1, vars);
            if named && i == arity - 1 { format!("x: {e}") } else { e }
        }).collect();
        let scr = format!("{}[{}]", if named { "T" } else { "" }, elems.join(", "));
        let n = 1 + d.below(3);
        let mut s = format!("{scr} {{ ");
        for _ in 0..n {
            let mut binds = Vec::new();
            let pat = self.pattern(d, vars, &mut binds, arity, named);
            let mut inner: Vec<String> = vars.to_vec();
            inner.extend(binds.iter().cloned());
            if d.below(4) == 0 && !inner.is_empty() {
                // guard after the pattern, in the condition
                self.features.insert("guard-after-pattern");
                let g = inner[d.below(inner.len())].clone();
                s.push_str(&format!("| ={pat} {g} ={} => {} ", self.small(d), self.int(d, depth - 1, &inner)));
            } else {
                s.push_str(&format!("| ={pat} => {} ", self.int(d, depth - 1, &inner)));
            }
        }
        // catch-all with binders for every field
        let all: Vec<String> = (0..arity).map(|_| self.fresh("z")).collect();
        let pat = format!("{}[{}]", if named { "T" } else { "" }, all.iter().enumerate().map(|(i, b)| if named && i == arity - 1 { format!("x: {b}") } else { b.clone() }).collect::<Vec<_>>().join(", "));
        let mut inner: Vec<String> = vars.to_vec();
        inner.extend(all);
        s.push_str(&format!("| ={pat} => {} }}", self.int(d, depth - 1, &inner)));
        s
    }

    /// `{ a = E, b = E, … E }`
    fn seq_block(&mut self, d: &mut Dice, depth: u32, vars: &[String]) -> String {
        self.features.insert("sequence-with-bindings");
        let mut inner: Vec<String> = vars.to_vec();
        let n = 1 + d.below(3);
        let mut parts = Vec::new();
        for _ in 0..n {
            let e = self.int(d, depth - 1, &inner);
            let v = self.fresh("s");
            if d.below(3) == 0 {
                // in-chain form
                parts.push(format!("{e} ={v}"));
            } else {
                parts.push(format!("{v} = {e}"));
            }
            inner.push(v);
        }
        parts.push(self.int(d, depth - 1, &inner));
        format!("{{ {} }}", parts.join(", "))
    }

    /// a function returning a union, matched by name
    fn union_switch(&mut self, d: &mut Dice, depth: u32, vars: &[String]) -> String {
        self.features.insert("union-switch");
        let f = self.fresh("mk");
        let scr = self.int(d, depth - 1, vars);
        let (a, b, c) = (self.fresh("u"), self.fresh("u"), self.fresh("u"));
        let mut i1: Vec<String> = vars.to_vec();
        i1.push(a.clone());
        let mut i2: Vec<String> = vars.to_vec();
        i2.push(b.clone());
        i2.push(c.clone());
        let order = d.below(2);
        let br_b = format!("| =B[{a}] => {}", self.int(d, depth - 1, &i1));
        let br_c = format!("| =C[{b}, {c}] => {}", self.int(d, depth - 1, &i2));
        let br_a = format!("| =A => {}", self.int(d, depth - 1, vars));
        let branches = if order == 0 { format!("{br_a} {br_b} {br_c}") } else { format!("{br_c} {br_a} {br_b}") };
        format!("{{ {f} = #'int {{ | =0 => A | =1 => B[$] | C[$, [$, 1] __integer_add__] }}, {scr} {f} {{ {branches} }} }}")
    }

    fn closure_call(&mut self, d: &mut Dice, depth: u32, vars: &[String]) -> String {
        self.features.insert("closure-capturing-locals");
        let f = self.fresh("f");
        let mut inner: Vec<String> = vars.to_vec();
        let body = {
            // the body sees the captured variables and its parameter through `$`
            let b = self.int(d, depth - 1, &inner);
            format!("[$, {b}] __integer_add__")
        };
        inner.push(f.clone());
        let arg = self.int(d, depth - 1, vars);
        format!("{{ {f} = #'int {{ {body} }}, {arg} {f} }}")
    }

    /// `{ E =k, A | B }` — a failing mid-sequence match, then a fallback branch
    fn guard_chain(&mut self, d: &mut Dice, depth: u32, vars: &[String]) -> String {
        self.features.insert("failing-mid-sequence-match");
        let e = self.int(d, depth - 1, vars);
        let k = self.small(d);
        let v = self.fresh("g");
        let mut inner: Vec<String> = vars.to_vec();
        inner.push(v.clone());
        let a = self.int(d, depth - 1, &inner);
        let b = self.int(d, depth - 1, vars);
        format!("{{ | {v} = {e}, {v} ={k}, {a} | {b} }}")
    }

    /// nested blocks whose inner block can fail as a whole, falling through in the outer one
    fn nested_fallthrough(&mut self, d: &mut Dice, depth: u32, vars: &[String]) -> String {
        self.features.insert("inner-block-fails-outer-falls-through");
        let e = self.int(d, depth - 1, vars);
        let (k1, k2) = (self.small(d), self.small(d));
        let v = self.fresh("n");
        let mut inner: Vec<String> = vars.to_vec();
        inner.push(v.clone());
        let a = self.int(d, depth - 1, &inner);
        let b = self.int(d, depth - 1, &inner);
        let c = self.int(d, depth - 1, vars);
        format!("{e} {{ | ={v} {{ | &{v} ={k1} => {a} | &{v} ={k2} => {b} }} | {c} }}")
    }

    /// a chain that keeps transforming the flowing value
    fn ripple_chain(&mut self, d: &mut Dice, depth: u32, vars: &[String]) -> String {
        self.features.insert("ripple-chain");
        let e = self.int(d, depth - 1, vars);
        let n = 1 + d.below(3);
        let mut s = e;
        for _ in 0..n {
            let op = ["__integer_add__", "__integer_subtract__", "__integer_multiply__"][d.below(3)];
            if d.below(2) == 0 {
                s.push_str(&format!(" [~, {}] {op}", self.small(d)));
            } else {
                s.push_str(&format!(" [{}, ~] {op}", self.int(d, depth.saturating_sub(2), vars)));
            }
        }
        s
    }

    /// a block whose only binding sits inside a tuple field: it must stay local to the block
    fn binding_in_tuple_field(&mut self, d: &mut Dice, depth: u32, vars: &[String]) -> String {
        self.features.insert("binding-inside-a-tuple-field-of-a-block");
        let x = if !vars.is_empty() && d.below(3) != 0 { vars[d.below(vars.len())].clone() } else { self.fresh("bx") };
        let outer = self.int(d, depth - 1, vars);
        let (e1, e2) = (self.int(d, depth - 1, vars), self.int(d, depth - 1, vars));
        match d.below(4) {
            0 => format!("{{ {x} = {outer}, {{ [{e1} ={x}, {e2}] }}, {x} }}"),
            1 => format!("{{ {x} = {outer}, {{ [{e1} ={x}, {e2}], 3 }}, {x} }}"),
            2 => format!("{{ {x} = {outer}, {e1} {{ [~ ={x}, {e2}] }} .1 [~, {x}] __integer_add__ }}"),
            _ => format!("{{ {x} = {outer}, {{ [[{x}, 1] __integer_add__ ={x}, 0] }}, {x} }}"),
        }
    }

    /// a union-typed variable is narrowed by a branch pattern; inside the branch a block binds a
    /// new variable of the same name and another type and dispatches on it
    fn narrowed_then_shadowed(&mut self, d: &mut Dice, depth: u32, vars: &[String]) -> String {
        self.features.insert("narrowed-variable-shadowed-in-a-block");
        let (mk, x, u, w) = (self.fresh("mk"), self.fresh("nx"), self.fresh("u"), self.fresh("w"));
        let e = self.int(d, depth - 1, vars);
        let e2 = self.int(d, depth - 1, vars);
        let a = self.int(d, depth - 1, vars);
        let inner = match d.below(3) {
            0 => format!("{{ {x} = {e2}, {x} {{ | =B[{w}] => {w} | [{x}, 1] __integer_add__ }} }}"),
            1 => format!("{{ {x} = {e2}, {x} {{ | =A => 0 | ='int => [{x}, 2] __integer_multiply__ }} }}"),
            _ => format!("{{ {x} = [{e2}], {x} {{ | =B[{w}] => {w} | =[{w}] => {w} }} }}"),
        };
        format!("{{ {mk} = #'int {{ | =0 => A | B[$] }}, {x} = {e} {mk}, {x} {{ | =B[{u}] => {inner} | =A => {a} }} }}")
    }

    /// a function whose body is a sequence of three or more steps where an early step may be nil
    /// (the sequence then short-circuits); the caller tests the result for nil
    fn early_nil_step(&mut self, d: &mut Dice, depth: u32, vars: &[String]) -> String {
        self.features.insert("early-step-of-a-sequence-may-be-nil");
        let (o, g) = (self.fresh("opt"), self.fresh("g"));
        let k = self.small(d);
        let steps = 1 + d.below(3);
        let mut body = vec![o.clone()];
        for _ in 0..steps {
            body.push(self.int(d, depth.saturating_sub(2), vars));
        }
        let e = self.int(d, depth - 1, vars);
        let (a, b) = (self.int(d, depth - 1, vars), self.int(d, depth - 1, vars));
        let consumer = match d.below(3) {
            0 => format!("{e} {g} {{ | =[] => {a} | {b} }}"),
            1 => format!("{{ | {e} {g} =[] => {a} | {b} }}"),
            _ => format!("{e} {g} {{ | =('int)n{} => {a} | {b} }}", self.fresh("")),
        };
        format!("{{ {o} = #'int {{ | ={k} => [] | $ }}, {g} = #'int {{ {} }}, {consumer} }}", body.join(", "))
    }

    /// `E { | y = A, [] | x = B, x }` — a branch binds and fails, the next one binds and reads
    fn failed_branch_then_binding_branch(&mut self, d: &mut Dice, depth: u32, vars: &[String]) -> String {
        self.features.insert("branch-binds-then-fails-next-branch-binds");
        let e = self.int(d, depth - 1, vars);
        let n = 1 + d.below(2);
        let mut s = format!("{e} {{ ");
        for _ in 0..n {
            let k = 1 + d.below(2);
            let mut inner: Vec<String> = vars.to_vec();
            let mut parts = Vec::new();
            for _ in 0..k {
                let v = self.fresh("y");
                parts.push(format!("{v} = {}", self.int(d, depth - 1, &inner)));
                inner.push(v);
            }
            // fails: explicit nil, or a literal match that cannot hold
            if d.below(2) == 0 {
                parts.push("[]".to_string());
            } else {
                parts.push(format!("{} =12345", inner[d.below(inner.len())]));
            }
            s.push_str(&format!("| {} ", parts.join(", ")));
        }
        let x = self.fresh("x");
        let mut inner: Vec<String> = vars.to_vec();
        let b = self.int(d, depth - 1, &inner);
        inner.push(x.clone());
        s.push_str(&format!("| {x} = {b}, {} }}", self.int(d, depth - 1, &inner)));
        s
    }

    /// `{ E { =k => A } =r, x = B, y = C, … }` — a block that may evaluate to nil is bound, more
    /// bindings follow and are read
    fn nil_block_bound_then_more_bindings(&mut self, d: &mut Dice, depth: u32, vars: &[String]) -> String {
        self.features.insert("maybe-nil-block-bound-then-more-bindings");
        let e = self.int(d, depth - 1, vars);
        let k = self.small(d);
        let a = self.int(d, depth - 1, vars);
        let r = self.fresh("r");
        let mut inner: Vec<String> = vars.to_vec();
        let form = d.below(3);
        let blk = match form {
            0 => format!("{e} {{ ={k} => {a} }}"),
            1 => format!("{e} {{ | ={k} => {a} | ={} => {} }}", self.small(d), self.int(d, depth - 1, vars)),
            _ => format!("{e} {{ =[_, _] => {a} | ={k} => {} }}", self.int(d, depth - 1, vars)),
        };
        let mut parts = vec![format!("{blk} ={r}")];
        let n = 2 + d.below(2);
        for _ in 0..n {
            let v = self.fresh("w");
            parts.push(format!("{v} = {}", self.int(d, depth - 1, &inner)));
            inner.push(v);
        }
        parts.push(self.int(d, depth - 1, &inner));
        format!("{{ {} }}", parts.join(", "))
    }

    /// `[B[E], E] { | =[B[x], x] => … | =[B[y], _] => … }`
    fn nested_repeated_binder(&mut self, d: &mut Dice, depth: u32, vars: &[String]) -> String {
        self.features.insert("repeated-binder-across-nested-constructor");
        let (e1, e2) = (self.int(d, depth - 1, vars), self.int(d, depth - 1, vars));
        let (x, y) = (self.fresh("x"), self.fresh("y"));
        let mut i1: Vec<String> = vars.to_vec();
        i1.push(x.clone());
        let mut i2: Vec<String> = vars.to_vec();
        i2.push(y.clone());
        let a = self.int(d, depth - 1, &i1);
        let b = self.int(d, depth - 1, &i2);
        let c = self.int(d, depth - 1, vars);
        format!("[B[{e1}], {e2}] {{ | =[B[{x}], {x}] => {a} | =[B[{y}], _] => {b} | {c} }}")
    }

    /// a variable bound to a possibly-nil value, then tested for nil
    fn nil_bound_then_tested(&mut self, d: &mut Dice, depth: u32, vars: &[String]) -> String {
        self.features.insert("maybe-nil-variable-tested");
        let e = self.int(d, depth - 1, vars);
        let k = self.small(d);
        let (o, m) = (self.fresh("opt"), self.fresh("m"));
        let a = self.int(d, depth - 1, vars);
        let mut inner: Vec<String> = vars.to_vec();
        let test = match d.below(3) {
            0 => format!("{m} {{ | =[] => {a} | ='int => [{m}, 1] __integer_add__ }}"),
            1 => {
                inner.push(m.clone());
                format!("{{ | {m} =[] => {a} | {} }}", self.int(d, depth - 1, vars))
            }
            _ => format!("{m} {{ | ='int => [{m}, 2] __integer_multiply__ | {a} }}"),
        };
        format!("{{ {o} = #'int {{ | ={k} => [] | $ }}, {m} = {e} {o}, {test} }}")
    }

    /// a function over a partial type reading a field whose index differs in the argument
    fn partial_param_access(&mut self, d: &mut Dice, depth: u32, vars: &[String]) -> String {
        self.features.insert("partial-typed-parameter-field-access");
        let (e1, e2) = (self.int(d, depth - 1, vars), self.int(d, depth - 1, vars));
        let f = self.fresh("pf");
        match d.below(3) {
            0 => format!("{{ {f} = #(x: 'int) {{ $.x }}, T[{e1}, x: {e2}] {f} }}"),
            1 => format!("{{ {f} = #(x: 'int) {{ =(x), x }}, T[y: {e1}, x: {e2}] {f} }}"),
            _ => format!("{{ {f} = #(x: 'int, y: 'int) {{ [$.y, $.x] __integer_subtract__ }}, [x: {e1}, z: 0, y: {e2}] {f} }}"),
        }
    }

    /// spreads with explicit fields before and after
    fn spread_override(&mut self, d: &mut Dice, depth: u32, vars: &[String]) -> String {
        self.features.insert("spread-with-override");
        let (e1, e2, e3) = (self.int(d, depth - 1, vars), self.int(d, depth - 1, vars), self.int(d, depth - 1, vars));
        let a = self.fresh("sp");
        match d.below(7) {
            // a later source gives the field another type; the result is dispatched on that type
            4 => format!("{{ {a} = [x: {e1}, y: {e2}], {a}b = [y: 0xab, z: {e3}], [...{a}, ...{a}b] .y {{ | ='bin => {e3} | =('int)n => [n, 1] __integer_add__ }} }}"),
            5 => format!("{{ {a}b = [y: 0xab, z: {e1}], [y: {e2}, ...{a}b] .y {{ | =('int)n => [n, 1] __integer_add__ | ='bin => {e3} }} }}"),
            6 => format!("{{ {a} = T[x: 0xcd, y: {e1}], {a} ~[..., x: {e2}] .x {{ | ='bin => {e3} | =('int)n => [n, 2] __integer_multiply__ }} }}"),
            0 => format!("{{ {a} = [x: {e1}, y: {e2}], [y: {e3}, ...{a}] =[y: py, x: px], [px, py] __integer_subtract__ }}"),
            1 => format!("{{ {a} = [x: {e1}, y: {e2}], [...{a}, y: {e3}] =[x: px, y: py], [px, py] __integer_subtract__ }}"),
            2 => format!("{{ {a} = T[x: {e1}, y: {e2}], {a} ~[..., x: {e3}] =T[x: px, y: py], [px, py] __integer_subtract__ }}"),
            _ => format!("{{ {a} = [x: {e1}], [z: {e2}, ...{a}, w: {e3}] =[z: pz, x: px, w: pw], [[pz, px] __integer_subtract__, pw] __integer_multiply__ }}"),
        }
    }

    /// a block that shadows an outer variable; the outer one must be intact afterwards
    fn shadow_block(&mut self, d: &mut Dice, depth: u32, vars: &[String]) -> String {
        if vars.is_empty() {
            return self.seq_block(d, depth, vars);
        }
        self.features.insert("shadowing-in-block");
        let v = vars[d.below(vars.len())].clone();
        let e = self.int(d, depth - 1, vars);
        let inner_use = self.int(d, depth - 1, vars);
        format!("[{{ {v} = {e}, {inner_use} }}, {v}] __integer_add__")
    }
}

thread_local! {
    /// maximal nesting depth of generated programs on this thread (quick: 3, thorough: 4)
    pub static MAX_DEPTH: std::cell::Cell<u32> = const { std::cell::Cell::new(3) };
}

pub fn gen_program(bytes: &[u8]) -> (String, std::collections::BTreeSet<&'static str>) {
    let mut d = Dice::new(bytes);
    let mut g = GenB::default();
    let depth = (2 + d.below(3) as u32).min(MAX_DEPTH.with(|m| m.get()));
    // a few top-level bindings, then the result expression, then a use of the bindings again
    let mut vars: Vec<String> = Vec::new();
    let mut lines = Vec::new();
    for _ in 0..d.below(3) {
        let e = g.int(&mut d, depth - 1, &vars);
        let v = g.fresh("t");
        lines.push(format!("{v} = {e}"));
        vars.push(v);
    }
    let main = g.int(&mut d, depth, &vars);
    lines.push(format!("r = {main}"));
    let mut tail = vec!["r".to_string()];
    tail.extend(vars.iter().cloned());
    lines.push(format!("[{}]", tail.join(", ")));
    (lines.join(",\n"), g.features)
}

// ---------------------------------------------------------------------------------------------
// stream A: semantic mutants of harvested programs

const INT_SWAPS: [&str; 8] = ["0", "1", "2", "3", "-1", "10", "7", "100"];
const BUILTIN_GROUPS: [&[&str]; 3] = [
    &["__integer_add__", "__integer_subtract__", "__integer_multiply__", "__integer_compare__", "__integer_modulo__", "__integer_divide__"],
    &["__binary_concat__", "__binary_xor__", "__binary_and__", "__binary_or__"],
    &["__integer_abs__", "__integer_negate__"],
];

/// Apply 1-3 token-level edits chosen by `dice` to `src`.
pub fn mutate_source(src: &str, dice: &[u8]) -> String {
    let mut d = Dice::new(dice);
    let mut toks: Vec<String> = crate::props::c18::tokenize(src).iter().map(|s| s.to_string()).collect();
    if toks.is_empty() {
        return src.to_string();
    }
    let edits = 1 + d.below(3);
    for _ in 0..edits {
        let is_ident = |t: &str| t.chars().next().is_some_and(|c| c.is_lowercase() || c == '_') && t.chars().all(|c| c.is_alphanumeric() || c == '_');
        let is_int = |t: &str| !t.is_empty() && t.chars().all(|c| c.is_ascii_digit());
        let p = d.below(toks.len());
        match d.below(8) {
            0 | 1 => {
                // nearest integer literal at or after p
                if let Some(i) = (p..toks.len()).chain(0..p).find(|i| is_int(&toks[*i])) {
                    toks[i] = INT_SWAPS[d.below(INT_SWAPS.len())].to_string();
                }
            }
            2 => {
                // swap two identifiers
                let ids: Vec<usize> = (0..toks.len()).filter(|i| is_ident(&toks[*i]) && !toks[*i].starts_with("__")).collect();
                if ids.len() >= 2 {
                    let (a, b) = (ids[d.below(ids.len())], ids[d.below(ids.len())]);
                    toks.swap(a, b);
                }
            }
            3 => {
                // another builtin of the same shape
                if let Some(i) = (p..toks.len()).chain(0..p).find(|i| toks[*i].starts_with("__") && toks[*i].ends_with("__")) {
                    for g in BUILTIN_GROUPS {
                        if g.contains(&toks[i].as_str()) {
                            toks[i] = g[d.below(g.len())].to_string();
                            break;
                        }
                    }
                }
            }
            4 => {
                if toks.len() > 1 {
                    toks.remove(p);
                }
            }
            5 => {
                let t = toks[p].clone();
                toks.insert(p, t);
            }
            6 => {
                // replace by a token of the same class from elsewhere
                let q = d.below(toks.len());
                if (is_ident(&toks[p]) && is_ident(&toks[q])) || (is_int(&toks[p]) && is_int(&toks[q])) {
                    toks[p] = toks[q].clone();
                }
            }
            _ => {
                // swap the neighbours of a comma / bar (reorders steps or branches)
                if let Some(i) = (p..toks.len()).find(|i| toks[*i] == "," || toks[*i] == "|") {
                    let l = (0..i).rev().find(|k| !toks[*k].trim().is_empty());
                    let r = (i + 1..toks.len()).find(|k| !toks[*k].trim().is_empty());
                    if let (Some(l), Some(r)) = (l, r) {
                        toks.swap(l, r);
                    }
                }
            }
        }
    }
    toks.concat()
}

#[derive(Clone, Debug)]
pub enum Case {
    Mutant { base: u16, dice: Vec<u8> },
    Generated { bytes: Vec<u8> },
}

pub fn strategy() -> impl Strategy<Value = Case> {
    prop_oneof![
        2 => (any::<u16>(), prop::collection::vec(any::<u8>(), 12)).prop_map(|(base, dice)| Case::Mutant { base, dice }),
        3 => prop::collection::vec(any::<u8>(), 40..400).prop_map(|bytes| Case::Generated { bytes }),
    ]
}

pub fn source_of(c: &Case, corpus: &[String]) -> (String, std::collections::BTreeSet<&'static str>) {
    match c {
        Case::Mutant { base, dice } => (mutate_source(&corpus[(*base as usize * corpus.len()) >> 16], dice), Default::default()),
        Case::Generated { bytes } => gen_program(bytes),
    }
}

pub fn run(ctx: &Ctx) -> i32 {
    use serde_json::json;
    use std::sync::Arc;
    let started = std::time::Instant::now();
    let stats = Stats::new();
    let known = KnownFindings::load();
    let cases_per_shard: u32 = ctx.tier.pick(2_500, 80_000);
    // only harvested programs the reference evaluator covers are worth mutating
    let reg0 = qrun::registry();
    let corpus: Arc<Vec<String>> = Arc::new(corpus::all_sources().into_iter().filter(|s| s.len() < 1500 && compare(s, &reg0) == Verdict::Agree).collect());
    stats.note("corpus_programs_covered_by_the_reference_evaluator", json!(corpus.len()));

    let inputs = known_inputs();
    let deep = matches!(ctx.tier, Tier::Thorough);
    let violations = run_sharded(ctx.shards, |shard| {
        let reg = qrun::registry();
        let mut out = Vec::new();
        let strat = strategy();
        let corpus = corpus.clone();
        let inputs = &inputs;
        MAX_DEPTH.with(|m| m.set(if deep { 4 } else { 3 }));
        let res = pt_search(derive_seed(ctx.seed, ctx.id, shard, 0), cases_per_shard, &strat, &stats, |case| {
            let (src, features) = source_of(case, &corpus);
            crumb(ctx.id, || json!({"kind": "c02", "source": src}));
            match compare(&src, &reg) {
                Verdict::Agree => {
                    stats.eval();
                    match case {
                        Case::Mutant { .. } => stats.class("stream:mutant-of-harvested-program"),
                        Case::Generated { .. } => {
                            stats.class("stream:generated-control-flow");
                            for f in &features {
                                stats.class(f);
                            }
                        }
                    }
                    let nontrivial = match case {
                        Case::Mutant { .. } => src.contains('{') && src.contains('='),
                        Case::Generated { .. } => features.len() >= 3,
                    };
                    if nontrivial {
                        stats.nontrivial(&src);
                        stats.sample(|| json!({"program": truncate(&src, 500)}));
                    }
                    Ok(())
                }
                Verdict::Skipped(why) => {
                    stats.discard();
                    if matches!(case, Case::Generated { .. }) {
                        stats.class(if why.starts_with("rejected by the compiler") { "generated:rejected-by-compiler" } else { "generated:skipped-other" });
                    }
                    if why.starts_with("stuck") {
                        stats.class("accepted-but-stuck-by-the-reference-semantics");
                    }
                    Ok(())
                }
                Verdict::Differ(m) => {
                    if let Ok(path) = std::env::var("QV_C02_COLLECT") {
                        use std::io::Write;
                        if let Ok(mut f) = std::fs::OpenOptions::new().create(true).append(true).open(path) {
                            let _ = writeln!(f, "#### [{}] {m}\n{src}\n", signature_for(&src, m.contains("compiled program fails with")));
                        }
                        return Ok(());
                    }
                    let sig = signature_for(&src, m.contains("compiled program fails with"));
                    if !ctx.strict && sig == "result-differs" && inputs.contains(&hash64(src.as_str())) {
                        stats.known_hit("result-differs:recorded-input");
                        return Ok(());
                    }
                    if !ctx.strict && known.is_known(ctx.id, &sig).is_some() {
                        stats.known_hit(&sig);
                        return Ok(());
                    }
                    Err(format!("{sig}\u{1}{m}\n--- program ---\n{src}"))
                }
            }
        });
        if let Search::Failed { minimal, message } = res {
            let (sig, msg) = message.split_once('\u{1}').map(|(a, b)| (a.to_string(), b.to_string())).unwrap_or((message.clone(), message));
            let (src, _) = source_of(&minimal, &corpus);
            out.push(Violation { signature: sig, summary: truncate(&msg, 6000), replay: json!({"kind": "c02", "source": src}) });
        }
        out
    });

    // directed witnesses of the recorded findings
    let mut violations = violations;
    {
        let reg = qrun::registry();
        for (sig, src) in WITNESSES {
            if known.is_known(ctx.id, sig).is_none() {
                continue;
            }
            match compare(src, &reg) {
                Verdict::Differ(m) => {
                    let got = signature(m.contains("compiled program fails with"));
                    if got == *sig || known.is_known(ctx.id, &got).is_some() {
                        stats.known_hit(sig);
                    } else {
                        violations.push(Violation { signature: got, summary: format!("{m}\n{src}"), replay: json!({"kind": "c02", "source": src}) });
                    }
                }
                _ => println!("NOTE: known finding {sig} no longer reproduces on its witness"),
            }
        }
    }

    finish(Report {
        ctx,
        stats: &stats,
        violations,
        rule: "two streams, both judged by an independent reference evaluator written from docs/spec.md over the parser's AST (value flow through chains, nil short-circuit between steps, blocks/branches/condition-consequence, all pattern forms incl. repeated binders, pins, partial/star/alternation/type-ascribed patterns, tuples/spreads/field access, functions, closures, tail calls as calls, strings with holes, std modules evaluated from their source, builtins by the C12 models). (A) 1-3 token-level edits (integer literals, identifier swaps, builtin swaps within a shape group, delete/duplicate a token, reorder the neighbours of a comma or bar) of the harvested programs the evaluator covers; (B) generated integer programs nesting: literal switches, tuple switches whose patterns bind and then fail (literal after binder, repeated binder, pin, type-ascribed binder, guard after pattern), sequences with bindings in both forms, union switches, closures capturing locals, failing mid-sequence matches with a fallback branch, inner blocks that fail as a whole, ripple chains, shadowing blocks, branches that bind and fail before a branch that binds and reads, maybe-nil blocks bound before further bindings, repeated binders across a nested constructor, maybe-nil variables tested for nil, functions over a partial type reading a field whose index differs in the argument, spreads with explicit fields before and after, functions whose body is a sequence with an early step that may be nil and whose result the caller tests for nil, a narrowed union-typed variable shadowed inside the branch by a variable of another type, blocks whose only binding sits inside a tuple field; the result tuple re-reads every top-level binding after the main expression. A case counts when the compiler accepts it and the evaluator covers it; evaluations = such programs; non-trivial (B) = >= 3 distinct control-flow features; distinct by program text".into(),
        assumptions: vec![
            "the reference evaluator is validated each run against the harvested programs whose expected values the repository's own tests pin (it agrees with the VM on all it covers)".into(),
            "processes, select, I/O, function equality, closures whose parameter type is inferred from context and type tests against type variables are outside the evaluator; such programs are discarded (counted)".into(),
            "a program the evaluator finds stuck (unbound name, missing field, call of a non-function) but the compiler accepts is counted, not judged here (that is C01's statement)".into(),
        ],
        required_classes: vec!["stream:mutant-of-harvested-program", "stream:generated-control-flow", "literal-switch", "tuple-switch", "pattern:literal-after-binder", "pattern:repeated-binder", "pattern:pin", "guard-after-pattern", "sequence-with-bindings", "union-switch", "closure-capturing-locals", "failing-mid-sequence-match", "inner-block-fails-outer-falls-through", "ripple-chain", "shadowing-in-block", "branch-binds-then-fails-next-branch-binds", "maybe-nil-block-bound-then-more-bindings", "repeated-binder-across-nested-constructor", "maybe-nil-variable-tested", "partial-typed-parameter-field-access", "spread-with-override", "early-step-of-a-sequence-may-be-nil", "narrowed-variable-shadowed-in-a-block", "binding-inside-a-tuple-field-of-a-block"],
        started,
        technique: "mutated harvested programs + proptest-generated nested control-flow programs; oracle = differential against an independent reference evaluator of the spec",
    })
}

pub const WITNESSES: [(&str, &str); 5] = [
    ("vm-type-failure:star-pattern", "'union = A[xx: 'int, y: 'int] | B[y: 'int, x: 'int], f = #'union { =* => [x, y] }, B[y: 0, x: 2] f"),
    ("result-differs:partial-typed-parameter-with-other-layout", "pf = #(x: 'int) { $.x }, T[1, x: 2] pf"),
    ("vm-type-failure:partial-typed-parameter-with-other-layout", "pf = #(x: 'int) { [$.x, 1] __integer_add__ }, T[0x00, x: 2] pf"),
    ("result-differs:variable-bound-to-nil", "opt = #'int { | =0 => [] | $ }, m = 0 opt, { | m =[] => 5 | 6 }"),
    ("vm-type-failure:nil-scrutinee-reaches-a-later-branch", "f = #('int | A | []) { | =A => 0 | ='int => [$, 1] __integer_add__ | 2 }, [] f"),
];

pub fn replay(payload: &serde_json::Value) -> Result<(), String> {
    let src = payload["source"].as_str().ok_or("source")?;
    let reg = qrun::registry();
    match compare(src, &reg) {
        Verdict::Agree => Ok(()),
        Verdict::Skipped(why) => {
            println!("  skipped: {why}");
            Ok(())
        }
        Verdict::Differ(m) => Err(format!("{}: {m}\n{src}", signature_for(src, m.contains("compiled program fails with")))),
    }
}

/// Token-level delta debugging: remove or simplify token ranges while the difference (same
/// signature) persists. Used for replays and triage, not inside the search.
pub fn minimize(src: &str, reg: &qrun::Registry) -> String {
    // keep the nature of the disagreement: when both sides give tuples of integers, only accept
    // candidates where they still do
    let ints_only = |m: &str| -> bool {
        let Some((a, b)) = m.split_once(" but the compiled program evaluates to ") else { return false };
        let a = a.trim_start_matches("the reference semantics give ");
        let ok = |t: &str| t.starts_with('[') && t.ends_with(']') && t.chars().all(|c| c.is_ascii_digit() || "[], -".contains(c));
        ok(a.trim()) && ok(b.trim())
    };
    let orig_ints = matches!(compare(src, reg), Verdict::Differ(m) if ints_only(&m));
    let sig_of = |s: &str| -> Option<String> {
        match compare(s, reg) {
            Verdict::Differ(m) if !orig_ints || ints_only(&m) => Some(signature(m.contains("compiled program fails with"))),
            _ => None,
        }
    };
    let Some(want) = sig_of(src) else { return src.to_string() };
    let mut toks: Vec<String> = crate::props::c18::tokenize(src).iter().map(|s| s.to_string()).collect();
    let mut chunk = (toks.len() / 2).max(1);
    let mut budget = 12000;
    while chunk >= 1 && budget > 0 {
        let mut i = 0;
        let mut progressed = false;
        while i < toks.len() && budget > 0 {
            let end = (i + chunk).min(toks.len());
            let mut cand = toks.clone();
            cand.drain(i..end);
            let text: String = cand.concat();
            budget -= 1;
            if sig_of(&text).as_deref() == Some(want.as_str()) {
                toks = cand;
                progressed = true;
            } else {
                // try replacing the range by a literal 0
                let mut cand2 = toks.clone();
                cand2.splice(i..end, ["0".to_string()]);
                let text2: String = cand2.concat();
                budget -= 1;
                if chunk > 1 && sig_of(&text2).as_deref() == Some(want.as_str()) {
                    toks = cand2;
                    progressed = true;
                } else {
                    i += chunk;
                }
            }
        }
        if !progressed {
            chunk /= 2;
        }
    }
    toks.concat()
}
