//! C05 — select follows its documented semantics: priority, filters, timeouts.
//!
//! Black-box, construction-based oracle: scenarios are built so that for every select some
//! sources are *guaranteed ready before the select begins* (a process the subject awaited
//! earlier; a message preloaded into the mailbox behind a marker the subject has already
//! received; a zero timeout), some can *never* become ready, and some *may* become ready at any
//! time (running processes, late senders, positive timeouts). The statement then fixes which
//! sources the result may come from, whatever the schedule.

use crate::fw::*;
use crate::hval::HVal;
use crate::props::c03::{QUANTA, end_kind};
use crate::qrun;
use crate::sim::{self, SimCfg, SimEnd};
use num_traits::ToPrimitive;
use proptest::prelude::*;
use serde_json::json;
use std::time::Instant;

#[derive(Clone, Debug, PartialEq)]
pub enum Pred {
    Gt(i8),
    Eq(i8),
    Even,
    Never,
    Always,
    /// accepts everything but evaluates to a number (the select must still yield the message)
    AlwaysValue,
}

impl Pred {
    fn holds(&self, x: i64) -> bool {
        match self {
            Pred::Gt(c) => x > *c as i64,
            Pred::Eq(c) => x == *c as i64,
            Pred::Even => x % 2 == 0,
            Pred::Never => false,
            Pred::Always | Pred::AlwaysValue => true,
        }
    }
    fn render(&self) -> String {
        match self {
            Pred::Gt(c) => format!("#'int {{ [~, {c}] __integer_compare__ =1 }}"),
            Pred::Eq(c) => format!("#'int {{ ={c} }}"),
            Pred::Even => "#'int { [~, 2] __integer_modulo__ =0 }".into(),
            Pred::Never => "#'int { [] }".into(),
            Pred::Always => "#'int { Ok }".into(),
            Pred::AlwaysValue => "#'int { 99 }".into(),
        }
    }
}

impl Pred {
    fn render_tag(&self) -> String {
        match self {
            Pred::Gt(c) => format!("#T['int] {{ =T[x], [x, {c}] __integer_compare__ =1 }}"),
            Pred::Eq(c) => format!("#T['int] {{ =T[{c}] }}"),
            Pred::Even => "#T['int] { =T[x], [x, 2] __integer_modulo__ =0 }".into(),
            Pred::Never => "#T['int] { [] }".into(),
            Pred::Always => "#T['int] { Ok }".into(),
            Pred::AlwaysValue => "#T['int] { 99 }".into(),
        }
    }
}

pub fn is_tag(m: i64) -> bool {
    (64..100).contains(&m)
}

#[derive(Clone, Debug, PartialEq)]
pub enum Src {
    /// awaited earlier by the subject: guaranteed finished; yields 1000 + i
    AwaitDone(u8),
    /// blocked for ever
    AwaitNever,
    /// runs `work` then yields 2000 + i
    AwaitMaybe(u8, u16),
    /// runs `work` then fails with a division by zero
    AwaitFail(u16),
    RecvInt,
    RecvFilter(Pred),
    /// typed receive of T['int] messages (model value 64 + x)
    RecvTag,
    /// filtered receive of T['int] messages; the predicate is on the inner integer
    RecvTagFilter(Pred),
    /// a type nothing ever sends
    RecvBin,
    Timeout(u8),
}

#[derive(Clone, Debug)]
pub struct Scn {
    pub preload: Vec<i8>,
    pub selects: Vec<Vec<Src>>,
    /// late senders: sender i sends `count` messages 100 + 10*i + j, with `gap` busy work before each
    pub late: Vec<(u8, u16)>,
    /// spelling of type-only receive sources (the model is the same): bit 0 writes `#'bin` as the
    /// builtin `&__binary_length__` (a builtin is a receive source of its parameter type), bit 1
    /// writes `#'int` as `&__integer_abs__`
    pub forms: u8,
}

#[derive(Clone, Debug)]
pub struct Case {
    pub scn: Scn,
    pub cfgs: Vec<(u8, u8, Vec<u8>)>,
}

fn src() -> impl Strategy<Value = Src> {
    let work = prop_oneof![2 => 0u16..30, 2 => 30u16..600];
    let pred = prop_oneof![(-3i8..12).prop_map(Pred::Gt), (0i8..10).prop_map(Pred::Eq), Just(Pred::Even), Just(Pred::Never), Just(Pred::Always), Just(Pred::AlwaysValue)];
    prop_oneof![
        3 => (0u8..3).prop_map(Src::AwaitDone),
        2 => Just(Src::AwaitNever),
        3 => (0u8..3, work.clone()).prop_map(|(i, w)| Src::AwaitMaybe(i, w)),
        3 => Just(Src::RecvInt),
        4 => pred.clone().prop_map(Src::RecvFilter),
        2 => Just(Src::RecvTag),
        3 => pred.prop_map(Src::RecvTagFilter),
        1 => Just(Src::RecvBin),
        3 => prop_oneof![2 => Just(0u8), 3 => 1u8..60].prop_map(Src::Timeout),
    ]
}

pub fn scn() -> impl Strategy<Value = Scn> {
    let work = prop_oneof![2 => 0u16..30, 2 => 30u16..600];
    let sel = prop::collection::vec(src(), 1..5);
    let item = prop_oneof![3 => -2i8..12, 2 => 64i8..76];
    let multi = (prop::collection::vec(item.clone(), 0..6), prop::collection::vec(sel, 1..4), prop::collection::vec((1u8..6, work.clone()), 0..3), prop_oneof![3 => Just(0u8), 2 => 1u8..4]).prop_map(|(preload, selects, late, forms)| Scn { preload, selects, late, forms });
    // single-select scenarios that may contain a failing process
    let failing = (prop::collection::vec(item, 0..3), prop::collection::vec(src(), 0..3), work, any::<u8>()).prop_map(|(preload, mut s, w, pos)| {
        let at = (pos as usize) % (s.len() + 1);
        s.insert(at, Src::AwaitFail(w));
        Scn { preload, selects: vec![s], late: vec![], forms: pos >> 6 }
    });
    prop_oneof![5 => multi, 1 => failing]
}

pub fn strategy(n_cfgs: usize) -> impl Strategy<Value = Case> {
    let cfg = (1u8..=4, 0u8..48, prop::collection::vec(any::<u8>(), 0..260));
    (scn(), prop::collection::vec(cfg, n_cfgs)).prop_map(|(scn, cfgs)| Case { scn, cfgs })
}

const PRELUDE: &str = "\
'item = 'int | T['int],
'log = Nil | Cons['item, ^],
'mb = 'int | 'bin | Mark | T['int],
loop = #['int, 'int] { =[n, acc], { | [n, 0] __integer_compare__ =0 => acc | [[n, 1] __integer_subtract__, [acc, n] __integer_add__] ^ } },
w = #'int { [~, 0] loop },
never = #{ !#'bin },
quick = #'int { $ },
slow = #['int, 'int] { =[v, n], n w, v },
bad = #'int { =n, n w, [1, 0] __integer_divide__ },
lsend = #[(@'mb), 'int, 'int, 'int] { =[dst, v, k, n], { | [k, 0] __integer_compare__ =0 => Sent | { n w, v dst, [&dst, [v, 1] __integer_add__, [k, 1] __integer_subtract__, n] ^ } } },
drain = #'log { =acc, ! [#'item, 50] { | =[] => acc | =('item)x => Cons[x, acc] ^ } },
me = &.";

pub fn render(s: &Scn) -> String {
    let mut lines = vec![PRELUDE.to_string()];
    // keep the receive type stable whatever the sources are
    lines.push("! [#'bin, #Mark, #'int { [] }, #T['int] { [] }, 0] Ok".to_string());
    for x in &s.preload {
        if is_tag(*x as i64) {
            lines.push(format!("T[{}] .", *x as i64 - 64));
        } else {
            lines.push(format!("{x} ."));
        }
    }
    lines.push("Mark .".to_string());
    lines.push("! [#Mark]".to_string());
    // processes
    let mut done_used = [false; 3];
    for sel in &s.selects {
        for src in sel {
            if let Src::AwaitDone(i) = src {
                done_used[*i as usize % 3] = true;
            }
        }
    }
    for (i, used) in done_used.iter().enumerate() {
        if *used {
            lines.push(format!("d{i} = {} @quick", 1000 + i));
            lines.push(format!("!d{i}"));
        }
    }
    lines.push("nv = @never".to_string());
    for (si, sel) in s.selects.iter().enumerate() {
        for (k, src) in sel.iter().enumerate() {
            match src {
                Src::AwaitMaybe(i, work) => lines.push(format!("m{si}_{k} = [{}, {work}] @slow", 2000 + (*i as usize % 3) + 10 * si + 100 * k)),
                Src::AwaitFail(work) => lines.push(format!("f{si}_{k} = {work} @bad")),
                _ => {}
            }
        }
    }
    for (i, (count, gap)) in s.late.iter().enumerate() {
        lines.push(format!("l{i} = [&me, {}, {count}, {gap}] @lsend", 100 + 10 * i));
    }
    for (si, sel) in s.selects.iter().enumerate() {
        let srcs: Vec<String> = sel
            .iter()
            .enumerate()
            .map(|(k, src)| match src {
                Src::AwaitDone(i) => format!("d{}", *i as usize % 3),
                Src::AwaitNever => "nv".to_string(),
                Src::AwaitMaybe(..) => format!("m{si}_{k}"),
                Src::AwaitFail(_) => format!("f{si}_{k}"),
                Src::RecvInt if s.forms & 2 != 0 => "&__integer_abs__".to_string(),
                Src::RecvBin if s.forms & 1 != 0 => "&__binary_length__".to_string(),
                Src::RecvInt => "#'int".to_string(),
                Src::RecvFilter(p) => p.render(),
                Src::RecvTag => "#T['int]".to_string(),
                Src::RecvTagFilter(p) => p.render_tag(),
                Src::RecvBin => "#'bin".to_string(),
                Src::Timeout(d) => format!("{d}"),
            })
            .collect();
        lines.push(format!("r{si} = ! [{}]", srcs.join(", ")));
    }
    lines.push("left = Nil drain".to_string());
    let rs: Vec<String> = (0..s.selects.len()).map(|i| format!("r{i}")).collect();
    lines.push(format!("[{}, left]", rs.join(", ")));
    lines.join(",\n")
}

fn maybe_value(si: usize, k: usize, i: u8) -> i64 {
    (2000 + (i as usize % 3) + 10 * si + 100 * k) as i64
}

#[derive(Debug, Clone, PartialEq)]
enum Ready {
    /// ready before the select begins; yields this value (None = nil from a zero timeout)
    Now(Option<i64>),
    Never,
    /// may become ready; the set of values it could yield is described by the closure below
    Maybe,
}

/// Judge the subject's result against the model. Returns Err(message) on a violation.
pub fn judge(s: &Scn, result: &Result<HVal, quiver_core::error::Error>, clock: u64) -> Result<(), String> {
    let has_fail = s.selects.iter().flatten().any(|x| matches!(x, Src::AwaitFail(_)));
    let fields = match result {
        Err(e) => {
            if !has_fail {
                return Err(format!("the subject failed with {e:?} although no select source can fail"));
            }
            // single-select scenario with a failing process: allowed iff that source may be chosen
            let sel = &s.selects[0];
            let remaining: Vec<i64> = s.preload.iter().map(|x| *x as i64).collect();
            let g = first_guaranteed(sel, &remaining);
            let fail_idx = sel.iter().position(|x| matches!(x, Src::AwaitFail(_))).unwrap();
            if let Some((gi, _)) = g
                && fail_idx > gi
            {
                return Err(format!(
                    "the subject failed with {e:?}: the failing process is source {fail_idx}, but source {gi} was ready before the select began (priority)"
                ));
            }
            if !format!("{e:?}").contains("Division by zero") {
                return Err(format!("the awaited process failed with a division by zero, but the subject failed with {e:?} (error not propagated unchanged)"));
            }
            return Ok(());
        }
        Ok(HVal::Tuple(None, f)) if f.len() == s.selects.len() + 1 => f,
        Ok(other) => return Err(format!("unexpected result shape {other}")),
    };
    let mut remaining: Vec<i64> = s.preload.iter().map(|x| *x as i64).collect();
    let mut late_unconsumed: Vec<i64> = s.late.iter().enumerate().flat_map(|(i, (c, _))| (0..*c as i64).map(move |j| 100 + 10 * i as i64 + j)).collect();
    let mut min_clock: u64 = 0;
    for (si, sel) in s.selects.iter().enumerate() {
        let v = &fields[si].1;
        let g = first_guaranteed(sel, &remaining);
        let limit = g.as_ref().map(|(i, _)| *i).unwrap_or(sel.len());
        // which source does the observed value come from?
        let got: Option<i64> = match v {
            x if x.is_nil() => None,
            HVal::Int(i) => Some(i.to_i64().unwrap_or(i64::MIN)),
            HVal::Tuple(Some(n), f) if n == "T" && f.len() == 1 && matches!(&f[0].1, HVal::Int(_)) => match &f[0].1 {
                HVal::Int(i) => Some(64 + i.to_i64().unwrap_or(i64::MIN)),
                _ => None,
            },
            other => return Err(format!("select {si} yielded {other}, which no source can yield (a filter's value instead of the message?)")),
        };
        let mut explained = false;
        let mut why_not = Vec::new();
        for (k, src) in sel.iter().enumerate() {
            if k > limit {
                break;
            }
            let ok = match (src, got) {
                (Src::Timeout(d), None) => {
                    if *d > 0 {
                        min_clock += 0; // accounted below
                    }
                    true
                }
                (Src::AwaitDone(i), Some(x)) => x == 1000 + (*i as i64 % 3),
                (Src::AwaitMaybe(i, _), Some(x)) => x == maybe_value(si, k, *i),
                (Src::RecvInt, Some(x)) => {
                    // earliest int in the mailbox: the first remaining preloaded one, else a late one
                    match remaining.iter().find(|m| !is_tag(**m)) {
                        Some(first) => x == *first,
                        None => late_unconsumed.contains(&x),
                    }
                }
                (Src::RecvFilter(p), Some(x)) => {
                    match remaining.iter().find(|m| !is_tag(**m) && p.holds(**m)) {
                        Some(first) => x == *first,
                        None => late_unconsumed.contains(&x) && p.holds(x),
                    }
                }
                (Src::RecvTag, Some(x)) => remaining.iter().find(|m| is_tag(**m)).is_some_and(|first| x == *first),
                (Src::RecvTagFilter(p), Some(x)) => remaining.iter().find(|m| is_tag(**m) && p.holds(**m - 64)).is_some_and(|first| x == *first),
                _ => false,
            };
            if ok {
                explained = true;
                // account for what was consumed
                if let Some(x) = got {
                    if let Some(pos) = remaining.iter().position(|m| *m == x) {
                        if matches!(src, Src::RecvInt | Src::RecvFilter(_) | Src::RecvTag | Src::RecvTagFilter(_)) {
                            remaining.remove(pos);
                        }
                    } else if let Some(pos) = late_unconsumed.iter().position(|m| *m == x)
                        && matches!(src, Src::RecvInt | Src::RecvFilter(_))
                    {
                        late_unconsumed.remove(pos);
                    }
                } else if let Src::Timeout(d) = src {
                    // nil: the smallest timeout at or before the limit decides the minimum wait
                    let dmin = sel.iter().take(limit + 1).filter_map(|x| if let Src::Timeout(d) = x { Some(*d as u64) } else { None }).min().unwrap_or(*d as u64);
                    min_clock += dmin;
                }
                break;
            } else {
                why_not.push(format!("source {k} ({src:?}) cannot yield it"));
            }
        }
        if !explained {
            let shown = match got {
                None => "[] (a timeout)".to_string(),
                Some(x) => x.to_string(),
            };
            return Err(match &g {
                Some((gi, gv)) => format!(
                    "select {si} yielded {shown}; source {gi} ({:?}) was ready before the select began{} and no earlier source can explain the result: {}",
                    sel[*gi],
                    gv.map(|x| format!(" (it yields {x})")).unwrap_or_default(),
                    why_not.join("; ")
                ),
                None => format!("select {si} yielded {shown}, which none of its sources can yield: {}", why_not.join("; ")),
            });
        }
    }
    // leftovers: remaining preloaded messages, in order, must come first (the list is consed in reverse)
    let mut left = Vec::new();
    let mut cur = &fields[s.selects.len()].1;
    loop {
        match cur {
            HVal::Tuple(Some(n), f) if n == "Nil" && f.is_empty() => break,
            HVal::Tuple(Some(n), f) if n == "Cons" && f.len() == 2 => {
                match &f[0].1 {
                    HVal::Int(i) => left.push(i.to_i64().unwrap_or(i64::MIN)),
                    HVal::Tuple(Some(n), tf) if n == "T" && tf.len() == 1 => {
                        if let HVal::Int(i) = &tf[0].1 {
                            left.push(64 + i.to_i64().unwrap_or(i64::MIN));
                        }
                    }
                    other => return Err(format!("unexpected item {other} in the drained mailbox")),
                }
                cur = &f[1].1;
            }
            other => return Err(format!("leftover list malformed: {other}")),
        }
    }
    left.reverse();
    if left.len() < remaining.len() || left[..remaining.len()] != remaining[..] {
        return Err(format!("messages not taken must stay in the mailbox in their original order: expected the drain to start with {remaining:?}, got {left:?}"));
    }
    let mut seen = std::collections::HashSet::new();
    for x in &left[remaining.len()..] {
        if !late_unconsumed.contains(x) || !seen.insert(*x) {
            return Err(format!("drained message {x} was never sent, was already taken by a select, or appears twice (drain {left:?})"));
        }
    }
    if clock < min_clock {
        return Err(format!("timeouts that fired add up to at least {min_clock} ms, but only {clock} ms of virtual time passed (a timeout fired early)"));
    }
    Ok(())
}

/// First source (in written order) guaranteed ready before the select begins, with its value.
fn first_guaranteed(sel: &[Src], remaining: &[i64]) -> Option<(usize, Option<i64>)> {
    for (k, src) in sel.iter().enumerate() {
        let r = match src {
            Src::AwaitDone(i) => Ready::Now(Some(1000 + (*i as i64 % 3))),
            Src::AwaitNever | Src::RecvBin => Ready::Never,
            Src::AwaitMaybe(..) | Src::AwaitFail(_) => Ready::Maybe,
            Src::RecvInt => match remaining.iter().find(|m| !is_tag(**m)) {
                Some(x) => Ready::Now(Some(*x)),
                None => Ready::Maybe,
            },
            Src::RecvFilter(p) => match remaining.iter().find(|m| !is_tag(**m) && p.holds(**m)) {
                Some(x) => Ready::Now(Some(*x)),
                None => Ready::Maybe,
            },
            // nobody sends T messages later, so a tag source is either ready now or never
            Src::RecvTag => match remaining.iter().find(|m| is_tag(**m)) {
                Some(x) => Ready::Now(Some(*x)),
                None => Ready::Never,
            },
            Src::RecvTagFilter(p) => match remaining.iter().find(|m| is_tag(**m) && p.holds(**m - 64)) {
                Some(x) => Ready::Now(Some(*x)),
                None => Ready::Never,
            },
            // The statement bounds a timeout only from below ("no earlier than its duration after the
            // select started waiting"), so even a zero timeout is never *guaranteed* ready.
            Src::Timeout(_) => Ready::Maybe,
        };
        if let Ready::Now(v) = r {
            return Some((k, v));
        }
    }
    None
}

/// Will some source certainly become ready eventually (so the scenario terminates)?
fn terminates(s: &Scn) -> bool {
    let mut remaining: Vec<i64> = s.preload.iter().map(|x| *x as i64).collect();
    for sel in &s.selects {
        let sure = first_guaranteed(sel, &remaining).is_some() || sel.iter().any(|x| matches!(x, Src::Timeout(_) | Src::AwaitMaybe(..) | Src::AwaitFail(_)));
        if !sure {
            return false;
        }
        // conservative model update: unknown which message is taken, so stop predicting readiness of receives
        remaining.clear();
    }
    true
}

pub struct Facts {
    pub runs: u32,
    pub inconclusive: u32,
    pub discarded: bool,
    pub excluded: bool,
}

pub fn check(case: &Case, reg: &qrun::Registry) -> Result<Facts, (String, String)> {
    check_opt(case, reg, false)
}

/// A failing process listed after a source that is ready before the select begins.
pub fn error_preempts(s: &Scn) -> bool {
    if s.selects.len() != 1 {
        return false;
    }
    let sel = &s.selects[0];
    let remaining: Vec<i64> = s.preload.iter().map(|x| *x as i64).collect();
    match (first_guaranteed(sel, &remaining), sel.iter().position(|x| matches!(x, Src::AwaitFail(_)))) {
        (Some((gi, _)), Some(fi)) => fi > gi,
        _ => false,
    }
}

pub fn check_opt(case: &Case, reg: &qrun::Registry, witness: bool) -> Result<Facts, (String, String)> {
    let mut facts = Facts { runs: 0, inconclusive: 0, discarded: false, excluded: false };
    if !terminates(&case.scn) {
        facts.discarded = true;
        return Ok(facts);
    }
    if !witness && error_preempts(&case.scn) {
        // recorded finding witness:error-preempts-ready-source — excluded by construction
        facts.excluded = true;
        return Ok(facts);
    }
    let src = render(&case.scn);
    let c = match catch(|| qrun::compile(&src, &qrun::Modules::new(), reg)) {
        Ok(Ok(c)) => c,
        Ok(Err(e)) => return Err(("generator-rejected".into(), format!("generated program does not compile: {e:?}\n{src}"))),
        Err(p) => return Err(("compile-panic".into(), format!("compiler panicked: {p}"))),
    };
    let bc = c.program.to_bytecode(c.entry);
    const SLOW: [u8; 8] = [0, 0, 1, 2, 4, 8, 16, 32];
    let mut cfgs: Vec<(usize, usize, Vec<u8>, u8)> = vec![(1, 1000, vec![], 0), (2, 1, vec![], 0), (2, 64, vec![], 8), (3, 7, vec![], 16)];
    cfgs.extend(case.cfgs.iter().map(|(w, qi, s)| (*w as usize, QUANTA[*qi as usize % QUANTA.len()], s.clone(), SLOW[(*qi as usize / 6) % 8])));
    for (workers, q, schedule, env_slow) in cfgs {
        // the subject (pid 0) lives on worker 0, which always runs 1-instruction slices
        let mut quanta = vec![q; workers];
        quanta[0] = 1;
        let run = sim::run_program(&bc, SimCfg { workers, quanta, schedule: schedule.clone(), max_moves: 2_000_000, env_slow }, reg, None, |_, _| Ok(()));
        facts.runs += 1;
        let desc = format!("workers={workers} quantum={q} (subject's worker: 1) env_slow={env_slow} schedule={}", hex(&schedule));
        let tail = |run: &sim::ProgRun| format!("--- scenario ---\n{}\n--- trace tail ---\n{}", &src[PRELUDE.len()..], {
            let verbose = std::env::var("QV_TRACE").is_ok();
            let lines: Vec<String> = run.trace.iter().filter(|l| !verbose || !l.starts_with("-- ")).cloned().collect();
            let n = if verbose { 400 } else { 60 };
            lines[lines.len().saturating_sub(n)..].join("\n")
        });
        match &run.end {
            SimEnd::Done => {}
            SimEnd::Budget => {
                facts.inconclusive += 1;
                continue;
            }
            SimEnd::Quiescent => {
                return Err(("select-never-completes".into(), format!("{desc}: the system became idle while the subject is still blocked in a select that has a ready source\n{}", tail(&run))));
            }
            other => return Err((format!("run:{}", end_kind(other)), format!("{desc}: run ended in {other:?}\n{}", tail(&run)))),
        }
        let Some(result) = &run.result else {
            return Err(("bad-result".into(), format!("{desc}: no entry result\n{}", tail(&run))));
        };
        if let Err(m) = judge(&case.scn, result, run.clock) {
            let kind = if m.contains("priority") || m.contains("was ready before") {
                "priority"
            } else if m.contains("original order") || m.contains("drained") {
                "mailbox"
            } else if m.contains("fired early") {
                "timeout"
            } else if m.contains("propagated") || m.contains("failed") {
                "error-propagation"
            } else {
                "validity"
            };
            return Err((format!("select:{kind}"), format!("{desc}: {m}\nresult: {}\n{}", match result { Ok(v) => v.to_string(), Err(e) => format!("ERR {e:?}") }, tail(&run))));
        }
    }
    Ok(facts)
}

pub fn run(ctx: &Ctx) -> i32 {
    let started = Instant::now();
    let stats = Stats::new();
    let known = KnownFindings::load();
    let cases_per_shard: u32 = ctx.tier.pick(150, 5_000);
    let n_cfgs = ctx.tier.pick(8, 24);

    let violations = run_sharded(ctx.shards, |shard| {
        let reg = qrun::registry();
        let mut out = Vec::new();
        let strat = strategy(n_cfgs);
        let seed = derive_seed(ctx.seed, ctx.id, shard, 0);
        let res = pt_search(seed, cases_per_shard, &strat, &stats, |case| match check(case, &reg) {
            Ok(f) => {
                if f.discarded {
                    stats.discard();
                    return Ok(());
                }
                if f.excluded {
                    stats.class("excluded:error-preempts-ready-source");
                    return Ok(());
                }
                stats.evals(f.runs as u64);
                for _ in 0..f.inconclusive {
                    stats.inconclusive();
                }
                let mut kinds = std::collections::BTreeSet::new();
                let mut raced = false;
                for sel in &case.scn.selects {
                    for s in sel {
                        kinds.insert(match s {
                            Src::AwaitDone(_) | Src::AwaitNever | Src::AwaitMaybe(..) | Src::AwaitFail(_) => "await",
                            Src::RecvInt | Src::RecvBin | Src::RecvTag => "receive",
                            Src::RecvTagFilter(_) => "filter",
                            Src::RecvFilter(_) => "filter",
                            Src::Timeout(_) => "timeout",
                        });
                        match s {
                            Src::AwaitDone(_) => stats.class("source:finished-before-select"),
                            Src::AwaitMaybe(..) => {
                                raced = true;
                                stats.class("source:process-finishing-during-select")
                            }
                            Src::AwaitFail(_) => stats.class("source:failing-process"),
                            Src::RecvInt if case.scn.forms & 2 != 0 => stats.class("source:builtin-as-receiver"),
                            Src::RecvBin if case.scn.forms & 1 != 0 => stats.class("source:builtin-as-receiver"),
                            Src::RecvFilter(Pred::AlwaysValue) => stats.class("filter-evaluates-to-a-value"),
                            Src::RecvFilter(_) => stats.class("source:filter"),
                            Src::RecvTagFilter(_) => stats.class("source:filter-skipping-other-typed-messages"),
                            Src::Timeout(0) => stats.class("source:zero-timeout"),
                            Src::Timeout(_) => {
                                raced = true;
                                stats.class("source:positive-timeout")
                            }
                            _ => {}
                        }
                    }
                }
                if !case.scn.late.is_empty() {
                    raced = true;
                    stats.class("late-senders");
                }
                if kinds.len() >= 2 && raced {
                    let src = render(&case.scn);
                    stats.nontrivial(&src);
                    stats.sample(|| json!({"scenario": truncate(&src[PRELUDE.len()..], 500), "runs": f.runs}));
                }
                Ok(())
            }
            Err((sig, msg)) => {
                if !ctx.strict && known.is_known(ctx.id, &sig).is_some() {
                    stats.known_hit(&sig);
                    return Ok(());
                }
                Err(format!("{sig}\u{1}{msg}"))
            }
        });
        if let Search::Failed { minimal, message } = res {
            let (sig, msg) = message.split_once('\u{1}').map(|(a, b)| (a.to_string(), b.to_string())).unwrap_or((message.clone(), message));
            out.push(Violation {
                signature: sig,
                summary: truncate(&msg, 7000),
                replay: json!({"kind": "c05", "scenario": scn_to_json(&minimal.scn), "source": render(&minimal.scn),
                    "cfgs": minimal.cfgs.iter().map(|(w, q, s)| json!({"workers": w, "qbyte": q, "schedule": hex(s)})).collect::<Vec<_>>()}),
            });
        }
        out
    });

    let mut violations = violations;
    {
        let reg = qrun::registry();
        for e in known.known_for(ctx.id) {
            if e.signature == "witness:error-preempts-ready-source" {
                let scn = Scn { preload: vec![0], selects: vec![vec![Src::RecvInt, Src::AwaitFail(0)]], late: vec![], forms: 0 };
                match check_opt(&Case { scn, cfgs: vec![] }, &reg, true) {
                    Err((sig, _)) if sig == "select:priority" => stats.known_hit(&e.signature),
                    Err((sig, msg)) => violations.push(Violation { signature: sig, summary: msg, replay: json!({"kind": "c05"}) }),
                    Ok(_) => println!("NOTE: known finding {} no longer reproduces", e.signature),
                }
            }
        }
    }
    finish(Report {
        ctx,
        stats: &stats,
        violations,
        rule: "a subject process preloads its mailbox behind a marker it then receives, awaits some processes, and runs 1-3 selects whose 1-4 sources are drawn from: a process finished before the select, a process that never finishes, a process finishing during the select, a failing process, a typed receive, a receive with a filter (>c, =c, even, never, always, always-with-a-value), a receive of a never-sent type, a zero or positive timeout; late senders add racing messages; afterwards the subject drains its mailbox; each scenario runs under 10 configurations with the subject's worker at 1-instruction slices; judged by construction: the result must come from a source at or before the first one that was ready before the select began, be the earliest accepted message, leave untaken messages in order, fire timeouts no earlier than their duration, and propagate a failing process's error unchanged; evaluations = simulator runs; non-trivial = >= 2 source kinds and a racing source; distinct by scenario text".into(),
        assumptions: vec![
            "readiness before a select begins is established causally (an earlier await by the subject itself; per-channel FIFO behind a marker), never by timing".into(),
            "sources that become ready concurrently during the select impose no order among themselves (the inherent race); the oracle only forbids results from sources after the first one ready at the start".into(),
            "scenarios in which no source is certain to become ready are discarded (they would hang by design)".into(),
        ],
        required_classes: vec!["source:finished-before-select", "source:process-finishing-during-select", "source:failing-process", "source:filter", "source:filter-skipping-other-typed-messages", "filter-evaluates-to-a-value", "source:zero-timeout", "source:positive-timeout", "late-senders"],
        started,
        technique: "proptest-generated select scenarios x schedules in the deterministic simulator; oracle = construction-based reference model of select (causally guaranteed readiness)",
    })
}

fn scn_to_json(s: &Scn) -> serde_json::Value {
    let src = |x: &Src| match x {
        Src::AwaitDone(i) => json!({"done": i}),
        Src::AwaitNever => json!("never"),
        Src::AwaitMaybe(i, w) => json!({"maybe": [i, w]}),
        Src::AwaitFail(w) => json!({"fail": w}),
        Src::RecvInt => json!("int"),
        Src::RecvTag => json!("tag"),
        Src::RecvTagFilter(p) => json!({"tagfilter": format!("{p:?}")}),
        Src::RecvBin => json!("bin"),
        Src::Timeout(d) => json!({"timeout": d}),
        Src::RecvFilter(p) => match p {
            Pred::Gt(c) => json!({"gt": c}),
            Pred::Eq(c) => json!({"eq": c}),
            Pred::Even => json!("even"),
            Pred::Never => json!("fnever"),
            Pred::Always => json!("always"),
            Pred::AlwaysValue => json!("alwaysvalue"),
        },
    };
    json!({"preload": s.preload, "forms": s.forms, "late": s.late.iter().map(|(c, g)| json!([c, g])).collect::<Vec<_>>(), "selects": s.selects.iter().map(|sel| sel.iter().map(src).collect::<Vec<_>>()).collect::<Vec<_>>()})
}

fn scn_from_json(j: &serde_json::Value) -> Option<Scn> {
    let src = |x: &serde_json::Value| -> Option<Src> {
        if let Some(s) = x.as_str() {
            return Some(match s {
                "never" => Src::AwaitNever,
                "int" => Src::RecvInt,
                "tag" => Src::RecvTag,
                "bin" => Src::RecvBin,
                "even" => Src::RecvFilter(Pred::Even),
                "fnever" => Src::RecvFilter(Pred::Never),
                "always" => Src::RecvFilter(Pred::Always),
                _ => Src::RecvFilter(Pred::AlwaysValue),
            });
        }
        if let Some(v) = x.get("tagfilter") {
            let t = v.as_str()?;
            let num = |t: &str| t.trim_matches(|c: char| !c.is_ascii_digit() && c != '-').parse::<i8>().ok();
            return Some(Src::RecvTagFilter(if t.starts_with("Gt") {
                Pred::Gt(num(t)?)
            } else if t.starts_with("Eq") {
                Pred::Eq(num(t)?)
            } else if t == "Even" {
                Pred::Even
            } else if t == "Never" {
                Pred::Never
            } else if t == "Always" {
                Pred::Always
            } else {
                Pred::AlwaysValue
            }));
        }
        if let Some(v) = x.get("done") {
            return Some(Src::AwaitDone(v.as_u64()? as u8));
        }
        if let Some(v) = x.get("maybe") {
            return Some(Src::AwaitMaybe(v[0].as_u64()? as u8, v[1].as_u64()? as u16));
        }
        if let Some(v) = x.get("fail") {
            return Some(Src::AwaitFail(v.as_u64()? as u16));
        }
        if let Some(v) = x.get("timeout") {
            return Some(Src::Timeout(v.as_u64()? as u8));
        }
        if let Some(v) = x.get("gt") {
            return Some(Src::RecvFilter(Pred::Gt(v.as_i64()? as i8)));
        }
        if let Some(v) = x.get("eq") {
            return Some(Src::RecvFilter(Pred::Eq(v.as_i64()? as i8)));
        }
        None
    };
    Some(Scn {
        forms: j["forms"].as_u64().unwrap_or(0) as u8,
        preload: j["preload"].as_array()?.iter().filter_map(|x| x.as_i64().map(|v| v as i8)).collect(),
        late: j["late"].as_array()?.iter().filter_map(|x| Some((x[0].as_u64()? as u8, x[1].as_u64()? as u16))).collect(),
        selects: j["selects"].as_array()?.iter().map(|sel| sel.as_array().map(|a| a.iter().filter_map(src).collect()).unwrap_or_default()).collect(),
    })
}

pub fn replay(payload: &serde_json::Value) -> Result<(), String> {
    let scn = scn_from_json(&payload["scenario"]).ok_or("bad scenario")?;
    let cfgs = payload["cfgs"].as_array().cloned().unwrap_or_default().iter().map(|c| {
        (c["workers"].as_u64().unwrap_or(1) as u8, c["qbyte"].as_u64().unwrap_or(5) as u8, unhex(c["schedule"].as_str().unwrap_or("")))
    }).collect();
    let reg = qrun::registry();
    match check(&Case { scn, cfgs }, &reg) {
        Ok(_) => Ok(()),
        Err((sig, msg)) => Err(format!("{sig}: {}", truncate(&msg, if std::env::var("QV_TRACE").is_ok() { 60000 } else { 4000 }))),
    }
}
