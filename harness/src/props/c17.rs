//! C17 — formatting is a fixpoint and preserves the program and its comments.

use crate::corpus;
use crate::fw::*;
use crate::props::c18::tokenize;
use crate::qrun;
use proptest::prelude::*;
use quiver_compiler::simplify::{Options, normalize_blocks};
use serde_json::json;
use std::sync::Arc;
use std::time::Instant;

#[derive(Clone, Debug)]
pub enum Edit {
    Comment { pos: u16, id: u8, style: u8 },
    Ws { pos: u16, kind: u8 },
    Rename { which: u16, extra: u8 },
    Blank { pos: u16, n: u8 },
    WrapBlock { pos: u16 },
    /// Comment attached to an AST anchor (sequence step, tuple field, type alias): own-line before
    /// it, or trailing after it.
    AnchorComment { anchor: u16, before: bool, id: u8, style: u8 },
    /// Blank line(s) before an AST anchor.
    AnchorBlank { anchor: u16, n: u8 },
    /// Conventional placement: an own-line comment directly above an anchor that starts its line
    /// (no-op when the chosen anchor does not start a line). Judged strictly.
    LineComment { anchor: u16, id: u8, style: u8 },
    /// Conventional placement: a trailing comment at the end of a line whose code ends with an
    /// anchor (no-op otherwise). `tight` omits the space before `//`. Judged strictly.
    TrailComment { anchor: u16, id: u8, tight: bool },
    /// Insert an escape sequence or special character inside a string literal.
    StringPoke { pos: u16, kind: u8 },
}

impl Edit {
    pub fn is_loose_trivia(&self) -> bool {
        matches!(self, Edit::Comment { .. } | Edit::Blank { .. } | Edit::AnchorComment { .. } | Edit::AnchorBlank { .. })
            || matches!(self, Edit::Ws { kind, .. } if WS_VARIANTS[(*kind as usize) % WS_VARIANTS.len()].contains("\n\n"))
    }
}

#[derive(Clone, Debug)]
pub struct Gen {
    pub base: u16,
    pub edits: Vec<Edit>,
}

pub fn strategy() -> impl Strategy<Value = Gen> {
    let edit = prop_oneof![
        2 => (any::<u16>(), any::<u8>(), 0u8..6).prop_map(|(pos, id, style)| Edit::Comment { pos, id, style }),
        5 => (any::<u16>(), any::<bool>(), any::<u8>(), 0u8..4).prop_map(|(anchor, before, id, style)| Edit::AnchorComment { anchor, before, id, style }),
        1 => (any::<u16>(), 1u8..3).prop_map(|(anchor, n)| Edit::AnchorBlank { anchor, n }),
        6 => (any::<u16>(), any::<u8>(), 0u8..4).prop_map(|(anchor, id, style)| Edit::LineComment { anchor, id, style }),
        4 => (any::<u16>(), any::<u8>(), any::<bool>()).prop_map(|(anchor, id, tight)| Edit::TrailComment { anchor, id, tight }),
        3 => (any::<u16>(), 0u8..12).prop_map(|(pos, kind)| Edit::StringPoke { pos, kind }),
        3 => (any::<u16>(), 0u8..10).prop_map(|(pos, kind)| Edit::Ws { pos, kind }),
        2 => (any::<u16>(), prop::sample::select(vec![1u8, 5, 20, 30, 36, 40, 45, 50, 60, 90, 100])).prop_map(|(which, extra)| Edit::Rename { which, extra }),
        1 => (any::<u16>(), 1u8..4).prop_map(|(pos, n)| Edit::Blank { pos, n }),
        1 => any::<u16>().prop_map(|pos| Edit::WrapBlock { pos }),
    ];
    (any::<u16>(), prop::collection::vec(edit, 0..5)).prop_map(|(base, edits)| Gen { base, edits })
}

fn idx(i: u16, len: usize) -> usize {
    if len == 0 { 0 } else { ((i as usize) * len) >> 16 }
}

const WS_VARIANTS: &[&str] = &[" ", "\n", ", ", " ~> ", "\n\n", "\n  ", "  ", "\t", "\r\n", ",\n", " \n ~> "];

fn is_ident(t: &str) -> bool {
    let mut c = t.chars();
    matches!(c.next(), Some(ch) if ch.is_ascii_lowercase()) && t.chars().all(|ch| ch.is_ascii_alphanumeric() || ch == '_')
}

pub fn render(g: &Gen, corpus: &[String]) -> String {
    render_opt(g, corpus, false)
}

/// (start, end) byte offsets of every node the formatter attaches trivia to, from the AST spans.
pub fn anchors_of(src: &str) -> Vec<(usize, usize)> {
    use quiver_compiler::ast::*;
    let Ok(Ok(ast)) = catch(|| quiver_compiler::parse(src)) else { return vec![] };
    let mut out: Vec<(usize, usize)> = Vec::new();
    fn seq(s: &Sequence, out: &mut Vec<(usize, usize)>) {
        for c in &s.chains {
            chain(c, out);
        }
    }
    fn chain(c: &Chain, out: &mut Vec<(usize, usize)>) {
        if let Some(sp) = c.span.get() {
            out.push((sp.offset, sp.offset + sp.length));
        }
        for t in &c.terms {
            term(t, out);
        }
    }
    fn expr(e: &Expression, out: &mut Vec<(usize, usize)>) {
        for b in &e.branches {
            seq(&b.condition, out);
            if let Some(c) = &b.consequence {
                seq(c, out);
            }
        }
    }
    fn term(t: &Term, out: &mut Vec<(usize, usize)>) {
        match t {
            Term::Tuple(tp) => {
                for f in &tp.fields {
                    if let Some(sp) = f.span.get() {
                        out.push((sp.offset, sp.offset + sp.length));
                    }
                    if let FieldValue::Chain(c) = &f.value {
                        for t in &c.terms {
                            term(t, out);
                        }
                    }
                }
            }
            Term::Block(e) => expr(e, out),
            Term::Function(f) => {
                if let Some(b) = &f.body {
                    expr(b, out);
                }
            }
            Term::Spawn(inner, _) => term(inner, out),
            _ => {}
        }
    }
    for st in &ast.statements {
        match st {
            Statement::TypeAlias { name_span, .. } => {
                if let Some(sp) = name_span.get() {
                    // only a "before" anchor is meaningful (the statement's end is not recorded in the AST)
                    out.push((sp.offset, sp.offset));
                }
            }
            Statement::Expression(s) => seq(s, &mut out),
        }
    }
    out.retain(|(s, e)| *s <= src.len() && *e <= src.len() && src.is_char_boundary(*s) && src.is_char_boundary(*e));
    out.sort();
    out.dedup();
    out
}

/// Byte offsets strictly inside string literals (single- and multi-line), outside holes.
pub fn string_interior_offsets(src: &str) -> Vec<usize> {
    let mut out = Vec::new();
    let b = src.as_bytes();
    let mut i = 0;
    while i < b.len() {
        if b[i] == b'/' && i + 1 < b.len() && b[i + 1] == b'/' {
            while i < b.len() && b[i] != b'\n' {
                i += 1;
            }
            continue;
        }
        if b[i] == b'"' {
            let multi = i + 2 < b.len() && b[i + 1] == b'"' && b[i + 2] == b'"';
            let mut j = if multi { i + 3 } else { i + 1 };
            let mut depth = 0usize;
            loop {
                if j >= b.len() {
                    return out;
                }
                if b[j] == b'\\' {
                    j += 2;
                    continue;
                }
                if depth == 0 {
                    if multi && b[j] == b'"' && j + 2 < b.len() + 0 && b.get(j + 1) == Some(&b'"') && b.get(j + 2) == Some(&b'"') {
                        j += 3;
                        break;
                    }
                    if !multi && b[j] == b'"' {
                        // the end of the string is an insertion point too (twice: an escape as the
                        // last thing before the closing quote is where string scanners go wrong)
                        out.push(j);
                        out.push(j);
                        j += 1;
                        break;
                    }
                    if b[j] == b'{' {
                        depth = 1;
                    } else if src.is_char_boundary(j) {
                        out.push(j);
                    }
                } else if b[j] == b'{' {
                    depth += 1;
                } else if b[j] == b'}' {
                    depth -= 1;
                }
                j += 1;
            }
            i = j;
            continue;
        }
        i += 1;
    }
    out
}

pub fn render_opt(g: &Gen, corpus: &[String], skip_loose: bool) -> String {
    if corpus.is_empty() {
        return String::new();
    }
    // the enumerated function-head zoo sits at the end of the list and is the base of one case in
    // eight; the harvested programs stay the base of the rest
    let zoo = ZOO_LEN.load(std::sync::atomic::Ordering::Relaxed).min(corpus.len());
    let harvested = corpus.len() - zoo;
    let mut src = if zoo > 0 && (g.base % 8 == 0 || harvested == 0) { corpus[harvested + idx(g.base, zoo)].clone() } else { corpus[idx(g.base, harvested)].clone() };
    for e in &g.edits {
        if skip_loose && e.is_loose_trivia() {
            continue;
        }
        match e {
            Edit::AnchorComment { anchor, before, id, style } => {
                let anchors = anchors_of(&src);
                if anchors.is_empty() {
                    continue;
                }
                let (start, end) = anchors[idx(*anchor, anchors.len())];
                let body = match style {
                    0 => format!("// c{id}"),
                    1 => format!("//c{id}"),
                    2 => format!("// c{id} \"q\" {{b}} é"),
                    _ => format!("// c{id}\n// d{id}"),
                };
                if *before {
                    let line_start = src[..start].rfind('\n').map(|i| i + 1).unwrap_or(0);
                    let own_line = src[line_start..start].chars().all(|c| c == ' ' || c == '\t');
                    let ins = if own_line { format!("{body}\n") } else { format!("\n{body}\n") };
                    src.insert_str(start, &ins);
                } else if end <= src.len() && src.is_char_boundary(end) {
                    let body = body.replace('\n', " ");
                    let rest = &src[end..];
                    let eol = rest.chars().take_while(|c| *c == ' ' || *c == '\t').count();
                    let at_eol = rest[eol..].starts_with('\n') || rest[eol..].is_empty();
                    let ins = if at_eol { format!(" {body}") } else { format!(" {body}\n") };
                    src.insert_str(end, &ins);
                }
                continue;
            }
            Edit::LineComment { anchor, id, style } => {
                let anchors: Vec<(usize, usize)> = anchors_of(&src)
                    .into_iter()
                    .filter(|(start, _)| {
                        let ls = src[..*start].rfind('\n').map(|i| i + 1).unwrap_or(0);
                        // not the first step of a consequence (recorded finding: trivia between
                        // `=>` and its consequence)
                        src[ls..*start].chars().all(|c| c == ' ' || c == '\t') && !src[..ls].trim_end().ends_with("=>")
                    })
                    .collect();
                if anchors.is_empty() {
                    continue;
                }
                let (start, _) = anchors[idx(*anchor, anchors.len())];
                let ls = src[..start].rfind('\n').map(|i| i + 1).unwrap_or(0);
                let indent = src[ls..start].to_string();
                let body = match style {
                    0 => format!("// c{id}"),
                    1 => format!("//c{id}"),
                    2 => format!("// c{id} \"q\" {{b}} é"),
                    _ => format!("// c{id}\n{indent}// d{id}"),
                };
                src.insert_str(ls, &format!("{indent}{body}\n"));
                continue;
            }
            Edit::TrailComment { anchor, id, tight } => {
                let anchors: Vec<(usize, usize)> = anchors_of(&src)
                    .into_iter()
                    .filter(|(_, end)| {
                        let rest = &src[*end..];
                        let eol = rest.find('\n').unwrap_or(rest.len());
                        // not between a condition and its `=>` (recorded finding)
                        rest[..eol].chars().all(|c| c == ' ' || c == '\t') && !rest.trim_start().starts_with("=>")
                    })
                    .collect();
                if anchors.is_empty() {
                    continue;
                }
                let (_, end) = anchors[idx(*anchor, anchors.len())];
                let ins = if *tight { format!("// t{id}") } else { format!(" // t{id}") };
                src.insert_str(end, &ins);
                continue;
            }
            Edit::StringPoke { pos, kind } => {
                let spots = string_interior_offsets(&src);
                if spots.is_empty() {
                    continue;
                }
                let at = spots[idx(*pos, spots.len())];
                const POKES: &[&str] = &["\\t", "\\n", "\\s", "\\\\", "\\{", "\\\"", "\t", " ", "é", "\\r", "x", "\\t\\t"];
                src.insert_str(at, POKES[(*kind as usize) % POKES.len()]);
                continue;
            }
            Edit::AnchorBlank { anchor, n } => {
                let anchors = anchors_of(&src);
                if anchors.is_empty() {
                    continue;
                }
                let (start, _) = anchors[idx(*anchor, anchors.len())];
                let line_start = src[..start].rfind('\n').map(|i| i + 1).unwrap_or(0);
                if src[line_start..start].chars().all(|c| c == ' ' || c == '\t') {
                    src.insert_str(line_start, &"\n".repeat(*n as usize));
                } else {
                    src.insert_str(start, &"\n".repeat(*n as usize + 1));
                }
                continue;
            }
            _ => {}
        }
        let toks: Vec<String> = tokenize(&src).into_iter().map(|s| s.to_string()).collect();
        if toks.is_empty() {
            break;
        }
        let mut v = toks.clone();
        match e {
            Edit::Comment { pos, id, style } => {
                let p = idx(*pos, v.len() + 1);
                let text = match style {
                    0 => format!("\n// c{id}\n"),
                    1 => format!(" // c{id}\n"),
                    2 => format!("//c{id}\n"),
                    3 => format!("\n  // c{id} \"quoted\" {{brace}}\n  // d{id}\n"),
                    4 => format!(" // c{id}\r\n"),
                    _ => format!("\n\n// c{id} é\n\n"),
                };
                v.insert(p, text);
            }
            Edit::Ws { pos, kind } => {
                let ws: Vec<usize> = v.iter().enumerate().filter(|(_, t)| t.chars().all(|c| c.is_whitespace())).map(|(i, _)| i).collect();
                if !ws.is_empty() {
                    let i = ws[idx(*pos, ws.len())];
                    v[i] = WS_VARIANTS[(*kind as usize) % WS_VARIANTS.len()].to_string();
                }
            }
            Edit::Rename { which, extra } => {
                let idents: Vec<String> = {
                    let mut s: Vec<String> = v
                        .iter()
                        .enumerate()
                        .filter(|(i, t)| is_ident(t) && (*i == 0 || (v[*i - 1] != "'" && v[*i - 1] != "%" && v[*i - 1] != "/" && !v[*i - 1].ends_with('_'))))
                        .map(|(_, t)| t.clone())
                        .collect();
                    s.sort();
                    s.dedup();
                    s
                };
                if !idents.is_empty() {
                    let target = idents[idx(*which, idents.len())].clone();
                    if !target.starts_with("__") {
                        let new = format!("{target}_{}", "x".repeat(*extra as usize));
                        for (i, t) in toks.iter().enumerate() {
                            if *t == target && (i == 0 || (toks[i - 1] != "'" && toks[i - 1] != "%" && toks[i - 1] != "/")) {
                                v[i] = new.clone();
                            }
                        }
                    }
                }
            }
            Edit::Blank { pos, n } => {
                let p = idx(*pos, v.len() + 1);
                v.insert(p, "\n".repeat(*n as usize + 1));
            }
            Edit::AnchorComment { .. } | Edit::AnchorBlank { .. } | Edit::LineComment { .. } | Edit::TrailComment { .. } | Edit::StringPoke { .. } => {}
            Edit::WrapBlock { pos } => {
                // wrap one non-whitespace token in braces: `{ tok }` (a redundant block when it parses)
                let non_ws: Vec<usize> = v.iter().enumerate().filter(|(_, t)| !t.chars().all(|c| c.is_whitespace())).map(|(i, _)| i).collect();
                if !non_ws.is_empty() {
                    let i = non_ws[idx(*pos, non_ws.len())];
                    // known finding witness:bare-select-block — `{!}` is excluded by construction
                    v[i] = format!("{{ {} }}", v[i]);
                }
            }
        }
        src = v.concat();
    }
    src
}

/// Independent, string-aware comment scanner following the *parser's* definition: a comment
/// runs from `//` (outside any string) to just before the next `\n` or `\r`.
/// Returns None if the source has a shape the scanner does not claim to understand
/// (comment markers inside a string interpolation hole).
pub fn scan_comments(src: &str) -> Option<Vec<String>> {
    #[derive(Clone, Copy, PartialEq)]
    enum Mode {
        Code { depth: usize, in_hole: bool },
        Str,
        Multi,
    }
    let b: Vec<char> = src.chars().collect();
    let mut out = Vec::new();
    let mut stack: Vec<Mode> = vec![Mode::Code { depth: 0, in_hole: false }];
    let mut i = 0;
    while i < b.len() {
        let c = b[i];
        let top = *stack.last().unwrap();
        match top {
            Mode::Code { depth, in_hole } => {
                if c == '/' && i + 1 < b.len() && b[i + 1] == '/' {
                    if stack.len() > 1 {
                        return None; // comment marker inside a string hole: not claimed
                    }
                    let mut j = i + 2;
                    while j < b.len() && b[j] != '\n' && b[j] != '\r' {
                        j += 1;
                    }
                    out.push(b[i + 2..j].iter().collect::<String>().trim().to_string());
                    i = j;
                    continue;
                }
                if c == '"' {
                    if i + 2 < b.len() && b[i + 1] == '"' && b[i + 2] == '"' {
                        stack.push(Mode::Multi);
                        i += 3;
                        continue;
                    }
                    stack.push(Mode::Str);
                    i += 1;
                    continue;
                }
                if c == '{' {
                    let l = stack.len() - 1;
                    stack[l] = Mode::Code { depth: depth + 1, in_hole };
                } else if c == '}' {
                    if depth == 0 {
                        if in_hole {
                            stack.pop();
                        }
                    } else {
                        let l = stack.len() - 1;
                        stack[l] = Mode::Code { depth: depth - 1, in_hole };
                    }
                }
                i += 1;
            }
            Mode::Str => {
                if c == '\\' {
                    i += 2;
                    continue;
                }
                if c == '"' {
                    stack.pop();
                } else if c == '{' {
                    stack.push(Mode::Code { depth: 0, in_hole: true });
                }
                i += 1;
            }
            Mode::Multi => {
                if c == '\\' {
                    // \""" embeds a literal triple quote
                    if i + 3 < b.len() && b[i + 1] == '"' && b[i + 2] == '"' && b[i + 3] == '"' {
                        i += 4;
                    } else {
                        i += 2;
                    }
                    continue;
                }
                if c == '"' && i + 2 < b.len() && b[i + 1] == '"' && b[i + 2] == '"' {
                    stack.pop();
                    i += 3;
                    continue;
                }
                if c == '{' {
                    stack.push(Mode::Code { depth: 0, in_hole: true });
                }
                i += 1;
            }
        }
    }
    Some(out)
}

/// Known finding K-C17-1: a comment inside a bracket pair that holds no node (only whitespace and
/// comments) has nothing to attach to and is emitted after later comments.
pub fn comment_in_empty_brackets(src: &str) -> bool {
    let b: Vec<char> = src.chars().collect();
    let mut i = 0;
    while i < b.len() {
        if matches!(b[i], '[' | '{' | '(') {
            let mut j = i + 1;
            let mut saw_comment = false;
            loop {
                while j < b.len() && b[j].is_whitespace() {
                    j += 1;
                }
                if j + 1 < b.len() && b[j] == '/' && b[j + 1] == '/' {
                    saw_comment = true;
                    while j < b.len() && b[j] != '\n' && b[j] != '\r' {
                        j += 1;
                    }
                    continue;
                }
                break;
            }
            if saw_comment && j < b.len() && matches!(b[j], ']' | '}' | ')') {
                return true;
            }
        }
        i += 1;
    }
    false
}

/// Known finding (generalises comment-in-empty-brackets): a comment whose next non-trivia
/// character is a closing bracket has no following node to attach to inside the brackets.
pub fn comment_before_close_bracket(src: &str) -> bool {
    let b: Vec<char> = src.chars().collect();
    let mut i = 0;
    let mut in_str = false;
    while i < b.len() {
        let c = b[i];
        if in_str {
            if c == '\\' {
                i += 2;
                continue;
            }
            if c == '"' {
                in_str = false;
            }
            i += 1;
            continue;
        }
        if c == '"' {
            in_str = true;
            i += 1;
            continue;
        }
        if c == '/' && i + 1 < b.len() && b[i + 1] == '/' {
            // skip this and following comments/whitespace
            let mut j = i;
            loop {
                while j < b.len() && b[j] != '\n' && b[j] != '\r' {
                    j += 1;
                }
                while j < b.len() && b[j].is_whitespace() {
                    j += 1;
                }
                if j + 1 < b.len() && b[j] == '/' && b[j + 1] == '/' {
                    continue;
                }
                break;
            }
            if j < b.len() && matches!(b[j], ']' | '}' | ')') {
                return true;
            }
            i = j.max(i + 2);
            continue;
        }
        i += 1;
    }
    false
}

/// Known finding: a comment on the same line as, and directly after, an opening bracket.
pub fn trailing_comment_after_open_bracket(src: &str) -> bool {
    let b: Vec<char> = src.chars().collect();
    for i in 0..b.len() {
        if matches!(b[i], '[' | '{' | '(') {
            let mut j = i + 1;
            while j < b.len() && (b[j] == ' ' || b[j] == '\t') {
                j += 1;
            }
            if j + 1 < b.len() && b[j] == '/' && b[j + 1] == '/' {
                return true;
            }
        }
    }
    false
}

pub fn excluded(src: &str) -> Option<&'static str> {
    if comment_in_empty_brackets(src) {
        return Some("excluded:comment-in-empty-brackets");
    }
    if trailing_comment_after_open_bracket(src) {
        return Some("excluded:comment-after-open-bracket");
    }
    if comment_before_close_bracket(src) {
        return Some("excluded:comment-before-close-bracket");
    }
    if string_hole_and_comment(src) {
        return Some("excluded:string-hole-and-comment");
    }
    if let Ok(Ok(ast)) = catch(|| quiver_compiler::parse(src)) {
        if bodyless_fn_then_block(&ast) {
            return Some("excluded:bodyless-fn-then-block");
        }
        let n = normalized(ast);
        if format!("{n:?}").contains("Select(None, Spanned(") && bare_select_then_tuple(&n) {
            return Some("excluded:bare-select-then-tuple");
        }
        // the same finding when the two only become adjacent once a redundant block is removed
        // (`{ # } { … }`)
        if bodyless_fn_then_block(&n) {
            return Some("excluded:bodyless-fn-then-block");
        }
    }
    None
}

/// Known finding: a bare select `!` whose next chain term is a tuple (`! ~> [100]`, `{!} []`) is
/// printed as `! [100]`, the general select form.
pub fn bare_select_then_tuple(p: &quiver_compiler::ast::Program) -> bool {
    use quiver_compiler::ast::*;
    fn seq(s: &Sequence) -> bool {
        s.chains.iter().any(chain)
    }
    fn chain(c: &Chain) -> bool {
        for w in c.terms.windows(2) {
            if matches!(w[0], Term::Select(None, _)) && matches!(w[1], Term::Tuple(_)) {
                return true;
            }
        }
        c.terms.iter().any(term)
    }
    fn expr(e: &Expression) -> bool {
        e.branches.iter().any(|b| seq(&b.condition) || b.consequence.as_ref().is_some_and(seq))
    }
    fn term(t: &Term) -> bool {
        match t {
            Term::Tuple(tp) => tp.fields.iter().any(|f| matches!(&f.value, FieldValue::Chain(c) if chain(c))),
            Term::Block(e) => expr(e),
            Term::Function(f) => f.body.as_ref().is_some_and(expr),
            Term::Spawn(inner, _) => term(inner),
            Term::Select(Some(chains), _) => chains.iter().any(chain),
            Term::String(_, segs) => segs.iter().any(|s| matches!(s, StrSegment::Hole(e) if expr(e))),
            _ => false,
        }
    }
    p.statements.iter().any(|s| matches!(s, Statement::Expression(sq) if seq(sq)))
}

/// Known finding: a body-less function (`#'int`) directly followed by a block — as the next term of
/// the chain (`#T ~> { … }`) or as the next step of the sequence — is printed so that the block
/// re-parses as the function's body.
pub fn bodyless_fn_then_block(p: &quiver_compiler::ast::Program) -> bool {
    use quiver_compiler::ast::*;
    fn is_bodyless(t: &Term) -> bool {
        match t {
            Term::Function(f) => f.body.is_none(),
            Term::Spawn(inner, _) => is_bodyless(inner),
            Term::Select(Some(chains), _) => chains.last().and_then(|c| c.terms.last()).is_some_and(is_bodyless),
            _ => false,
        }
    }
    fn seq(s: &Sequence) -> bool {
        for w in s.chains.windows(2) {
            if w[0].terms.last().is_some_and(is_bodyless) && matches!(w[1].terms.first(), Some(Term::Block(_))) && w[1].match_pattern.is_none() {
                return true;
            }
        }
        s.chains.iter().any(chain)
    }
    fn chain(c: &Chain) -> bool {
        for w in c.terms.windows(2) {
            if is_bodyless(&w[0]) && matches!(w[1], Term::Block(_)) {
                return true;
            }
        }
        c.terms.iter().any(term)
    }
    fn expr(e: &Expression) -> bool {
        e.branches.iter().any(|b| seq(&b.condition) || b.consequence.as_ref().is_some_and(seq))
    }
    fn term(t: &Term) -> bool {
        match t {
            Term::Tuple(tp) => tp.fields.iter().any(|f| matches!(&f.value, FieldValue::Chain(c) if chain(c))),
            Term::Block(e) => expr(e),
            Term::Function(f) => f.body.as_ref().is_some_and(expr),
            Term::Spawn(inner, _) => term(inner),
            Term::Select(Some(chains), _) => chains.iter().any(chain),
            Term::String(_, segs) => segs.iter().any(|s| matches!(s, StrSegment::Hole(e) if expr(e))),
            _ => false,
        }
    }
    p.statements.iter().any(|s| matches!(s, Statement::Expression(sq) if seq(sq)))
}

fn brace_count(s: &str) -> usize {
    s.chars().filter(|c| *c == '{').count()
}

/// `program-changed`, refined to `program-changed:braces-added` when the output has more `{` than
/// the input (recorded finding: grouping braces added around a sprawling branch body are a
/// narrowing barrier, not a no-op).
fn changed_sig(src: &str, out: &str) -> String {
    if brace_count(out) > brace_count(src) { "program-changed:braces-added".into() } else { "program-changed".into() }
}

/// Recorded finding: trivia offsets inside a string interpolation hole collide with top-level
/// offsets, so a comment elsewhere in the file is duplicated into the hole.
pub fn string_hole_and_comment(src: &str) -> bool {
    if !src.contains("//") {
        return false;
    }
    // a `{` inside a string literal (unescaped)
    let b: Vec<char> = src.chars().collect();
    let mut i = 0;
    let mut in_str = false;
    while i < b.len() {
        let c = b[i];
        if in_str {
            if c == '\\' {
                i += 2;
                continue;
            }
            if c == '"' {
                in_str = false;
            } else if c == '{' {
                return true;
            }
        } else if c == '"' {
            in_str = true;
        } else if c == '/' && i + 1 < b.len() && b[i + 1] == '/' {
            while i < b.len() && b[i] != '\n' {
                i += 1;
            }
            continue;
        }
        i += 1;
    }
    false
}

fn normalized(ast: quiver_compiler::ast::Program) -> quiver_compiler::ast::Program {
    normalize_blocks(ast, &Options { keep: &|_| false, lift: true, group_consequences: false })
}

pub struct Facts {
    pub comments: usize,
    pub long_line: bool,
    pub changed: bool,
    pub compiled: bool,
    pub has_string_hole: bool,
    pub max_line: usize,
    pub unjudged_ast: bool,
}

/// Oracle. Ok(None) = input not parseable (discard). Err((signature, message)) = violation.
pub fn check(src: &str, reg: &qrun::Registry) -> Result<Option<Facts>, (String, String)> {
    let ast = match catch(|| quiver_compiler::parse(src)) {
        Ok(Ok(a)) => a,
        _ => return Ok(None),
    };
    let out = match catch(|| quiver_compiler::format_program(&ast, src)) {
        Ok(o) => o,
        Err(p) => return Err(("format-panic".into(), format!("formatter panicked: {p} @ {}", last_panic_loc()))),
    };
    let ast2 = match catch(|| quiver_compiler::parse(&out)) {
        Ok(Ok(a)) => a,
        Ok(Err(e)) => {
            return Err(("output-not-parseable".into(), format!("formatter output is rejected by the parser: {e}\n--- output ---\n{}", truncate(&out, 1500))));
        }
        Err(p) => return Err(("parse-panic-on-output".into(), format!("parser panicked on formatter output: {p}"))),
    };
    let out2 = match catch(|| quiver_compiler::format_program(&ast2, &out)) {
        Ok(o) => o,
        Err(p) => return Err(("format-panic".into(), format!("formatter panicked on its own output: {p} @ {}", last_panic_loc()))),
    };
    if out2 != out {
        return Err((
            "not-a-fixpoint".into(),
            format!("formatting the output again changes it\n--- first ---\n{}\n--- second ---\n{}", truncate(&out, 1200), truncate(&out2, 1200)),
        ));
    }
    let n1 = normalized(ast.clone());
    let n2 = normalized(ast2.clone());
    let ast_differs = n1 != n2;
    // Bytecode identity when the program compiles.
    let mut compiled = false;
    if src.len() < 4000 {
        let c1 = catch(|| qrun::compile_ast(ast.clone(), &qrun::Modules::new(), reg));
        if let Ok(Ok(c1)) = c1 {
            compiled = true;
            match catch(|| qrun::compile_ast(ast2.clone(), &qrun::Modules::new(), reg)) {
                Ok(Ok(c2)) => {
                    let b1 = c1.program.to_bytecode(c1.entry);
                    let b2 = c2.program.to_bytecode(c2.entry);
                    if b1.functions != b2.functions || b1.constants != b2.constants || b1.tuples != b2.tuples || b1.types != b2.types {
                        return Err((changed_sig(src, &out), format!("formatted program compiles to different bytecode\n--- output ---\n{}", truncate(&out, 1500))));
                    }
                }
                Ok(Err(e)) => {
                    return Err((changed_sig(src, &out), format!("input compiles but formatted output does not: {e:?}\n--- output ---\n{}", truncate(&out, 1500))));
                }
                Err(p) => return Err(("compile-panic".into(), format!("compiler panicked on formatted output: {p}"))),
            }
        }
    }
    if ast_differs && !compiled {
        // The two ASTs differ, but the program does not compile, so bytecode cannot adjudicate
        // whether they denote the same program (the grammar has several spellings for some
        // patterns/types). Not judged.
        return Ok(Some(Facts { comments: 0, long_line: false, changed: true, compiled: false, has_string_hole: false, max_line: 0, unjudged_ast: true }));
    }
    // Comments
    let (Some(c_in), Some(c_out)) = (scan_comments(src), scan_comments(&out)) else {
        return Ok(Some(Facts { comments: 0, long_line: false, changed: out != src, compiled, has_string_hole: true, max_line: 0, unjudged_ast: false }));
    };
    if c_in != c_out {
        return Err((
            "comments-changed".into(),
            format!("comments of the input {:?}\ncomments of the output {:?}\n--- output ---\n{}", c_in, c_out, truncate(&out, 1500)),
        ));
    }
    let max_line = out.lines().map(|l| l.chars().count()).max().unwrap_or(0);
    let near = |w: usize| out.lines().any(|l| {
        let n = l.chars().count();
        n + 5 >= w && n <= w + 5
    });
    Ok(Some(Facts {
        comments: c_in.len(),
        long_line: near(40) || near(50) || near(100),
        changed: out != src,
        compiled,
        has_string_hole: src.contains("\"") && src.contains('{'),
        max_line,
        unjudged_ast: false,
    }))
}

fn check_unexcluded(src: &str, reg: &qrun::Registry) -> Result<Option<Facts>, (String, String)> {
    check(src, reg)
}

#[allow(dead_code)]
pub fn minimize(src: &str, sig: &str, reg: &qrun::Registry) -> String {
    let same = |s: &str| excluded(s).is_none() && matches!(check(s, reg), Err((ref g, _)) if g == sig);
    // line-level then char-level ddmin
    let mut cur: Vec<char> = src.chars().collect();
    let mut chunk = cur.len().max(1) / 2;
    let mut iters = 0;
    while chunk >= 1 && iters < 2500 {
        let mut i = 0;
        let mut progressed = false;
        while i < cur.len() && iters < 2500 {
            iters += 1;
            let end = (i + chunk).min(cur.len());
            let cand: String = cur[..i].iter().chain(cur[end..].iter()).collect();
            if same(&cand) {
                cur = cand.chars().collect();
                progressed = true;
            } else {
                i += chunk;
            }
        }
        if chunk == 1 && !progressed {
            break;
        }
        if !progressed || chunk == 1 {
            chunk = (chunk / 2).max(1);
        }
    }
    cur.into_iter().collect()
}

/// Every combination of the optional parts of a function head — spawned or not, generic or not,
/// parameter type, return type, body — as small programs (the ones that parse are formatted like
/// any harvested program and serve as bases for edits). The harvested programs contain only a
/// few of these combinations.
pub static ZOO_LEN: std::sync::atomic::AtomicUsize = std::sync::atomic::AtomicUsize::new(0);

pub fn head_zoo() -> Vec<String> {
    let mut out = Vec::new();
    for spawn in [false, true] {
        for generics in ["", "<'t>"] {
            for (param, arg) in [("", ""), ("'int", "1 "), ("['int, 'bin]", "[1, 0x00] "), ("(x: 'int)", "[x: 1] "), ("'t", "1 ")] {
                for ret in ["", " -> 'int", " -> ('int | [])", " -> 't"] {
                    for body in ["", " { $ }", " { 1 }", " { | =0 => 1 | 2 }", " { x = 1, x }"] {
                        if (param == "'t" || ret == " -> 't") && generics.is_empty() {
                            continue;
                        }
                        let head = format!("#{generics}{param}{ret}{body}");
                        // the last step is a constant, so that the program compiles whenever the
                        // head itself is well-typed (bytecode then adjudicates a changed head)
                        if spawn {
                            out.push(format!("p = {arg}@{head}, 0"));
                            out.push(format!("q = {arg}@{head}\n// after\n0"));
                        } else {
                            out.push(format!("f = {head}, 0"));
                            if !arg.is_empty() && !body.is_empty() {
                                out.push(format!("f = {head}, {arg}f"));
                            }
                        }
                    }
                }
            }
        }
    }
    out
}

pub fn run(ctx: &Ctx) -> i32 {
    let started = Instant::now();
    let stats = Stats::new();
    let mut all = corpus::all_sources();
    let zoo = head_zoo();
    stats.note("function_head_zoo_programs", json!(zoo.len()));
    ZOO_LEN.store(zoo.len(), std::sync::atomic::Ordering::Relaxed);
    all.extend(zoo);
    let corpus: Arc<Vec<String>> = Arc::new(all);
    stats.note("corpus_programs", json!(corpus.len()));
    let cases_per_shard: u32 = ctx.tier.pick(2_000, 80_000);
    let known = KnownFindings::load();

    let violations = run_sharded(ctx.shards, |shard| {
        let reg = qrun::registry();
        let mut out = Vec::new();
        // the unmodified corpus (split across shards)
        for (i, src) in corpus.iter().enumerate() {
            if i % ctx.shards != shard {
                continue;
            }
            if let Some(c) = excluded(src) {
                stats.class(c);
                continue;
            }
            stats.eval();
            match check(src, &reg) {
                Ok(None) => stats.discard(),
                Ok(Some(f)) => {
                    stats.class("corpus:formatted");
                    if f.comments > 0 {
                        stats.class("corpus:with-comments");
                    }
                }
                Err((sig, msg)) => {
                    if !ctx.strict && known.is_known(ctx.id, &sig).is_some() {
                        stats.known_hit(&sig);
                        continue;
                    }
                    let min = src.clone();
                    out.push(Violation { signature: format!("corpus:{sig}"), summary: format!("{msg}\n--- input (unmodified harvested program #{i}) ---\n{}", truncate(&min, 1500)), replay: json!({"kind": "c17", "input": min}) });
                }
            }
        }
        let strat = strategy();
        let seed = derive_seed(ctx.seed, ctx.id, shard, 0);
        let res = pt_search(seed, cases_per_shard, &strat, &stats, |g| {
            let src = render(g, &corpus);
            if src.len() > 6000 {
                stats.discard();
                return Ok(());
            }
            if let Some(c) = excluded(&src) {
                stats.class(c);
                return Ok(());
            }
            stats.eval();
            match check(&src, &reg) {
                Ok(None) => {
                    stats.discard();
                    Ok(())
                }
                Ok(Some(f)) => {
                    stats.class("formatted");
                    if f.unjudged_ast {
                        stats.class("unjudged:ast-differs-but-not-compilable");
                    }
                    if g.edits.iter().any(|e| matches!(e, Edit::LineComment { .. })) {
                        stats.class("line-comment-edit");
                    }
                    if g.edits.iter().any(|e| matches!(e, Edit::TrailComment { .. })) {
                        stats.class("trailing-comment-edit");
                    }
                    if g.edits.iter().any(|e| matches!(e, Edit::StringPoke { .. })) {
                        stats.class("string-poke-edit");
                    }
                    if g.edits.iter().any(|e| e.is_loose_trivia()) {
                        stats.class("loose-trivia-edit");
                    }
                    if f.comments > 0 {
                        stats.class("with-comments");
                    }
                    if f.long_line {
                        stats.class("line-near-threshold");
                    }
                    if f.changed {
                        stats.class("output-differs-from-input");
                    }
                    if f.compiled {
                        stats.class("bytecode-compared");
                    }
                    if f.max_line > 100 {
                        stats.class("line>100");
                    }
                    if f.comments > 0 && (f.long_line || f.has_string_hole || g.edits.iter().any(|e| matches!(e, Edit::WrapBlock { .. }))) {
                        stats.nontrivial(&src);
                        stats.sample(|| json!({"input": truncate(&src, 300), "comments": f.comments, "max_line": f.max_line}));
                    }
                    Ok(())
                }
                Err((sig, msg)) => {
                    if !ctx.strict && known.is_known(ctx.id, &sig).is_some() {
                        stats.known_hit(&sig);
                        return Ok(());
                    }
                    // Known findings about trivia placement (see known_findings.json): a failing case is
                    // attributed to them iff it has unconventionally placed trivia edits (anything but
                    // an own-line comment above a line-starting step) and passes without them.
                    if !ctx.strict
                        && g.edits.iter().any(|e| e.is_loose_trivia())
                        && known.is_known(ctx.id, "witness:trivia-at-non-anchor").is_some()
                    {
                        let without = render_opt(g, &corpus, true);
                        if excluded(&without).is_some() || !matches!(check(&without, &reg), Err(_)) {
                            stats.known_hit("witness:trivia-at-non-anchor");
                            stats.class(&format!("tolerated:loose-trivia:{sig}"));
                            return Ok(());
                        }
                    }
                    Err(format!("{sig}\u{1}{msg}"))
                }
            }
        });
        if let Search::Failed { minimal, message } = res {
            let src = render(&minimal, &corpus);
            let (sig, msg) = message.split_once('\u{1}').map(|(a, b)| (a.to_string(), b.to_string())).unwrap_or((message.clone(), message));
            // No string-level minimisation here: it would wander into the territory of the recorded
            // trivia findings. proptest has already shrunk the edit script.
            let min = src.clone();
            let msg2 = check(&min, &reg).err().map(|e| e.1).unwrap_or(msg);
            out.push(Violation { signature: sig, summary: format!("{msg2}\n--- input ---\n{}", truncate(&min, 1500)), replay: json!({"kind": "c17", "input": min}) });
        }
        out
    });

    let mut violations = violations;
    {
        let reg = qrun::registry();
        for e in known.known_for(ctx.id) {
            let w = match e.signature.as_str() {
                "witness:comment-in-empty-brackets" => Some(("[//y\n]//", "comments-changed")),
                "witness:trivia-at-non-anchor" => Some(("a//\n,//", "comments-changed")),
                "witness:blank-line-before-consequence" => Some(("f = #(){=()=>\n\n=A|X}", "program-changed")),
                "witness:comment-after-open-bracket" => Some(("[//p\nx]//", "comments-changed")),
                "witness:bare-select-block" => Some(("fast = {2},fast {!} []", "program-changed")),
                "witness:comment-duplicated-into-string-hole" => Some(("// c10\n\"\"\"\n  \\{ {[\"p\", \"q\"] %str.concat}\n  \"\"\"", "not-a-fixpoint")),
                "witness:bodyless-fn-then-block" => Some(("#[a: 'int] ~> { =(a) => a } =f, [a: 1] f", "program-changed")),
                _ => None,
            };
            if let Some((w, expect)) = w {
                match check_unexcluded(w, &reg) {
                    Err((sig, _)) if sig == expect => stats.known_hit(&e.signature),
                    Err((sig, msg)) => violations.push(Violation { signature: sig, summary: format!("{msg}\n--- input ---\n{w}"), replay: json!({"kind": "c17", "input": w}) }),
                    Ok(_) => println!("NOTE: known finding {} no longer reproduces", e.signature),
                }
            }
        }
    }
    finish(Report {
        ctx,
        stats: &stats,
        violations,
        rule: "inputs: every harvested program, and those programs under 0-4 generated edits (comment insertion at any token boundary in 6 styles incl. CRLF, whitespace/separator substitution incl. `~>`/comma/newline/CR, consistent identifier lengthening across the 40/50/100-column thresholds, blank-line runs, wrapping a token in a redundant block); unparseable results are discarded; non-trivial = at least one comment and (a line within 5 columns of a width threshold, or a string with a hole, or an inserted redundant block); distinct by input text".into(),
        assumptions: vec![
            "comments are recognised by an independent string-aware scanner that follows the parser's definition (`//` to the next LF or CR, outside strings); sources with `//` inside a string interpolation hole are not judged for comments".into(),
            "'same program' = equal ASTs after simplify::normalize_blocks(keep: never, lift: true) and, when the input compiles with the embedded std, identical functions/constants/tuples/types".into(),
        ],
        required_classes: vec!["formatted", "with-comments", "line-near-threshold", "bytecode-compared", "output-differs-from-input"],
        started,
        technique: "proptest edit scripts over harvested programs and an enumerated zoo of function heads; oracle = parse/format round trip (fixpoint), AST+bytecode equality, independent comment scanner",
    })
}

pub fn replay(payload: &serde_json::Value) -> Result<(), String> {
    let src = payload["input"].as_str().ok_or("missing input")?;
    let reg = qrun::registry();
    match check(src, &reg) {
        Ok(None) => {
            println!("  input does not parse (outside the property's domain)");
            Ok(())
        }
        Ok(Some(_)) => Ok(()),
        Err((sig, msg)) => Err(format!("{sig}: {msg}")),
    }
}
