//! C14 — a resource is usable only by its single owner and is closed exactly once.

use crate::fw::*;
use crate::mockfs::{LogEntry, MockBackend, Shared};
use crate::props::c03::{QUANTA, end_kind};
use crate::qrun;
use crate::sim::{self, Move, SimCfg, SimEnd};
use proptest::prelude::*;
use serde_json::json;
use std::collections::BTreeMap;
use std::sync::atomic::AtomicUsize;
use std::sync::{Arc, Mutex};
use std::time::Instant;

#[derive(Clone, Debug, PartialEq)]
pub enum Transfer {
    /// the creator keeps the handle until it terminates
    Keep,
    MsgBare,
    MsgTuple,
    SpawnArg,
    SpawnCapture,
    /// spawn argument is a tuple that holds the handle
    SpawnArgTuple,
    /// the spawned closure captures a tuple that holds the handle
    SpawnCaptureNested,
    /// sent to a process that never receives it (stays in its mailbox)
    MailboxLeftover,
    /// the creator's result is the handle; another process awaits it and tries to use it
    ResultHandle,
}

#[derive(Clone, Debug)]
pub struct ResScn {
    pub transfer: Transfer,
    /// the former owner tries to use the handle after giving it away
    pub illegal_after: bool,
    pub creator_awaited: bool,
    pub recipient_awaited: bool,
    /// the final owner closes the handle itself before terminating
    pub explicit_close: bool,
    /// the final owner fails with a runtime error while it still owns the handle (a dedicated
    /// awaiter process awaits it instead of the entry process)
    pub owner_fails: bool,
    /// busy work (loop iterations) in creator / recipient
    pub work: (u16, u16),
}

#[derive(Clone, Debug)]
pub struct Scn {
    pub res: Vec<ResScn>,
    pub defer_every: u8,
    pub defer_for: u8,
}

#[derive(Clone, Debug)]
pub struct Case {
    pub scn: Scn,
    pub cfgs: Vec<(u8, u8, Vec<u8>)>,
}

pub fn strategy(n_cfgs: usize) -> impl Strategy<Value = Case> {
    let work = prop_oneof![3 => 0u16..20, 1 => 20u16..400];
    let transfer = prop::sample::select(vec![Transfer::Keep, Transfer::MsgBare, Transfer::MsgTuple, Transfer::SpawnArg, Transfer::SpawnCapture, Transfer::SpawnArgTuple, Transfer::SpawnCaptureNested, Transfer::MailboxLeftover, Transfer::ResultHandle]);
    let res = (transfer, any::<bool>(), prop::bool::weighted(0.8), prop::bool::weighted(0.8), prop::bool::weighted(0.2), prop::bool::weighted(0.25), (work.clone(), work)).prop_map(
        |(transfer, illegal_after, creator_awaited, recipient_awaited, explicit_close, owner_fails, work)| ResScn { transfer, illegal_after, creator_awaited, recipient_awaited, explicit_close: explicit_close && !owner_fails, owner_fails, work },
    );
    let scn = (prop::collection::vec(res, 1..4), 0u8..4, 0u8..5).prop_map(|(res, defer_every, defer_for)| Scn { res, defer_every, defer_for });
    let cfg = (1u8..=4, 0u8..48, prop::collection::vec(any::<u8>(), 0..200));
    (scn, prop::collection::vec(cfg, n_cfgs)).prop_map(|(scn, cfgs)| Case { scn, cfgs })
}

const PRELUDE: &str = "\
loop = #['int, 'int] { =[n, acc], { | [n, 0] __integer_compare__ =0 => acc | [[n, 1] __integer_subtract__, [acc, n] __integer_add__] ^ } },
w = #'int { [~, 0] loop }";

fn tag(role: char, i: usize) -> String {
    format!("0x{:02x}{:02x}", role as u8, i as u8)
}

/// Offsets identify each use: 10*i + k for legal uses of resource i, 1000 + 10*i + k for illegal.
pub fn render(s: &Scn) -> String {
    let mut lines = vec![PRELUDE.to_string()];
    let mut result_fields: Vec<String> = Vec::new();
    for (i, r) in s.res.iter().enumerate() {
        let (cw, rw) = r.work;
        let ctag = format!("{} __filesystem_stat__ Ok", tag('c', i));
        let rtag = format!("{} __filesystem_stat__ Ok", tag('r', i));
        let open = format!("f = [0x61{:02x}, 0, 420] __file_open__", i);
        let legal_c = format!("[f, {}, 1] __file_read__ =a", 10 * i);
        let illegal_c = if r.illegal_after { format!(", [f, {}, 1] __file_read__ =z", 1000 + 10 * i) } else { String::new() };
        let close = |h: &str| if r.explicit_close { format!(", {h} __file_close__ =k") } else if r.owner_fails { ", [1, 0] __integer_divide__ =q".to_string() } else { String::new() };
        let use_r = |h: &str| format!("[{h}, {}, 1] __file_read__ =b", 10 * i + 1);
        match r.transfer {
            Transfer::Keep => {
                lines.push(format!("c{i} = @#{{ {ctag}, {open}, {legal_c}, {cw} w{}, Done }}", close("f")));
            }
            Transfer::MsgBare => {
                lines.push(format!("r{i} = @#{{ {rtag}, ! [#\\File] =g, {rw} w, {}{}, Done }}", use_r("g"), close("g")));
                lines.push(format!("c{i} = &r{i} @#(@\\File) {{ =dst, {ctag}, {open}, {legal_c}, {cw} w, f dst{illegal_c}, Done }}"));
            }
            Transfer::MsgTuple => {
                lines.push(format!("r{i} = @#{{ {rtag}, ! [#H[h: \\File, n: 'int]] =H[h: g, n: _], {rw} w, {}{}, Done }}", use_r("g"), close("g")));
                lines.push(format!("c{i} = &r{i} @#(@H[h: \\File, n: 'int]) {{ =dst, {ctag}, {open}, {legal_c}, {cw} w, H[h: f, n: 1] dst{illegal_c}, Done }}"));
            }
            Transfer::MailboxLeftover => {
                // the recipient leaves the handle in its mailbox: it only takes the `Go` marker that
                // the creator sends right after the handle (same channel, so the handle is already there)
                lines.push(format!("r{i} = @#{{ {rtag}, ! [#\\File {{ [] }}, 0] Ok, ! [#Go] Ok, Done }}"));
                lines.push(format!("c{i} = &r{i} @#(@(\\File | Go)) {{ =dst, {ctag}, {open}, {legal_c}, {cw} w, f dst, Go dst{illegal_c}, Done }}"));
            }
            Transfer::SpawnArg => {
                lines.push(format!(
                    "c{i} = @#{{ {ctag}, {open}, {legal_c}, {cw} w, rp = f @#\\File {{ {rtag}, {rw} w, {}{}, Done }}{illegal_c}, &rp }}",
                    use_r("$"),
                    close("$")
                ));
            }
            Transfer::SpawnCapture => {
                lines.push(format!(
                    "c{i} = @#{{ {ctag}, {open}, {legal_c}, {cw} w, rp = @#{{ {rtag}, {rw} w, {}{}, Done }}{illegal_c}, &rp }}",
                    use_r("f"),
                    close("f")
                ));
            }
            Transfer::SpawnArgTuple => {
                lines.push(format!(
                    "c{i} = @#{{ {ctag}, {open}, {legal_c}, {cw} w, rp = H[h: f, n: 1] @#H[h: \\File, n: 'int] {{ =H[h: g, n: _], {rtag}, {rw} w, {}{}, Done }}{illegal_c}, &rp }}",
                    use_r("g"),
                    close("g")
                ));
            }
            Transfer::SpawnCaptureNested => {
                lines.push(format!(
                    "c{i} = @#{{ {ctag}, {open}, {legal_c}, {cw} w, t = H[h: f, n: 1], rp = @#{{ {rtag}, {rw} w, {}{}, Done }}{illegal_c}, &rp }}",
                    use_r("t.h"),
                    close("t.h")
                ));
            }
            Transfer::ResultHandle => {
                lines.push(format!("c{i} = @#{{ {ctag}, {open}, {legal_c}, {cw} w, f }}"));
                // the user awaits the creator and tries to use the handle it got as a result
                lines.push(format!("r{i} = @#{{ {rtag}, ! [c{i}] =h, {rw} w, [h, {}, 1] __file_read__ =z, Done }}", 1000 + 10 * i + 1));
            }
        }
        // awaits
        if r.owner_fails && r.transfer != Transfer::ResultHandle {
            // the final owner fails: a dedicated awaiter (which fails too) awaits it
            match r.transfer {
                Transfer::SpawnArg | Transfer::SpawnCapture | Transfer::SpawnArgTuple | Transfer::SpawnCaptureNested => {
                    if !r.illegal_after {
                        lines.push(format!("aw{i} = @#{{ ! [c{i}] =p, ! [p] }}"));
                    }
                }
                Transfer::Keep => lines.push(format!("aw{i} = @#{{ ! [c{i}] }}")),
                _ => lines.push(format!("aw{i} = @#{{ ! [r{i}] }}")),
            }
            continue;
        }
        match r.transfer {
            Transfer::SpawnArg | Transfer::SpawnCapture | Transfer::SpawnArgTuple | Transfer::SpawnCaptureNested => {
                // the creator's result is the recipient's pid (when the creator did not fail)
                if r.creator_awaited && !r.illegal_after {
                    lines.push(format!("rp{i} = ! [c{i}]"));
                    if r.recipient_awaited {
                        lines.push(format!("x{i} = ! [rp{i}]"));
                        result_fields.push(format!("x{i}"));
                    }
                }
            }
            Transfer::Keep => {
                if r.creator_awaited {
                    lines.push(format!("x{i} = ! [c{i}]"));
                    result_fields.push(format!("x{i}"));
                }
            }
            Transfer::ResultHandle => {
                // the user fails by design; the entry never awaits it (the failure would propagate)
            }
            _ => {
                if r.recipient_awaited {
                    lines.push(format!("y{i} = ! [r{i}]"));
                    result_fields.push(format!("y{i}"));
                }
                if r.creator_awaited && !r.illegal_after {
                    lines.push(format!("x{i} = ! [c{i}]"));
                    result_fields.push(format!("x{i}"));
                }
            }
        }
    }
    // let stragglers finish before the entry returns
    lines.push("! [60] Ok".to_string());
    lines.push(format!("[{}]", if result_fields.is_empty() { "Ok".to_string() } else { result_fields.join(", ") }));
    lines.join(",\n")
}

/// Is the final owner of resource i awaited by somebody (so that the known cleanup gap does not apply)?
fn final_owner_awaited(r: &ResScn) -> bool {
    match r.transfer {
        Transfer::Keep => r.owner_fails || r.creator_awaited,
        Transfer::ResultHandle => true, // the user process awaits the creator
        Transfer::SpawnArg | Transfer::SpawnCapture | Transfer::SpawnArgTuple | Transfer::SpawnCaptureNested => {
            if r.owner_fails { !r.illegal_after } else { r.creator_awaited && !r.illegal_after && r.recipient_awaited }
        }
        _ => r.owner_fails || r.recipient_awaited,
    }
}

pub struct Facts {
    pub runs: u32,
    pub inconclusive: u32,
    pub excluded: bool,
}

pub fn check(case: &Case, reg: &qrun::Registry, witness: bool) -> Result<Facts, (String, String)> {
    let mut facts = Facts { runs: 0, inconclusive: 0, excluded: false };
    let s = &case.scn;
    if !witness {
        // recorded findings, excluded by construction (each has a witness):
        //  * resources of an owner nobody awaits are never closed
        //  * a stale handle used after its resource was closed reaches the backend
        if s.res.iter().any(|r| !final_owner_awaited(r)) || s.res.iter().any(|r| r.transfer == Transfer::ResultHandle) {
            facts.excluded = true;
            return Ok(facts);
        }
    }
    let src = render(s);
    let c = match catch(|| qrun::compile(&src, &qrun::Modules::new(), reg)) {
        Ok(Ok(c)) => c,
        Ok(Err(e)) => return Err(("generator-rejected".into(), format!("generated program does not compile: {e:?}\n{src}"))),
        Err(p) => return Err(("compile-panic".into(), format!("compiler panicked: {p}"))),
    };
    let bc = c.program.to_bytecode(c.entry);
    const SLOW: [u8; 8] = [0, 0, 1, 2, 4, 8, 16, 32];
    let mut cfgs: Vec<(usize, usize, Vec<u8>, u8)> = vec![(1, 1000, vec![], 0), (2, 1, vec![], 0)];
    cfgs.extend(case.cfgs.iter().map(|(w, qi, sch)| (*w as usize, QUANTA[*qi as usize % QUANTA.len()], sch.clone(), SLOW[(*qi as usize / 6) % 8])));
    for (workers, q, schedule, env_slow) in cfgs {
        let shared = Arc::new(Mutex::new(Shared::default()));
        let poke = Arc::new(AtomicUsize::new(0));
        let backend = MockBackend::new(shared.clone(), s.defer_every as u32, s.defer_for as u32, poke.clone());
        sim::POKE.with(|p| *p.borrow_mut() = Some(poke));
        let mut seen_closes = 0usize;
        let mut premature: Option<String> = None;
        let sh2 = shared.clone();
        let n_res = s.res.len();
        let scn = s.clone();
        let run = sim::run_program(&bc, SimCfg { workers, quanta: vec![q], schedule: schedule.clone(), max_moves: 1_000_000, env_slow }, reg, Some(Box::new(backend)), |simref, m| {
            if let Move::Env { .. } = m {
                let log = sh2.lock().unwrap().log.clone();
                let closes: Vec<usize> = log.iter().filter_map(|e| if let LogEntry::AutoClose { res } = e { Some(*res) } else { None }).collect();
                if closes.len() > seen_closes {
                    let roles = role_pids(&log);
                    let results = simref.process_results();
                    for res in &closes[seen_closes..] {
                        // which scenario resource is this? (by the path of its Open entry)
                        if let Some(i) = resource_index(&log, *res)
                            && i < n_res
                        {
                            let owner_role = final_owner_role(&scn.res[i], i);
                            if let Some(pid) = roles.get(&owner_role)
                                && results.get(pid).is_some_and(|r| r.is_none())
                                && premature.is_none()
                            {
                                premature = Some(format!("resource {res} (scenario resource {i}) was closed while its owner (role {owner_role}, pid {pid}) was still alive"));
                            }
                        }
                    }
                    seen_closes = closes.len();
                }
            }
            Ok(())
        });
        facts.runs += 1;
        let desc = format!("workers={workers} quantum={q} env_slow={env_slow} defer={}/{} schedule={}", s.defer_every, s.defer_for, hex(&schedule));
        let log = shared.lock().unwrap().log.clone();
        let tail = |run: &sim::ProgRun| {
            format!(
                "--- scenario ---\n{}\n--- backend log ---\n{}\n--- trace tail ---\n{}",
                &src[PRELUDE.len()..],
                log.iter().map(|l| format!("{l:?}")).collect::<Vec<_>>().join("\n"),
                run.trace.iter().rev().take(40).rev().cloned().collect::<Vec<_>>().join("\n")
            )
        };
        match &run.end {
            SimEnd::Done => {}
            SimEnd::Budget => {
                facts.inconclusive += 1;
                continue;
            }
            other => return Err((format!("run:{}", end_kind(other)), format!("{desc}: run ended in {other:?}\n{}", tail(&run)))),
        }
        if let Some(m) = premature {
            return Err(("closed-while-owner-alive".into(), format!("{desc}: {m}\n{}", tail(&run))));
        }
        if let Err((kind, m)) = judge(s, &log, &run, witness) {
            return Err((kind, format!("{desc}: {m}\n{}", tail(&run))));
        }
    }
    Ok(facts)
}

thread_local! {
    pub static STALE_HITS: std::cell::Cell<u64> = const { std::cell::Cell::new(0) };
}

fn final_owner_role(r: &ResScn, i: usize) -> String {
    match r.transfer {
        Transfer::Keep | Transfer::ResultHandle => format!("c{i}"),
        _ => format!("r{i}"),
    }
}

fn role_pids(log: &[LogEntry]) -> BTreeMap<String, usize> {
    let mut m = BTreeMap::new();
    for e in log {
        if let LogEntry::Stat { pid, path } = e
            && path.len() == 2
        {
            m.insert(format!("{}{}", path[0] as char, path[1]), *pid);
        }
    }
    m
}

fn resource_index(log: &[LogEntry], res: usize) -> Option<usize> {
    log.iter().find_map(|e| match e {
        LogEntry::Open { path, res: Some(r), .. } if *r == res && path.len() == 2 => Some(path[1] as usize),
        _ => None,
    })
}

pub fn judge(s: &Scn, log: &[LogEntry], run: &sim::ProgRun, strict_close: bool) -> Result<(), (String, String)> {
    let roles = role_pids(log);
    let pid_role: BTreeMap<usize, String> = roles.iter().map(|(r, p)| (*p, r.clone())).collect();
    // (1) illegal uses never reach the backend. (An illegal use that arrives after the resource
    //     was closed is the recorded stale-handle finding and is attributed to it, not re-reported,
    //     unless this is the witness run.)
    let mut closed: std::collections::HashSet<usize> = std::collections::HashSet::new();
    for e in log {
        match e {
            LogEntry::AutoClose { res } | LogEntry::ExplicitClose { res, .. } => {
                closed.insert(*res);
            }
            _ => {}
        }
        if let LogEntry::Use { pid, res, offset, op } = e
            && *offset >= 1000
        {
            if closed.contains(res) && !strict_close {
                STALE_HITS.with(|c| c.set(c.get() + 1));
                continue;
            }
            return Err((
                "illegal-use-reached-backend".into(),
                format!("{op} on resource {res} by pid {pid} (role {:?}), which does not own it, reached the backend", pid_role.get(pid)),
            ));
        }
    }
    // (2) legal uses: exactly once, by the owner at that point
    for (i, r) in s.res.iter().enumerate() {
        let mut expected: Vec<(u64, String)> = vec![(10 * i as u64, format!("c{i}"))];
        if !matches!(r.transfer, Transfer::Keep | Transfer::MailboxLeftover | Transfer::ResultHandle) {
            expected.push((10 * i as u64 + 1, format!("r{i}")));
        }
        for (off, role) in expected {
            let hits: Vec<&LogEntry> = log.iter().filter(|e| matches!(e, LogEntry::Use { offset, .. } if *offset == off)).collect();
            if hits.len() != 1 {
                return Err(("legal-use-count".into(), format!("the owner's operation #{off} (by {role}) reached the backend {} times, expected once", hits.len())));
            }
            if let LogEntry::Use { pid, .. } = hits[0]
                && pid_role.get(pid) != Some(&role)
            {
                return Err(("use-by-wrong-process".into(), format!("operation #{off} was executed for pid {pid} ({:?}) but the owner at that point is {role}", pid_role.get(pid))));
            }
        }
    }
    // (3) processes that attempted an illegal use failed; the others finished normally
    for (i, r) in s.res.iter().enumerate() {
        let offender: Option<String> = match r.transfer {
            Transfer::ResultHandle => Some(format!("r{i}")),
            Transfer::Keep => None,
            _ if r.illegal_after => Some(format!("c{i}")),
            _ => None,
        };
        for role in [format!("c{i}"), format!("r{i}")] {
            let Some(pid) = roles.get(&role) else { continue };
            let res = run.processes.get(pid).cloned().flatten();
            match (&offender, res) {
                (Some(o), Some(Ok(v))) if *o == role => {
                    return Err(("illegal-use-not-rejected".into(), format!("{role} (pid {pid}) used a handle it does not own and still finished with {v}")));
                }
                (Some(o), Some(Err(e))) if *o == role => {
                    let m = format!("{e:?}");
                    if !m.contains("does not own") && !m.contains("not open") && !m.contains("not found") {
                        return Err(("illegal-use-wrong-error".into(), format!("{role} failed with {m}, not an ownership error")));
                    }
                }
                (_, Some(Err(e))) if r.owner_fails && role == final_owner_role(r, i) && format!("{e:?}").contains("Division by zero") => {}
                (_, Some(Err(e))) => {
                    return Err(("legal-process-failed".into(), format!("{role} (pid {pid}) only performed operations it is entitled to and failed with {e:?}")));
                }
                _ => {}
            }
        }
    }
    // (4) closes: at most one automatic close per resource; exactly one for a resource whose final
    //     owner terminated without closing it itself
    let mut auto: BTreeMap<usize, usize> = BTreeMap::new();
    for e in log {
        if let LogEntry::AutoClose { res } = e {
            *auto.entry(*res).or_insert(0) += 1;
        }
    }
    for (res, n) in &auto {
        if *n > 1 {
            return Err(("closed-twice".into(), format!("resource {res} was closed {n} times by the automatic cleanup")));
        }
    }
    for (i, r) in s.res.iter().enumerate() {
        let Some(res_id) = log.iter().find_map(|e| match e {
            LogEntry::Open { path, res: Some(id), .. } if path.len() == 2 && path[1] as usize == i => Some(*id),
            _ => None,
        }) else {
            return Err(("never-opened".into(), format!("scenario resource {i} was never opened")));
        };
        let owner_role = final_owner_role(r, i);
        let owner_done = roles.get(&owner_role).and_then(|p| run.processes.get(p)).is_some_and(|x| x.is_some());
        let n = auto.get(&res_id).copied().unwrap_or(0);
        if owner_done && (strict_close || final_owner_awaited(r)) && n != 1 {
            return Err((
                "not-closed".into(),
                format!("resource {res_id} (scenario resource {i}): its final owner {owner_role} has terminated but the automatic cleanup closed it {n} times"),
            ));
        }
    }
    Ok(())
}

pub fn witnesses() -> Vec<(&'static str, Scn, &'static str)> {
    let base = |transfer, creator_awaited, recipient_awaited| ResScn { transfer, illegal_after: false, creator_awaited, recipient_awaited, explicit_close: false, owner_fails: false, work: (0, 0) };
    vec![
        ("witness:unawaited-owner-never-closed", Scn { res: vec![base(Transfer::Keep, false, false)], defer_every: 0, defer_for: 0 }, "not-closed"),
        ("witness:stale-handle-reaches-backend", Scn { res: vec![base(Transfer::ResultHandle, true, true)], defer_every: 0, defer_for: 0 }, "illegal-use-reached-backend"),
    ]
}

pub fn run(ctx: &Ctx) -> i32 {
    let started = Instant::now();
    let stats = Stats::new();
    let known = KnownFindings::load();
    let cases_per_shard: u32 = ctx.tier.pick(800, 12_000);
    let n_cfgs = ctx.tier.pick(6, 20);

    let mut violations = run_sharded(ctx.shards, |shard| {
        let reg = qrun::registry_io();
        let mut out = Vec::new();
        let strat = strategy(n_cfgs);
        let seed = derive_seed(ctx.seed, ctx.id, shard, 0);
        let res = pt_search(seed, cases_per_shard, &strat, &stats, |case| match check(case, &reg, false) {
            Ok(f) => {
                if f.excluded {
                    stats.class("excluded:recorded-findings(unawaited owner / stale handle after close)");
                    return Ok(());
                }
                stats.evals(f.runs as u64);
                for _ in 0..f.inconclusive {
                    stats.inconclusive();
                }
                let stale = STALE_HITS.with(|c| c.replace(0));
                if stale > 0 {
                    stats.class_n("attributed:stale-handle-after-close", stale);
                }
                let mut transfer = false;
                let mut illegal = false;
                for r in &case.scn.res {
                    stats.class(&format!("transfer:{:?}", r.transfer));
                    transfer |= r.transfer != Transfer::Keep;
                    illegal |= r.illegal_after && r.transfer != Transfer::Keep;
                    if r.explicit_close {
                        stats.class("owner-closes-explicitly");
                    }
                    if r.owner_fails {
                        stats.class("owner-fails-while-owning");
                    }
                }
                if case.scn.defer_every > 0 {
                    stats.class("deferred-effect-completions");
                }
                if illegal {
                    stats.class("former-owner-uses-handle-after-transfer");
                }
                if transfer && illegal {
                    let src = render(&case.scn);
                    stats.nontrivial(&src);
                    stats.sample(|| json!({"scenario": truncate(&src[PRELUDE.len()..], 600), "runs": f.runs}));
                }
                Ok(())
            }
            Err((sig, msg)) => {
                if !ctx.strict && known.is_known(ctx.id, &sig).is_some() {
                    stats.known_hit(&sig);
                    return Ok(());
                }
                Err(format!("{sig}\u{1}{msg}"))
            }
        });
        if let Search::Failed { minimal, message } = res {
            let (sig, msg) = message.split_once('\u{1}').map(|(a, b)| (a.to_string(), b.to_string())).unwrap_or((message.clone(), message));
            out.push(Violation {
                signature: sig,
                summary: truncate(&msg, 7000),
                replay: json!({"kind": "c14", "scenario": format!("{:?}", minimal.scn), "source": render(&minimal.scn), "note": "re-run `qv check C14` with the same VERIF_SEED to reproduce; the scenario text above is self-contained"}),
            });
        }
        out
    });

    {
        let reg = qrun::registry_io();
        for (sig, scn, expect) in witnesses() {
            if known.is_known(ctx.id, sig).is_none() {
                continue;
            }
            match check(&Case { scn, cfgs: vec![] }, &reg, true) {
                Err((s, _)) if s == expect => stats.known_hit(sig),
                Err((s, msg)) => violations.push(Violation { signature: s, summary: msg, replay: json!({"kind": "c14", "witness": sig}) }),
                Ok(_) => println!("NOTE: known finding {sig} no longer reproduces"),
            }
        }
    }

    finish(Report {
        ctx,
        stats: &stats,
        violations,
        rule: "1-3 resources, each opened by its own creator process on an instrumented in-memory backend and then kept, sent bare or inside a tuple, passed as a spawn argument, captured by a spawned closure, or sent to a process that never receives it; the former owner optionally uses the handle after giving it away; owners optionally close explicitly; effects complete immediately or deferred by 1-4 environment steps; every process tags itself in the backend log; run under 8 configurations; judged on the backend log: no operation by a non-owner reaches the backend, every owner operation reaches it exactly once from the right process, offenders fail with an ownership error and everybody else finishes, at most one automatic close per resource, exactly one once its final owner has terminated, and none while the owner is alive; evaluations = simulator runs; non-trivial = a transfer plus a use by the former owner; distinct by scenario text".into(),
        assumptions: vec![
            "the mock backend honours the EffectBackend contract (ids never reused, close of an unknown id is a no-op); io_uring, sockets and directories are not exercised".into(),
            "ownership at each program point is known from the straight-line scripts (causal order), not from the environment".into(),
            "two recorded findings are excluded by construction and re-witnessed each run: resources of an owner nobody awaits are never closed; a stale handle used after its resource was closed reaches the backend (pinned by the repository's own test test_resource_cleanup_on_owner_completion)".into(),
        ],
        required_classes: vec!["transfer:MsgBare", "transfer:MsgTuple", "transfer:SpawnArg", "transfer:SpawnCapture", "transfer:MailboxLeftover", "transfer:Keep", "transfer:SpawnArgTuple", "transfer:SpawnCaptureNested", "owner-fails-while-owning", "former-owner-uses-handle-after-transfer", "deferred-effect-completions", "owner-closes-explicitly"],
        started,
        technique: "proptest-generated ownership scripts x schedules x deferred completions in the deterministic simulator with an instrumented backend; oracle = invariants over the backend log and final process states",
    })
}

pub fn replay(payload: &serde_json::Value) -> Result<(), String> {
    if let Some(w) = payload.get("witness").and_then(|w| w.as_str()) {
        let reg = qrun::registry_io();
        for (sig, scn, _) in witnesses() {
            if sig == w {
                return match check(&Case { scn, cfgs: vec![] }, &reg, true) {
                    Ok(_) => Ok(()),
                    Err((s, m)) => Err(format!("{s}: {}", truncate(&m, 3000))),
                };
            }
        }
    }
    Err("C14 replays are reproduced by re-running the check with the recorded VERIF_SEED (the scenario text and backend log are in the violation summary)".into())
}
