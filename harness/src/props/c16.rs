//! C16 — tail calls run in constant space.
//!
//! Generated tail-recursive shapes are run at N and at 50·N iterations with profiling on; the
//! per-instruction peaks (frames, locals, operand stack) must be equal and the number of heap
//! slots must not scale with the iteration count. The result is compared with a host loop.

use crate::fw::*;
use crate::hval::{self, HVal, Tables};
use crate::qrun::{self, RunEnd};
use num_bigint::BigInt;
use proptest::prelude::*;
use serde_json::json;
use std::time::Instant;

#[derive(Clone, Debug, PartialEq)]
pub enum Bind {
    Int,
    Bin,
    Tuple,
    Closure,
    /// eight fresh binaries inside a tuple nested 24 deep, dropped by the next iteration: many
    /// releases per instruction, so a whole slice's worth of drops reaches one reclamation round
    Burst,
}

#[derive(Clone, Debug, PartialEq)]
pub enum Wrap {
    /// `{ T }`
    Block,
    /// `w = <expr>, T`
    Bind(Bind),
    /// `{ | <always true> => T | acc }`
    Cond,
    /// `[n, acc] { | =[k, -7] => k | T }` — a first branch whose pattern binds, then fails
    FailFirst,
    /// `{ { T } }`
    Redundant,
    /// `Ok, T` — a step before the call in the same sequence
    Step,
}

#[derive(Clone, Debug, PartialEq)]
pub enum Delta {
    One,
    N,
    BinLen,
    TupleField,
    ClosureCall,
    PreBin,
}

#[derive(Clone, Debug)]
pub struct Body {
    pub pre: Vec<Bind>,
    pub wraps: Vec<Wrap>,
    /// Some: even n takes `wraps`, odd n takes this alternative
    pub alt: Option<Vec<Wrap>>,
    pub delta: Delta,
}

#[derive(Clone, Debug, PartialEq)]
pub enum Kind {
    /// `^`
    SelfCall,
    /// two functions that tail-call each other through parameters (`^other`)
    Mutual,
    /// nilary closures chained with the ripple form `^~`
    Trampoline,
    /// the function re-enters itself through a field of a record carried in its argument (`^m.go`)
    RecordSelf,
    /// two functions that tail-call each other through fields of a carried record (`^m.pong`)
    RecordMutual,
}

#[derive(Clone, Debug)]
pub struct Shape {
    pub kind: Kind,
    pub a: Body,
    pub b: Body,
    /// the loop state carries this many binaries, each rebuilt (and the old one dropped) every iteration
    pub state_bins: u8,
    /// the loop is entered through a named tail call `^f` from another function
    pub hop: bool,
    pub n: u16,
}

fn bind() -> impl Strategy<Value = Bind> {
    prop_oneof![3 => Just(Bind::Int), 3 => Just(Bind::Bin), 3 => Just(Bind::Tuple), 3 => Just(Bind::Closure), 2 => Just(Bind::Burst)]
}

fn wraps() -> impl Strategy<Value = Vec<Wrap>> {
    let w = prop_oneof![
        3 => Just(Wrap::Block),
        4 => bind().prop_map(Wrap::Bind),
        2 => Just(Wrap::Cond),
        2 => Just(Wrap::FailFirst),
        2 => Just(Wrap::Redundant),
        1 => Just(Wrap::Step),
    ];
    prop::collection::vec(w, 0..5)
}

fn body() -> impl Strategy<Value = Body> {
    let delta = prop_oneof![Just(Delta::One), Just(Delta::N), Just(Delta::BinLen), Just(Delta::TupleField), Just(Delta::ClosureCall), Just(Delta::PreBin)];
    (prop::collection::vec(bind(), 0..3), wraps(), prop::option::weighted(0.35, wraps()), delta).prop_map(|(pre, wraps, alt, delta)| Body { pre, wraps, alt, delta })
}

pub fn strategy() -> impl Strategy<Value = Shape> {
    let kind = prop_oneof![4 => Just(Kind::SelfCall), 3 => Just(Kind::Mutual), 2 => Just(Kind::Trampoline), 2 => Just(Kind::RecordSelf), 2 => Just(Kind::RecordMutual)];
    let bins = prop_oneof![3 => Just(0u8), 2 => Just(1u8), 2 => 2u8..4];
    (kind, body(), body(), bins, any::<bool>(), 20u16..60).prop_map(|(kind, a, b, state_bins, hop, n)| Shape { kind, a, b, state_bins, hop, n: 2 * n })
}

fn bind_expr(b: &Bind, salt: usize) -> String {
    match b {
        Bind::Int => format!("[n, {salt}] __integer_add__"),
        Bind::Bin => format!("[0xcd, {}] __binary_repeat__", 1 + salt % 3),
        Bind::Tuple => "[n, [acc, n]]".to_string(),
        Bind::Closure => "#{ n }".to_string(),
        Bind::Burst => {
            let b = "[0x01, 0x02] __binary_concat__";
            format!("{}[{b}, {b}, {b}, {b}, {b}, {b}, {b}, {b}]{}", "[".repeat(24), "]".repeat(24))
        }
    }
}

fn delta_expr(d: &Delta) -> &'static str {
    match d {
        Delta::One => "1",
        Delta::N => "n",
        Delta::BinLen => "[0xab, [n, 5] __integer_modulo__] __binary_repeat__ __binary_length__",
        Delta::TupleField => "dt.b.1",
        Delta::ClosureCall => "[] dc",
        Delta::PreBin => "db __binary_length__",
    }
}

fn delta_val(d: &Delta, n: u64) -> u64 {
    match d {
        Delta::One => 1,
        Delta::N => n,
        Delta::BinLen | Delta::PreBin => n % 5,
        Delta::TupleField => 7,
        Delta::ClosureCall => n % 3,
    }
}

fn wrap_text(ws: &[Wrap], inner: &str, tag: &str) -> String {
    let mut t = inner.to_string();
    for (i, w) in ws.iter().enumerate().rev() {
        t = match w {
            Wrap::Block => format!("{{ {t} }}"),
            Wrap::Bind(b) => format!("w{tag}{i} = {}, {t}", bind_expr(b, i)),
            Wrap::Cond => format!("{{ | [n, n] __integer_compare__ =0 => {t} | acc }}"),
            Wrap::FailFirst => format!("[n, acc] {{ | =[k{tag}{i}, -7] => k{tag}{i} | {t} }}"),
            Wrap::Redundant => format!("{{ {{ {t} }} }}"),
            Wrap::Step => format!("Ok, {t}"),
        };
    }
    t
}

/// How the next state is written and which call operator follows it.
enum Call<'a> {
    /// positional state `[n, acc, c0.., <extra>] <op>`
    Pos { extra: &'a str, op: &'a str },
    /// labelled state `[m: &m, n: .., acc: .., c0: ..] ^m.<field>`
    Rec { field: &'a str },
}

fn newbin(j: u8) -> String {
    format!("[[0xab, [n, {}] __integer_modulo__] __binary_repeat__, 0xcd] __binary_concat__", 4 + j)
}

/// The text from the first pre-binding to the end of the dispatch block.
fn body_text(b: &Body, bins: u8, call: &Call) -> String {
    let mut pre: Vec<String> = b.pre.iter().enumerate().map(|(i, k)| format!("p{i} = {}", bind_expr(k, i + 2))).collect();
    match b.delta {
        Delta::TupleField => pre.push("dt = P[a: n, b: [acc, 7]]".into()),
        Delta::ClosureCall => pre.push("dc = #{ [n, 3] __integer_modulo__ }".into()),
        Delta::PreBin => pre.push("db = [0xab, [n, 5] __integer_modulo__] __binary_repeat__".into()),
        _ => {}
    }
    let next_n = "[n, 1] __integer_subtract__";
    let next_acc = format!("[acc, {}] __integer_add__", delta_expr(&b.delta));
    let args = match call {
        Call::Pos { extra, op } => {
            let bins_s: String = (0..bins).map(|j| format!(", {}", newbin(j))).collect();
            format!("[{next_n}, {next_acc}{bins_s}{extra}] {op}")
        }
        Call::Rec { field } => {
            let bins_s: String = (0..bins).map(|j| format!(", c{j}: {}", newbin(j))).collect();
            format!("[m: &m, n: {next_n}, acc: {next_acc}{bins_s}] ^m.{field}")
        }
    };
    let cont = match &b.alt {
        None => wrap_text(&b.wraps, &args, "a"),
        Some(alt) => format!("{{ | [n, 2] __integer_modulo__ =0 => {} | {} }}", wrap_text(&b.wraps, &args, "a"), wrap_text(alt, &args, "b")),
    };
    let result = if bins > 0 { "[acc, c0 __binary_length__]" } else { "acc" };
    let disp = format!("{{ | [n, 0] __integer_compare__ =0 => {result} | {cont} }}");
    if pre.is_empty() { disp } else { format!("{}, {disp}", pre.join(", ")) }
}

pub fn render(s: &Shape, n: u64) -> String {
    let k = s.state_bins;
    let bt: String = (0..k).map(|_| ", 'bin".to_string()).collect();
    let bv: String = (0..k).map(|j| format!(", c{j}")).collect();
    let bi: String = (0..k).map(|_| ", 0xff".to_string()).collect();
    let rbt: String = (0..k).map(|j| format!(", c{j}: 'bin")).collect();
    let rbi: String = (0..k).map(|j| format!(", c{j}: 0xff")).collect();
    let res_t = if k > 0 { "['int, 'int] | 'int" } else { "'int" };
    let mut lines: Vec<String> = Vec::new();
    let entry_args;
    let entry_fn;
    match s.kind {
        Kind::SelfCall => {
            lines.push(format!("f = #['int, 'int{bt}] {{ =[n, acc{bv}], {} }}", body_text(&s.a, k, &Call::Pos { extra: "", op: "^" })));
            entry_args = format!("[~, 0{bi}]");
            entry_fn = "f".to_string();
        }
        Kind::Mutual => {
            lines.push(format!("'pf = #['int, 'int{bt}, ^, ^] -> ({res_t})"));
            lines.push(format!("ping = #['int, 'int{bt}, 'pf, 'pf] {{ =[n, acc{bv}, me, other], {} }}", body_text(&s.a, k, &Call::Pos { extra: ", &other, &me", op: "^other" })));
            lines.push(format!("pong = #['int, 'int{bt}, 'pf, 'pf] {{ =[n, acc{bv}, me, other], {} }}", body_text(&s.b, k, &Call::Pos { extra: ", &other, &me", op: "^other" })));
            entry_args = format!("[~, 0{bi}, &ping, &pong]");
            entry_fn = "ping".to_string();
        }
        Kind::Trampoline => {
            lines.push(format!("'mk = #['int, 'int{bt}, ^] -> (#[] -> ({res_t}))"));
            lines.push(format!("mk = #['int, 'int{bt}, 'mk] {{ =[n, acc{bv}, self], #{{ {} }} }}", body_text(&s.a, k, &Call::Pos { extra: ", &self", op: "self ^~" })));
            entry_args = format!("[~, 0{bi}, &mk]");
            entry_fn = "mk".to_string();
        }
        Kind::RecordSelf => {
            lines.push(format!("go = #[m: [go: #^ -> ({res_t})], n: 'int, acc: 'int{rbt}] {{ =(m, n, acc{bv}), {} }}", body_text(&s.a, k, &Call::Rec { field: "go" })));
            entry_args = format!("[m: [go: &go], n: ~, acc: 0{rbi}]");
            entry_fn = "go".to_string();
        }
        Kind::RecordMutual => {
            let mt = format!("[ping: #^ -> ({res_t}), pong: #^ -> ({res_t})]");
            lines.push(format!("ping = #[m: {mt}, n: 'int, acc: 'int{rbt}] {{ =(m, n, acc{bv}), {} }}", body_text(&s.a, k, &Call::Rec { field: "pong" })));
            lines.push(format!("pong = #[m: {mt}, n: 'int, acc: 'int{rbt}] {{ =(m, n, acc{bv}), {} }}", body_text(&s.b, k, &Call::Rec { field: "ping" })));
            entry_args = format!("[m: [ping: &ping, pong: &pong], n: ~, acc: 0{rbi}]");
            entry_fn = "ping".to_string();
        }
    }
    if s.kind == Kind::Trampoline {
        lines.push(format!("e = #'int {{ {entry_args} {entry_fn} ^~ }}"));
    } else if s.hop {
        lines.push(format!("e = #'int {{ {entry_args} ^{entry_fn} }}"));
    } else {
        lines.push(format!("e = #'int {{ {entry_args} {entry_fn} }}"));
    }
    lines.push(format!("{n} e"));
    lines.join(",\n")
}

pub fn model(s: &Shape, n: u64) -> String {
    let mut acc = BigInt::from(0);
    let mut k = n;
    let mut i = 0u64;
    while k > 0 {
        let body = if matches!(s.kind, Kind::Mutual | Kind::RecordMutual) && i % 2 == 1 { &s.b } else { &s.a };
        acc += delta_val(&body.delta, k);
        k -= 1;
        i += 1;
    }
    if s.state_bins > 0 {
        // the last rebuilt binary was made at n = 1: (1 % 4) bytes of 0xab plus one 0xcd
        let len = if n == 0 { 1 } else { 2 };
        format!("[{acc}, {len}]")
    } else {
        acc.to_string()
    }
}

#[derive(Debug, Clone, Copy, PartialEq)]
pub struct Space {
    pub frames: usize,
    pub locals: usize,
    pub stack: usize,
    pub slots: usize,
    pub slices: u64,
}

pub const QUANTUM: usize = 64;
pub const FACTOR: u64 = 50;

fn measure(src: &str, reg: &qrun::Registry, quantum: usize) -> Result<Option<(String, Space)>, (String, String)> {
    let c = match catch(|| qrun::compile(src, &qrun::Modules::new(), reg)) {
        Ok(Ok(c)) => c,
        Ok(Err(e)) => return Err(("generator-rejected".into(), format!("generated program does not compile: {e:?}\n{src}"))),
        Err(p) => return Err(("compile-panic".into(), format!("compiler panicked: {p}\n{src}"))),
    };
    let bc = c.program.to_bytecode(c.entry);
    let run = match catch(|| qrun::run_sync(&bc, reg, quantum, 2_000_000_000, true)) {
        Ok(r) => r,
        Err(p) => return Err(("run-panic".into(), format!("executor panicked: {p}\n{src}"))),
    };
    let t = Tables { tuples: &bc.tuples, constants: &bc.constants };
    match &run.end {
        RunEnd::Value(v) => {
            let hv: HVal = hval::from_executor(v, &run.executor, &t);
            let st = &run.executor.stats;
            Ok(Some((hv.full(), Space { frames: st.peak_frame_count, locals: st.peak_locals_size, stack: st.peak_stack_size, slots: run.executor.heap_stats().slots, slices: run.slices })))
        }
        RunEnd::Diverged => Ok(None),
        other => Err(("run-error".into(), format!("run ended in {other:?}\n{src}"))),
    }
}

pub struct Facts {
    pub small: Space,
    pub big: Space,
    pub runs: u32,
    pub default_quantum_pair: bool,
}

fn allocates(s: &Shape) -> bool {
    let bodies: Vec<&Body> = if matches!(s.kind, Kind::Mutual | Kind::RecordMutual) { vec![&s.a, &s.b] } else { vec![&s.a] };
    s.state_bins > 0
        || bodies.iter().any(|b| {
            matches!(b.delta, Delta::BinLen | Delta::PreBin)
                || b.pre.iter().any(|k| matches!(k, Bind::Bin | Bind::Burst))
                || b.wraps.iter().any(|w| matches!(w, Wrap::Bind(Bind::Bin | Bind::Burst)))
                || b.alt.as_ref().is_some_and(|a| a.iter().any(|w| matches!(w, Wrap::Bind(Bind::Bin | Bind::Burst))))
        })
}

/// Compare one (N, 50N) pair at a quantum.
fn compare(s: &Shape, n: u64, quantum: usize, reg: &qrun::Registry) -> Result<Option<(Space, Space)>, (String, String)> {
    let big_n = n * FACTOR;
    let src_small = render(s, n);
    let src_big = render(s, big_n);
    let Some((v_small, sp_small)) = measure(&src_small, reg, quantum)? else { return Ok(None) };
    let Some((v_big, sp_big)) = measure(&src_big, reg, quantum)? else { return Ok(None) };
    let ctxt = |what: &str| format!("{what} (quantum {quantum})\nN={n}: {sp_small:?}\nN={big_n}: {sp_big:?}\n--- program (N={n}) ---\n{src_small}");
    for (v, nn) in [(&v_small, n), (&v_big, big_n)] {
        let m = model(s, nn);
        if *v != m {
            return Err(("result-differs".into(), ctxt(&format!("result at N={nn} is {v}, the loop's definition gives {m}"))));
        }
    }
    if sp_big.frames != sp_small.frames {
        return Err(("frames-grow".into(), ctxt("peak call-frame count depends on the iteration count")));
    }
    if sp_big.locals != sp_small.locals {
        return Err(("locals-grow".into(), ctxt("peak locals size depends on the iteration count")));
    }
    if sp_big.stack != sp_small.stack {
        return Err(("stack-grows".into(), ctxt("peak operand-stack size depends on the iteration count")));
    }
    if sp_big.slots > 2 * sp_small.slots + 4 {
        return Err(("heap-grows".into(), ctxt("heap slots grow with the iteration count (binaries dropped by earlier iterations are not reclaimed)")));
    }
    Ok(Some((sp_small, sp_big)))
}

/// Quantum 64 at (N, 50N); shapes that allocate also run at the runtime's own slice length
/// (1000) at (2N, 100N), where many more drops fall into one reclamation round.
pub fn check(s: &Shape, reg: &qrun::Registry) -> Result<Option<Facts>, (String, String)> {
    let n = s.n as u64;
    let Some((small, big)) = compare(s, n, QUANTUM, reg)? else { return Ok(None) };
    let mut f = Facts { small, big, runs: 2, default_quantum_pair: false };
    if allocates(s) {
        if compare(s, 2 * n, 1000, reg)?.is_none() {
            return Ok(None);
        }
        f.runs += 2;
        f.default_quantum_pair = true;
    }
    Ok(Some(f))
}

fn all_wraps(s: &Shape) -> Vec<&Wrap> {
    let mut v: Vec<&Wrap> = Vec::new();
    let bodies: Vec<&Body> = if matches!(s.kind, Kind::Mutual | Kind::RecordMutual) { vec![&s.a, &s.b] } else { vec![&s.a] };
    for b in bodies {
        v.extend(b.wraps.iter());
        if let Some(a) = &b.alt {
            v.extend(a.iter());
        }
    }
    v
}

// ---------------------------------------------------------------------------------------------
// nilary loops: `#{ steps…, ^ }` re-enters itself with no state, so it never ends; its space is
// sampled after a small and after a 50 times larger instruction budget

/// dice -> a never-ending nilary function whose last step (possibly under a nested block or a
/// branch) is a bare `^` reached with a value flowing
pub fn render_nilary(dice: &[u8]) -> String {
    let d = |i: usize| dice.get(i).copied().unwrap_or(0);
    let n_steps = 1 + d(0) as usize % 4;
    let mut steps: Vec<String> = Vec::new();
    for i in 0..n_steps {
        let x = d(1 + 2 * i);
        let y = d(2 + 2 * i);
        steps.push(match x % 7 {
            0 => format!("a{i} = [0x{:02x}, {}] __binary_repeat__", y, 1 + y % 9),
            1 => format!("b{i} = [{}, 2] __integer_add__", y),
            2 => format!("[{}, 0x{:02x}]", y, y),
            3 => format!("{{ x{i} = {}, [x{i}, x{i}] }}", y),
            4 => format!("[0x{:02x}, {}] __binary_repeat__", y, 2 + y % 7),
            5 => format!("t{i} = T[{}, [0xcd, {}] __binary_repeat__]", y, 1 + y % 5),
            _ => format!("{}", 1 + y as u32),
        });
    }
    let tail = match d(9) % 5 {
        0 => "^".to_string(),
        1 => "{ 7, ^ }".to_string(),
        2 => "{ | 1 => ^ }".to_string(),
        3 => "{ z = 0x01, { z, ^ } }".to_string(),
        _ => "{ | =0 => 5 | ^ }".to_string(),
    };
    format!("f = #{{ {}, {tail} }},\n[] f", steps.join(", "))
}

fn measure_budget(src: &str, reg: &qrun::Registry, budget: u64) -> Result<Option<Space>, (String, String)> {
    let c = match catch(|| qrun::compile(src, &qrun::Modules::new(), reg)) {
        Ok(Ok(c)) => c,
        Ok(Err(e)) => return Err(("generator-rejected".into(), format!("generated program does not compile: {e:?}\n{src}"))),
        Err(p) => return Err(("compile-panic".into(), format!("compiler panicked: {p}\n{src}"))),
    };
    let bc = c.program.to_bytecode(c.entry);
    let run = match catch(|| qrun::run_sync(&bc, reg, QUANTUM, budget, true)) {
        Ok(r) => r,
        Err(p) => return Err(("run-panic".into(), format!("executor panicked: {p}\n{src}"))),
    };
    match &run.end {
        RunEnd::Diverged => {
            let st = &run.executor.stats;
            Ok(Some(Space { frames: st.peak_frame_count, locals: st.peak_locals_size, stack: st.peak_stack_size, slots: run.executor.heap_stats().slots, slices: run.slices }))
        }
        // the loop ended (a generated branch left it): nothing to compare
        RunEnd::Value(_) => Ok(None),
        other => Err(("run-error".into(), format!("run ended in {other:?}\n{src}"))),
    }
}

pub const NILARY_BUDGET: u64 = 40_000;

pub fn check_nilary(src: &str, reg: &qrun::Registry) -> Result<Option<(Space, Space)>, (String, String)> {
    let Some(small) = measure_budget(src, reg, NILARY_BUDGET)? else { return Ok(None) };
    let Some(big) = measure_budget(src, reg, NILARY_BUDGET * FACTOR)? else { return Ok(None) };
    let ctxt = |what: &str| format!("{what}\nafter {NILARY_BUDGET} units: {small:?}\nafter {} units: {big:?}\n--- program ---\n{src}", NILARY_BUDGET * FACTOR);
    if big.frames != small.frames {
        return Err(("frames-grow".into(), ctxt("peak call-frame count of a never-ending nilary loop depends on how long it ran")));
    }
    if big.locals != small.locals {
        return Err(("locals-grow".into(), ctxt("peak locals of a never-ending nilary loop depend on how long it ran")));
    }
    if big.stack != small.stack {
        return Err(("stack-grows".into(), ctxt("peak operand stack of a never-ending nilary loop depends on how long it ran")));
    }
    if big.slots > 2 * small.slots + 4 {
        return Err(("heap-grows".into(), ctxt("heap slots of a never-ending nilary loop grow with the time it ran")));
    }
    Ok(Some((small, big)))
}

pub fn run(ctx: &Ctx) -> i32 {
    let started = Instant::now();
    let stats = Stats::new();
    let known = KnownFindings::load();
    let cases_per_shard: u32 = ctx.tier.pick(100, 4_000);

    let violations = run_sharded(ctx.shards, |shard| {
        let reg = qrun::registry();
        let mut out = Vec::new();
        let strat = strategy();
        let seed = derive_seed(ctx.seed, ctx.id, shard, 0);
        let res = pt_search(seed, cases_per_shard, &strat, &stats, |s| match check(s, &reg) {
            Ok(None) => {
                stats.inconclusive();
                Ok(())
            }
            Ok(Some(f)) => {
                stats.evals(f.runs as u64);
                if f.default_quantum_pair {
                    stats.class("allocating-shape-also-run-at-quantum-1000");
                }
                stats.class(match s.kind {
                    Kind::SelfCall => "kind:self-tail-call",
                    Kind::Mutual => "kind:mutual-recursion-through-parameters",
                    Kind::Trampoline => "kind:ripple-tail-call-of-closures",
                    Kind::RecordSelf => "kind:self-through-record-field",
                    Kind::RecordMutual => "kind:mutual-through-record-fields",
                });
                if s.state_bins > 0 {
                    stats.class("state-carries-a-binary-rebuilt-every-iteration");
                }
                if s.state_bins >= 2 {
                    stats.class("state-carries-several-binaries");
                }
                if s.hop {
                    stats.class("entered-through-named-tail-call");
                }
                let ws = all_wraps(s);
                for w in &ws {
                    stats.class(match w {
                        Wrap::Block => "wrap:nested-block",
                        Wrap::Bind(_) => "wrap:binding-before-call-in-same-branch",
                        Wrap::Cond => "wrap:inside-consequence",
                        Wrap::FailFirst => "wrap:after-failed-binding-match",
                        Wrap::Redundant => "wrap:redundant-liftable-block",
                        Wrap::Step => "wrap:step-before-call",
                    });
                }
                if s.a.pre.contains(&Bind::Burst) || s.b.pre.contains(&Bind::Burst) || ws.iter().any(|w| matches!(w, Wrap::Bind(Bind::Burst))) {
                    stats.class("burst-of-drops-per-iteration");
                }
                if s.a.alt.is_some() {
                    stats.class("two-different-paths-by-parity");
                }
                if f.big.slots > 0 {
                    stats.class("iterations-allocate-heap-binaries");
                }
                if f.small.slices >= 30 {
                    stats.class("small-run-spans-30-slices");
                }
                let has_bind = !s.a.pre.is_empty() || ws.iter().any(|w| matches!(w, Wrap::Bind(_)));
                let has_block = ws.iter().any(|w| matches!(w, Wrap::Block | Wrap::Redundant | Wrap::Cond | Wrap::FailFirst));
                if has_bind && has_block {
                    let src = render(s, s.n as u64);
                    stats.nontrivial(&src);
                    stats.sample(|| json!({"program": truncate(&src, 700), "N": s.n, "space_at_N": format!("{:?}", f.small), "space_at_50N": format!("{:?}", f.big)}));
                }
                Ok(())
            }
            Err((sig, msg)) => {
                if !ctx.strict && known.is_known(ctx.id, &sig).is_some() {
                    stats.known_hit(&sig);
                    return Ok(());
                }
                Err(format!("{sig}\u{1}{msg}"))
            }
        });
        if let Search::Failed { minimal, message } = res {
            let (sig, msg) = message.split_once('\u{1}').map(|(a, b)| (a.to_string(), b.to_string())).unwrap_or((message.clone(), message));
            out.push(Violation {
                signature: sig,
                summary: truncate(&msg, 6000),
                replay: {
                    let (n, q) = if msg.contains("(quantum 1000)") { (2 * minimal.n as u64, 1000) } else { (minimal.n as u64, QUANTUM) };
                    json!({"kind": "c16", "shape": format!("{minimal:?}"), "n": n, "quantum": q,
                        "source_small": render(&minimal, n), "source_big": render(&minimal, n * FACTOR),
                        "expected_small": model(&minimal, n), "expected_big": model(&minimal, n * FACTOR)})
                },
            });
        }
        // stream 2: never-ending nilary loops
        let strat2 = prop::collection::vec(any::<u8>(), 10);
        let res2 = pt_search(derive_seed(ctx.seed, ctx.id, shard, 1), ctx.tier.pick(60, 1_500), &strat2, &stats, |dice| {
            let src = render_nilary(dice);
            match check_nilary(&src, &reg) {
                Ok(Some((small, big))) => {
                    stats.evals(2);
                    stats.class("kind:never-ending-nilary-loop");
                    if big.slots > 0 {
                        stats.class("nilary-loop-allocates");
                    }
                    let _ = small;
                    Ok(())
                }
                Ok(None) => {
                    stats.discard();
                    Ok(())
                }
                Err((sig, msg)) => {
                    if !ctx.strict && known.is_known(ctx.id, &sig).is_some() {
                        stats.known_hit(&sig);
                        return Ok(());
                    }
                    Err(format!("{sig}\u{1}{msg}"))
                }
            }
        });
        if let Search::Failed { minimal, message } = res2 {
            let (sig, msg) = message.split_once('\u{1}').map(|(a, b)| (a.to_string(), b.to_string())).unwrap_or((message.clone(), message));
            out.push(Violation { signature: sig, summary: truncate(&msg, 6000), replay: json!({"kind": "c16-nilary", "source": render_nilary(&minimal)}) });
        }
        out
    });

    finish(Report {
        ctx,
        stats: &stats,
        violations,
        rule: "tail-recursive shapes: a counter loop through `^`, two functions calling each other through function-typed parameters (`^other`), nilary closures chained by `^~`, or functions re-entering themselves / each other through fields of a record carried in the argument (`^m.go`); optionally entered by a named tail call `^f`; the state optionally carries 1-3 binaries that are rebuilt every iteration; before the dispatch 0-2 throw-away bindings (integer, heap binary, tuple, closure); the tail call sits under 0-4 generated wrappers (nested block, binding in the same branch, consequence of a condition, a branch after a failed binding pattern, redundant double block, a step before it), optionally two different wrapper stacks chosen by parity; each iteration adds a generated term (constant, n, length of a fresh binary, a tuple field, a closure call). Each shape runs at an even N in 40..118 (so that both runs see the same parities in each function) and at 50*N, quantum 64, profiling on; shapes that allocate binaries run again at (2N, 100N) with the runtime's slice length 1000. Oracle: peak frames, peak locals and peak operand stack are EQUAL at N and 50N; heap slots(50N) <= 2*slots(N)+4; both results equal the host loop. A second stream generates never-ending nilary functions `#{ steps…, ^ }` (1-4 steps that bind or leave integers, tuples and fresh binaries; the bare `^` last, directly or under a nested block / a branch) and samples their space after 40 000 and after 2 000 000 instruction units: the same peaks, slots bounded. evaluations = executor runs; non-trivial = the loop body has a binding and a nested block before the call; distinct by program text".into(),
        assumptions: vec![
            "ExecutionStats peaks are updated per instruction (profile = true), so they do not depend on slicing".into(),
            "slot reclamation happens once per slice, hence the 2x+4 tolerance on slots rather than equality".into(),
            "only tail calls in genuine tail position are generated (a non-tail `^` is the recorded C07 finding)".into(),
        ],
        required_classes: vec!["kind:self-tail-call", "kind:mutual-recursion-through-parameters", "kind:ripple-tail-call-of-closures", "kind:self-through-record-field", "kind:mutual-through-record-fields", "allocating-shape-also-run-at-quantum-1000", "state-carries-several-binaries", "state-carries-a-binary-rebuilt-every-iteration", "entered-through-named-tail-call", "wrap:nested-block", "wrap:binding-before-call-in-same-branch", "wrap:inside-consequence", "wrap:after-failed-binding-match", "wrap:redundant-liftable-block", "two-different-paths-by-parity", "iterations-allocate-heap-binaries", "small-run-spans-30-slices", "kind:never-ending-nilary-loop", "nilary-loop-allocates"],
        started,
        technique: "proptest-generated tail-recursive program shapes; oracle = metamorphic (space at N vs 50N: peaks equal, heap slots bounded) + host-loop result model",
    })
}

pub fn replay(payload: &serde_json::Value) -> Result<(), String> {
    let reg = qrun::registry();
    if payload["kind"] == "c16-nilary" {
        let src = payload["source"].as_str().ok_or("source")?;
        return match check_nilary(src, &reg) {
            Ok(_) => Ok(()),
            Err((s, m)) => Err(format!("{s}: {}", truncate(&m, 3000))),
        };
    }
    let small = payload["source_small"].as_str().ok_or("source_small")?;
    let big = payload["source_big"].as_str().ok_or("source_big")?;
    let quantum = payload["quantum"].as_u64().unwrap_or(QUANTUM as u64) as usize;
    let (vs, ss) = measure(small, &reg, quantum).map_err(|(s, m)| format!("{s}: {}", truncate(&m, 2000)))?.ok_or("small run exceeded its budget")?;
    let (vb, sb) = measure(big, &reg, quantum).map_err(|(s, m)| format!("{s}: {}", truncate(&m, 2000)))?.ok_or("big run exceeded its budget")?;
    println!("  small: {vs} {ss:?}\n  big:   {vb} {sb:?}");
    if let Some(e) = payload["expected_small"].as_str()
        && e != vs
    {
        return Err(format!("result {vs}, expected {e}"));
    }
    if let Some(e) = payload["expected_big"].as_str()
        && e != vb
    {
        return Err(format!("result {vb}, expected {e}"));
    }
    if ss.frames != sb.frames || ss.locals != sb.locals || ss.stack != sb.stack {
        return Err(format!("peaks differ: {ss:?} vs {sb:?}"));
    }
    if sb.slots > 2 * ss.slots + 4 {
        return Err(format!("heap slots grow: {} -> {}", ss.slots, sb.slots));
    }
    Ok(())
}
