//! C11 — REPL evaluation is equivalent to evaluating the lines as one program.

use crate::fw::*;
use crate::hval::HVal;
use crate::props::c03::QUANTA;
use crate::qrun::{self, Modules, RunEnd};
use crate::replsim::{LineOutcome, ReplSim};
use crate::sim::SimCfg;
use proptest::prelude::*;
use quiver_compiler::compiler::Binding;
use serde_json::json;
use std::time::Instant;

#[derive(Clone, Debug)]
pub struct Case {
    /// one dice quadruple per step
    pub steps: Vec<[u8; 4]>,
    /// line break after step i (the last step always ends a line)
    pub breaks: Vec<bool>,
    /// (line position, kind) of rejected lines to insert
    pub rejects: Vec<(u8, u8)>,
    pub cfg: (u8, u8, Vec<u8>),
    /// lines of an earlier session on the same environment (0 = fresh environment)
    pub history: u8,
}

pub fn strategy() -> impl Strategy<Value = Case> {
    (
        prop::collection::vec(any::<[u8; 4]>(), 3..14),
        prop::collection::vec(prop::bool::weighted(0.6), 14),
        prop::collection::vec((any::<u8>(), 0u8..8), 0..3),
        (1u8..=3, 0u8..6, prop::collection::vec(any::<u8>(), 0..150)),
        prop_oneof![2 => Just(0u8), 3 => 1u8..5],
    )
        .prop_map(|(steps, breaks, rejects, cfg, history)| Case { steps, breaks, rejects, cfg, history })
}

#[derive(Clone, Copy, PartialEq, Debug)]
enum K {
    /// `#'int -> ('int | 'bin)`
    UFn,
    /// a value of type 'int | 'bin
    UVal,
    Int,
    Bin,
    Pair,
    Rec,
    Fn,
    Thunk,
    AliasFn,
    Mod,
    Ok,
    Other,
    /// a generic constructor function `#<'t>'t { G[p: ~, q: E] }`
    Mk,
    /// (literal `G[p: i, q: E]`, the same value built by a generic constructor): equal values that
    /// carry different internal tuple ids; the name of the second is the first's with `v` appended
    GPair,
}

#[derive(Default, Clone)]
struct Env {
    /// (name, kind, step index where it was (last) bound)
    vars: Vec<(String, K, usize)>,
    aliases: Vec<String>,
    n: usize,
}

impl Env {
    fn of(&self, k: K) -> Vec<&(String, K, usize)> {
        self.vars.iter().filter(|v| v.1 == k).collect()
    }
    fn bind(&mut self, name: &str, k: K, step: usize) -> bool {
        let shadow = self.vars.iter().any(|v| v.0 == name);
        self.vars.retain(|v| v.0 != name);
        self.vars.push((name.to_string(), k, step));
        shadow
    }
    fn fresh(&mut self, p: &str) -> String {
        self.n += 1;
        format!("{p}{}", self.n)
    }
}

fn pick<'a, T>(d: u8, v: &'a [T]) -> &'a T {
    &v[(d as usize * v.len()) >> 8]
}

#[derive(Clone, Debug, Default)]
pub struct StepText {
    pub text: String,
    pub shadow: bool,
    pub destructure: bool,
    /// the step creates a closure capturing a binding made at this step index
    pub captures_from: Option<usize>,
    pub alias_only: bool,
    pub uses_prev: bool,
    pub import: bool,
    pub type_test: bool,
    pub equality: bool,
}

pub const MODULE: &str = "[k: 5, inc: #'int { [~, 1] __integer_add__ }, tag: 0xbeef]";

fn int_atom(d: u8, env: &Env) -> String {
    let ints = env.of(K::Int);
    if !ints.is_empty() && d % 3 != 0 { pick(d, &ints).0.clone() } else { ((d as i64) - 100).to_string() }
}

fn bin_atom(d: u8, env: &Env) -> String {
    let bins = env.of(K::Bin);
    if !bins.is_empty() && d % 3 != 0 { pick(d, &bins).0.clone() } else { format!("0x{:02x}{:02x}", d, d.wrapping_mul(7)) }
}

fn int_expr(d: [u8; 4], env: &Env) -> String {
    match d[1] % 7 {
        0 => int_atom(d[2], env),
        1 => format!("[{}, {}] __integer_add__", int_atom(d[2], env), int_atom(d[3], env)),
        2 if !env.of(K::Rec).is_empty() => format!("{}.x", pick(d[2], &env.of(K::Rec)).0),
        3 if !env.of(K::Pair).is_empty() => format!("{}.0", pick(d[2], &env.of(K::Pair)).0),
        4 if !env.of(K::Fn).is_empty() => format!("{} {}", int_atom(d[2], env), pick(d[3], &env.of(K::Fn)).0),
        5 => "123456789012345678901234567890".to_string(),
        _ => format!("[{}, 3] __integer_multiply__", int_atom(d[2], env)),
    }
}

fn bin_expr(d: [u8; 4], env: &Env) -> String {
    match d[1] % 4 {
        0 => bin_atom(d[2], env),
        1 => format!("[{}, {}] __binary_concat__", bin_atom(d[2], env), bin_atom(d[3], env)),
        2 => format!("[0x{:02x}, {}] __binary_repeat__", d[2], d[3] % 7),
        _ if !env.of(K::Rec).is_empty() => format!("{}.y", pick(d[2], &env.of(K::Rec)).0),
        _ => bin_atom(d[3], env),
    }
}

/// Render the steps; deterministic in the dice.
pub fn render_steps(dice: &[[u8; 4]]) -> Vec<StepText> {
    let mut env = Env::default();
    let mut out: Vec<StepText> = Vec::new();
    let mut prev_kind = K::Other;
    for (i, d) in dice.iter().enumerate() {
        let mut st = StepText::default();
        let mut kind = K::Ok;
        let choice = d[0] % 46;
        let text = match choice {
            1 if !env.of(K::Int).is_empty() => {
                let v = pick(d[1], &env.of(K::Int)).0.clone();
                st.shadow = env.bind(&v, K::Int, i);
                format!("{v} = [{v}, {}] __integer_add__", d[2])
            }
            2 | 3 => {
                let n = env.fresh("b");
                let e = bin_expr(*d, &env);
                env.bind(&n, K::Bin, i);
                format!("{n} = {e}")
            }
            4 => {
                let n = env.fresh("t");
                let e = format!("[{}, {}]", int_atom(d[1], &env), bin_atom(d[2], &env));
                env.bind(&n, K::Pair, i);
                format!("{n} = {e}")
            }
            5 => {
                let n = env.fresh("r");
                let e = format!("P[x: {}, y: {}]", int_atom(d[1], &env), bin_atom(d[2], &env));
                env.bind(&n, K::Rec, i);
                format!("{n} = {e}")
            }
            6 if !env.of(K::Pair).is_empty() => {
                let t = pick(d[1], &env.of(K::Pair)).0.clone();
                let (a, b) = (env.fresh("pa"), env.fresh("pb"));
                env.bind(&a, K::Int, i);
                env.bind(&b, K::Bin, i);
                st.destructure = true;
                format!("[{a}, {b}] = {t}")
            }
            7 if !env.of(K::Rec).is_empty() => {
                let r = pick(d[1], &env.of(K::Rec)).0.clone();
                let s1 = env.bind("x", K::Int, i);
                let s2 = env.bind("y", K::Bin, i);
                st.shadow = s1 || s2;
                st.destructure = true;
                match d[2] % 3 {
                    0 => format!("(x, y) = {r}"),
                    1 => format!("* = {r}"),
                    _ => format!("P[x: x, y: y] = {r}"),
                }
            }
            8 | 9 if !env.of(K::Int).is_empty() => {
                let (v, _, at) = (*pick(d[1], &env.of(K::Int))).clone();
                let n = env.fresh("f");
                env.bind(&n, K::Fn, i);
                st.captures_from = Some(at);
                format!("{n} = #'int {{ [~, {v}] __integer_add__ }}")
            }
            10 if !env.of(K::Int).is_empty() && !env.of(K::Bin).is_empty() => {
                let (v, _, at) = (*pick(d[1], &env.of(K::Int))).clone();
                let b = pick(d[2], &env.of(K::Bin)).0.clone();
                let n = env.fresh("g");
                env.bind(&n, K::Thunk, i);
                st.captures_from = Some(at);
                format!("{n} = #{{ [{v}, {b}] }}")
            }
            11 => {
                let a = env.fresh("ty");
                env.aliases.push(a.clone());
                st.alias_only = true;
                kind = prev_kind; // a type definition produces no code: the previous result stays
                format!("'{a} = Q[a: 'int] | 'int")
            }
            12 if !env.aliases.is_empty() => {
                let a = pick(d[1], &env.aliases).clone();
                let n = env.fresh("h");
                env.bind(&n, K::AliasFn, i);
                format!("{n} = #'{a} {{ | =Q[a: a] => a | ='int => 0 }}")
            }
            13 | 27 => {
                st.import = true;
                if d[1] % 2 == 0 {
                    let n = env.fresh("mm");
                    env.bind(&n, K::Mod, i);
                    format!("{n} = %m1")
                } else {
                    let s1 = env.bind("k", K::Int, i);
                    let s2 = env.bind("inc", K::Fn, i);
                    st.shadow = s1 || s2;
                    st.destructure = true;
                    "(k, inc) = %m1".to_string()
                }
            }
            28 | 40 | 41 => {
                let n = env.fresh("fu");
                env.bind(&n, K::UFn, i);
                format!("{n} = #'int {{ | =0 => 0x00 | =n => n }}")
            }
            29 | 42 | 43 if !env.of(K::UFn).is_empty() => {
                let fu = pick(d[1], &env.of(K::UFn)).0.clone();
                let n = env.fresh("u");
                env.bind(&n, K::UVal, i);
                format!("{n} = {} {fu}", d[2] % 3)
            }
            30 | 44 | 45 if !env.of(K::UVal).is_empty() => {
                // possibly the first run-time test against 'int / 'bin in the session
                kind = K::Int;
                st.type_test = true;
                let u = pick(d[1], &env.of(K::UVal)).0.clone();
                if d[2] % 2 == 0 { format!("{u} {{ | ='int => 1 | ='bin => 2 }}") } else { format!("{u} {{ | ='bin => 2 | ='int => 1 }}") }
            }
            31 | 34 | 35 => {
                let n = env.fresh("mk");
                env.bind(&n, K::Mk, i);
                format!("{n} = #<'t>'t {{ G[p: ~, q: E] }}")
            }
            32 | 36 | 37 if !env.of(K::Mk).is_empty() => {
                let mk = pick(d[1], &env.of(K::Mk)).0.clone();
                let n = env.fresh("ga");
                let atom = int_atom(d[2], &env);
                env.bind(&n, K::GPair, i);
                env.bind(&format!("{n}v"), K::Other, i);
                format!("{n} = G[p: {atom}, q: E], {n}v = {atom} {mk}")
            }
            33 | 38 | 39 if !env.of(K::GPair).is_empty() => {
                // structural equality of two values with different internal tuple ids, possibly
                // on a later line than the one that introduced the tuple shapes
                let a = pick(d[1], &env.of(K::GPair)).0.clone();
                st.equality = true;
                // as a branch, so that the step (hence the line) is never nil — not even statically
                kind = K::Int;
                match d[2] % 3 {
                    0 => format!("{{ {a} =&{a}v => 1 | 0 }}"),
                    1 => format!("{{ {a}v =&{a} => 1 | 0 }}"),
                    _ => format!("{{ Wr[{a}] =Wr[&{a}v] => 1 | 0 }}"),
                }
            }
            // expression steps
            14 | 24 | 25 => {
                kind = K::Int;
                int_expr(*d, &env)
            }
            15 => {
                kind = K::Bin;
                bin_expr(*d, &env)
            }
            16 if !env.of(K::Pair).is_empty() => {
                kind = K::Pair;
                pick(d[1], &env.of(K::Pair)).0.clone()
            }
            17 if !env.of(K::Thunk).is_empty() => {
                kind = K::Pair;
                format!("[] {}", pick(d[1], &env.of(K::Thunk)).0)
            }
            18 if !env.of(K::Fn).is_empty() => {
                kind = K::Other;
                format!("&{}", pick(d[1], &env.of(K::Fn)).0)
            }
            19 if !env.of(K::AliasFn).is_empty() => {
                kind = K::Int;
                let h = pick(d[1], &env.of(K::AliasFn)).0.clone();
                if d[2] % 2 == 0 { format!("Q[a: {}] {h}", int_atom(d[3], &env)) } else { format!("{} {h}", int_atom(d[3], &env)) }
            }
            20 if !env.of(K::Mod).is_empty() => {
                kind = K::Int;
                let m = pick(d[1], &env.of(K::Mod)).0.clone();
                if d[2] % 2 == 0 { format!("{} {m}.inc", int_atom(d[3], &env)) } else { format!("{m}.k") }
            }
            21..=23 if prev_kind == K::Int => {
                kind = K::Int;
                st.uses_prev = true;
                format!("[~, {}] __integer_multiply__", 2 + d[1] % 3)
            }
            _ => {
                let n = env.fresh("v");
                let e = int_expr(*d, &env);
                env.bind(&n, K::Int, i);
                format!("{n} = {e}")
            }
        };
        st.text = text;
        prev_kind = kind;
        out.push(st);
    }
    out
}

pub const REJECTS: [&str; 8] = [
    "v99 = [1, ",
    "[zz_undefined, 1] __integer_add__",
    "[0x00, 1] __integer_add__",
    "q99 = 5, [q99, 0x00] __integer_add__",
    "x = 0x00, y = 1, v1 = 0x01, [x, 1] __integer_add__",
    "'zz = 'int, zz_undefined",
    "mq99 = %m1, zz_undefined",
    "(k, inc) = %m1, [k, 0x00] __integer_add__",
];

#[derive(Clone, Debug)]
pub struct Session {
    /// (text, is a deliberately rejected line, index of the last step on this line)
    pub lines: Vec<(String, bool, usize)>,
    pub steps: Vec<StepText>,
}

pub fn session(c: &Case) -> Session {
    let steps = render_steps(&c.steps);
    let mut lines: Vec<(String, bool, usize)> = Vec::new();
    let mut cur: Vec<String> = Vec::new();
    for (i, st) in steps.iter().enumerate() {
        cur.push(st.text.clone());
        // a type alias is only allowed at the start of a program, hence of a line
        let next_is_alias = steps.get(i + 1).is_some_and(|n| n.alias_only);
        if i + 1 == steps.len() || next_is_alias || c.breaks.get(i).copied().unwrap_or(true) {
            lines.push((cur.join(", "), false, i));
            cur.clear();
        }
    }
    // insert rejected lines (never first: some need earlier context to be interesting, all work anywhere)
    let mut rejects: Vec<(usize, usize)> = c.rejects.iter().map(|(p, k)| (((*p as usize) * (lines.len() + 1)) >> 8, *k as usize % REJECTS.len())).collect();
    rejects.sort();
    for (off, (pos, k)) in rejects.into_iter().enumerate() {
        let at = (pos + off).min(lines.len());
        let last_step = if at == 0 { usize::MAX } else { lines[at - 1].2 };
        lines.insert(at, (REJECTS[k].to_string(), true, last_step));
    }
    Session { lines, steps }
}

fn modules() -> Modules {
    qrun::modules_from(&[("m1", MODULE)])
}

/// Reference: the steps 0..=upto as one program.
fn model_run(steps: &[StepText], upto: usize, extra: Option<&str>, reg: &qrun::Registry) -> Result<(Option<HVal>, Vec<String>), String> {
    // type aliases are hoisted to the front: a single program allows them only there
    let mut text: Vec<String> = steps[..=upto].iter().filter(|s| s.alias_only).map(|s| s.text.clone()).collect();
    text.extend(steps[..=upto].iter().filter(|s| !s.alias_only).map(|s| s.text.clone()));
    if let Some(e) = extra {
        text.push(e.to_string());
    }
    let src = text.join(",\n");
    let c = qrun::compile(&src, &modules(), reg).map_err(|e| format!("the single program is rejected: {e:?}\n{src}"))?;
    let mut names: Vec<String> = c.bindings.iter().filter(|(_, b)| matches!(b, Binding::Variable { .. })).map(|(n, _)| n.clone()).collect();
    names.sort();
    let Some(entry) = c.entry else { return Ok((None, names)) };
    let bc = c.program.to_bytecode(Some(entry));
    let run = qrun::run_sync(&bc, reg, 1000, 20_000_000, false);
    match run.end {
        RunEnd::Value(v) => {
            let t = crate::hval::Tables { tuples: &bc.tuples, constants: &bc.constants };
            Ok((Some(crate::hval::from_executor(&v, &run.executor, &t)), names))
        }
        other => Err(format!("the single program does not produce a value: {other:?}\n{src}")),
    }
}

#[derive(Default)]
pub struct Facts {
    pub lines: u32,
    pub rejected: u32,
    pub variables_checked: u32,
    pub shadow_or_destructure: bool,
    pub line_after_rejected: bool,
    pub old_capture: bool,
    pub uses_prev_across_lines: bool,
    pub import: bool,
    pub type_test: bool,
    pub equality: bool,
    pub alias_only_line: bool,
    pub heap_checks: u64,
    pub inconclusive: bool,
}

pub fn check(c: &Case, reg: &qrun::Registry) -> Result<Facts, (String, String)> {
    let s = session(c);
    let (workers, qi, schedule) = &c.cfg;
    let q = QUANTA[*qi as usize % QUANTA.len()];
    let cfg = SimCfg { workers: *workers as usize, quanta: vec![q], schedule: schedule.clone(), max_moves: 3_000_000, env_slow: 0 };
    let transcript = |upto: usize| -> String { s.lines[..=upto.min(s.lines.len() - 1)].iter().enumerate().map(|(i, (l, rej, _))| format!("  {}{i:2}> {l}", if *rej { "x" } else { " " })).collect::<Vec<_>>().join("\n") };
    let desc = format!("workers={workers} quantum={q} schedule={}", hex(schedule));
    let mut rs = match ReplSim::new(cfg, &modules(), reg) {
        Ok(r) => r,
        Err(e) => return Err(("harness".into(), e)),
    };
    // an earlier session on the same environment (constants, tuples and functions already merged)
    const HISTORY: [&str; 4] = ["1000", "hx = 77, ht = P[x: hx, y: 0xdead]", "[hx, 5000, ht]", "hf = #'int { [~, 31337] __integer_add__ }, 4 hf"];
    if c.history > 0 {
        for l in HISTORY.iter().take(c.history as usize) {
            if let Err(e) = rs.eval(l) {
                return Err(("harness".into(), format!("history line {l}: {e}")));
            }
        }
        if let Err(e) = rs.restart(&modules(), reg) {
            return Err(("harness".into(), e));
        }
    }
    let mut f = Facts::default();
    // line index of each step
    let mut line_of_step = vec![0usize; s.steps.len()];
    {
        let mut li = 0;
        for (idx, (_, rej, last)) in s.lines.iter().enumerate() {
            if *rej {
                continue;
            }
            while li <= *last {
                line_of_step[li] = idx;
                li += 1;
            }
        }
    }
    let mut seen_reject = false;
    for (li, (line, is_reject, last_step)) in s.lines.iter().enumerate() {
        let out = match catch(std::panic::AssertUnwindSafe(|| rs.eval(line))) {
            Ok(Ok(o)) => o,
            Ok(Err(e)) if e == "budget" => {
                f.inconclusive = true;
                return Ok(f);
            }
            Ok(Err(e)) => {
                let sig = if e.contains("invariant") { "heap-invariant" } else { "session-broken" };
                return Err((sig.into(), format!("{desc}: line {li}: {e}\n{}", transcript(li))));
            }
            Err(p) => return Err(("panic".into(), format!("{desc}: line {li} panicked: {p}\n{}", transcript(li)))),
        };
        f.lines += 1;
        if *is_reject {
            f.rejected += 1;
            seen_reject = true;
            if !matches!(out, LineOutcome::RejectedByParser(_) | LineOutcome::RejectedByCompiler(_)) {
                return Err(("generator-rejected".into(), format!("{desc}: line {li} was meant to be rejected but gave {out:?}\n{}", transcript(li))));
            }
        } else {
            if seen_reject {
                f.line_after_rejected = true;
            }
            let (model, _) = model_run(&s.steps, *last_step, None, reg).map_err(|e| ("generator-rejected".to_string(), format!("{e}\n{}", transcript(li))))?;
            match (&out, &model) {
                (LineOutcome::Value(v), Some(m)) => {
                    if v.canon() != m.canon() {
                        return Err(("line-result-differs".into(), format!("{desc}: line {li} evaluates to {} in the session but the same steps as one program give {}\n{}", v.full(), m.full(), transcript(li))));
                    }
                }
                (LineOutcome::NoCode, _) => f.alias_only_line = true,
                (other, m) => {
                    return Err(("line-result-differs".into(), format!("{desc}: line {li} gives {other:?} in the session but the same steps as one program give {:?}\n{}", m.as_ref().map(|m| m.full()), transcript(li))));
                }
            }
            for st in &s.steps[..=*last_step] {
                f.shadow_or_destructure |= st.shadow || st.destructure;
                f.import |= st.import;
                f.type_test |= st.type_test;
                f.equality |= st.equality;
            }
            // closures on this line that captured a binding from >= 2 lines earlier
            let first_step = s.lines[..li].iter().rev().find(|l| !l.1).map(|l| l.2 + 1).unwrap_or(0);
            for (si, st) in s.steps.iter().enumerate().take(*last_step + 1).skip(first_step) {
                if let Some(at) = st.captures_from
                    && line_of_step[si] >= line_of_step[at] + 2
                {
                    f.old_capture = true;
                }
                if st.uses_prev && si == first_step {
                    f.uses_prev_across_lines = true;
                }
            }
        }
        // after every line (accepted or rejected): the session's variables are the model's
        if *last_step == usize::MAX {
            let vars = rs.variables();
            if !vars.is_empty() {
                return Err(("rejected-line-changed-session".into(), format!("{desc}: after the rejected first line the session has variables {vars:?}\n{}", transcript(li))));
            }
            continue;
        }
        let (_, mut names) = model_run(&s.steps, *last_step, None, reg).map_err(|e| ("generator-rejected".to_string(), e))?;
        names.sort();
        let mut vars = rs.variables();
        vars.sort();
        if vars != names {
            let sig = if *is_reject { "rejected-line-changed-session" } else { "variables-differ" };
            return Err((sig.into(), format!("{desc}: after line {li} the session has variables {vars:?}, the single program has {names:?}\n{}", transcript(li))));
        }
        for name in &names {
            let got = match catch(std::panic::AssertUnwindSafe(|| rs.variable(name))) {
                Ok(Ok(v)) => v,
                Ok(Err(e)) if e == "budget" => {
                    f.inconclusive = true;
                    return Ok(f);
                }
                Ok(Err(e)) => return Err(("session-broken".into(), format!("{desc}: after line {li}: {e}\n{}", transcript(li)))),
                Err(p) => return Err(("panic".into(), format!("{desc}: request_variable({name}) after line {li} panicked: {p}\n{}", transcript(li)))),
            };
            let (want, _) = model_run(&s.steps, *last_step, Some(&format!("&{name}")), reg).map_err(|e| ("generator-rejected".to_string(), e))?;
            let want = want.ok_or_else(|| ("generator-rejected".to_string(), "no value".to_string()))?;
            f.variables_checked += 1;
            if got.canon() != want.canon() {
                let sig = if *is_reject { "rejected-line-changed-session" } else { "variable-value-differs" };
                return Err((sig.into(), format!("{desc}: after line {li} variable {name} is {} in the session but {} in the single program\n{}", got.full(), want.full(), transcript(li))));
            }
        }
    }
    f.heap_checks = rs.heap.checks;
    Ok(f)
}

pub fn run(ctx: &Ctx) -> i32 {
    let started = Instant::now();
    let stats = Stats::new();
    let known = KnownFindings::load();
    let cases_per_shard: u32 = ctx.tier.pick(900, 25_000);

    let violations = run_sharded(ctx.shards, |shard| {
        let reg = qrun::registry();
        let mut out = Vec::new();
        let strat = strategy();
        let res = pt_search(derive_seed(ctx.seed, ctx.id, shard, 0), cases_per_shard, &strat, &stats, |case| {
            crumb(ctx.id, || case_json(case));
            match check(case, &reg) {
                Ok(f) => {
                    if f.inconclusive {
                        stats.inconclusive();
                        return Ok(());
                    }
                    stats.evals(f.lines as u64);
                    stats.class_n("variables-compared", f.variables_checked as u64);
                    stats.class_n("heap-invariant-checks", f.heap_checks);
                    stats.class_n("rejected-lines", f.rejected as u64);
                    if f.shadow_or_destructure {
                        stats.class("shadowing-or-destructuring");
                    }
                    if f.line_after_rejected {
                        stats.class("line-after-a-rejected-line");
                    }
                    if f.old_capture {
                        stats.class("closure-captures-binding-from-2+-lines-earlier");
                    }
                    if f.uses_prev_across_lines {
                        stats.class("previous-result-flows-into-next-line");
                    }
                    if f.import {
                        stats.class("import");
                    }
                    if f.type_test {
                        stats.class("first-type-test-on-an-older-type");
                    }
                    if f.equality {
                        stats.class("equality-of-values-with-different-tuple-ids");
                    }
                    if f.alias_only_line {
                        stats.class("type-alias-only-line");
                    }
                    if case.cfg.0 >= 2 {
                        stats.class("2+-workers");
                    }
                    if case.history > 0 {
                        stats.class("environment-with-an-earlier-session");
                    }
                    if f.shadow_or_destructure && f.line_after_rejected && f.old_capture {
                        let s = session(case);
                        let text: String = s.lines.iter().map(|(l, r, _)| format!("{}{l}\n", if *r { "x " } else { "  " })).collect();
                        stats.nontrivial(&text);
                        stats.sample(|| json!({"lines": s.lines.iter().map(|(l, r, _)| json!({"line": l, "rejected": r})).collect::<Vec<_>>()}));
                    }
                    Ok(())
                }
                Err((sig, msg)) => {
                    if !ctx.strict && known.is_known(ctx.id, &sig).is_some() {
                        stats.known_hit(&sig);
                        return Ok(());
                    }
                    Err(format!("{sig}\u{1}{msg}"))
                }
            }
        });
        if let Search::Failed { minimal, message } = res {
            let (sig, msg) = message.split_once('\u{1}').map(|(a, b)| (a.to_string(), b.to_string())).unwrap_or((message.clone(), message));
            out.push(Violation { signature: sig, summary: truncate(&msg, 6000), replay: case_json(&minimal) });
        }
        out
    });

    finish(Report {
        ctx,
        stats: &stats,
        violations,
        rule: "histories of 3-13 steps drawn from: integer/binary/pair/record bindings built from earlier bindings, shadowing, destructuring (positional, partial, star, named), closures with and without a parameter capturing earlier bindings, a type alias and a function over it, an import (whole module or destructured), a function returning 'int | 'bin, a variable holding such a value and a later run-time type test on it, a generic constructor function, a literal and the same value built by it (equal values with different internal tuple ids) and later equality tests between the two, and expression steps (values, field access, calls, closure values, the previous result through `~`); the steps are split into lines at generated places and 0-2 rejected lines (parse error, undefined variable, type error, a binding followed by a type error, re-bindings followed by a type error, an alias followed by an undefined variable, an import followed by an error) are inserted; the environment is fresh or has already served an earlier session of 1-4 lines; the session runs in the simulator (1-3 workers, generated quantum and schedule) with the C06 heap invariants after every worker step. Oracle: every accepted line's value equals the value of the same steps compiled and run as one program; after every line — accepted or rejected — get_variables() equals the single program's bindings and request_variable(name) equals `&name` appended to the single program. evaluations = lines; non-trivial = a history with shadowing/destructuring, a line after a rejected line and a closure that captured a binding from >= 2 lines earlier; distinct by transcript".into(),
        assumptions: vec![
            "no step evaluates to nil (generated steps never do), so the single program is not short-circuited".into(),
            "function values are compared by their captured values, not by index".into(),
        ],
        required_classes: vec!["shadowing-or-destructuring", "line-after-a-rejected-line", "closure-captures-binding-from-2+-lines-earlier", "previous-result-flows-into-next-line", "import", "type-alias-only-line", "2+-workers", "environment-with-an-earlier-session", "first-type-test-on-an-older-type", "equality-of-values-with-different-tuple-ids", "variables-compared", "rejected-lines"],
        started,
        technique: "proptest-generated REPL histories (steps x line splits x rejected lines x schedules) in the deterministic simulator; oracle = the same steps compiled and run as one program (per-line values, variable set and variable values) + heap invariants",
    })
}

fn case_json(c: &Case) -> serde_json::Value {
    let s = session(c);
    json!({"kind": "c11", "steps": c.steps.iter().map(|d| d.to_vec()).collect::<Vec<_>>(), "breaks": c.breaks, "rejects": c.rejects.iter().map(|(a, b)| vec![*a, *b]).collect::<Vec<_>>(),
        "workers": c.cfg.0, "qi": c.cfg.1, "history": c.history, "schedule": hex(&c.cfg.2), "lines": s.lines.iter().map(|(l, r, _)| json!({"line": l, "rejected": r})).collect::<Vec<_>>()})
}

pub fn replay(payload: &serde_json::Value) -> Result<(), String> {
    let steps: Vec<[u8; 4]> = payload["steps"].as_array().ok_or("steps")?.iter().map(|a| {
        let v: Vec<u8> = a.as_array().map(|x| x.iter().map(|y| y.as_u64().unwrap_or(0) as u8).collect()).unwrap_or_default();
        [v.first().copied().unwrap_or(0), v.get(1).copied().unwrap_or(0), v.get(2).copied().unwrap_or(0), v.get(3).copied().unwrap_or(0)]
    }).collect();
    let breaks: Vec<bool> = payload["breaks"].as_array().map(|a| a.iter().map(|x| x.as_bool().unwrap_or(true)).collect()).unwrap_or_default();
    let rejects: Vec<(u8, u8)> = payload["rejects"].as_array().map(|a| a.iter().map(|x| (x[0].as_u64().unwrap_or(0) as u8, x[1].as_u64().unwrap_or(0) as u8)).collect()).unwrap_or_default();
    let c = Case { steps, breaks, rejects, cfg: (payload["workers"].as_u64().unwrap_or(1) as u8, payload["qi"].as_u64().unwrap_or(5) as u8, unhex(payload["schedule"].as_str().unwrap_or(""))), history: payload["history"].as_u64().unwrap_or(0) as u8 };
    let reg = qrun::registry();
    for (l, r, _) in &session(&c).lines {
        println!("  {}{l}", if *r { "x " } else { "  " });
    }
    check(&c, &reg).map(|_| ()).map_err(|(s, m)| format!("{s}: {}", truncate(&m, 4000)))
}
