//! C12 — builtins are total and agree with simple reference models.

use crate::fw::*;
use crate::hval::{self, HVal, Tables};
use crate::qrun::{self, Eff};
use num_bigint::{BigInt, Sign};
use num_integer::Integer;
use num_traits::{One, Signed, ToPrimitive, Zero};
use proptest::prelude::*;
use quiver_core::binary::BinaryData;
use quiver_core::builtins::{BuiltinResult, TypeSpec};
use quiver_core::executor::Executor;
use quiver_core::value::{MAX_BINARY_SIZE, Value};
use serde_json::json;
use std::rc::Rc;
use std::time::Instant;

// ---------------------------------------------------------------------------------------------
// Generated arguments

/// A rope recipe: how to build a BinaryData with some content.
#[derive(Clone, Debug)]
pub enum Rope {
    Owned(Vec<u8>),
    Zeroed(usize),
    Slice(Box<Rope>, u16, u16),
    Concat(Box<Rope>, Box<Rope>),
    Tiled(Box<Rope>, u8),
    /// left-deep spine of single bytes
    Spine(Vec<u8>),
    /// Big lazily-represented binaries (thorough tier): Zeroed(MAX - delta)
    Big(u8),
}

impl Rope {
    pub fn bytes(&self) -> Vec<u8> {
        match self {
            Rope::Owned(v) | Rope::Spine(v) => v.clone(),
            Rope::Zeroed(n) => vec![0; *n],
            Rope::Slice(p, o, l) => {
                let b = p.bytes();
                let (o, l) = slice_bounds(b.len(), *o, *l);
                b[o..o + l].to_vec()
            }
            Rope::Concat(a, b) => {
                let mut v = a.bytes();
                v.extend(b.bytes());
                v
            }
            Rope::Tiled(u, c) => {
                let b = u.bytes();
                let mut v = Vec::new();
                for _ in 0..*c {
                    v.extend_from_slice(&b);
                }
                v
            }
            Rope::Big(d) => vec![0; MAX_BINARY_SIZE - (*d as usize % 3)],
        }
    }
    pub fn build(&self) -> BinaryData {
        match self {
            Rope::Owned(v) => BinaryData::new(v.clone()),
            Rope::Zeroed(n) => BinaryData::zeroed(*n),
            Rope::Slice(p, o, l) => {
                let pd = p.build();
                let (o, l) = slice_bounds(pd.len(), *o, *l);
                BinaryData::slice(Rc::new(pd), o, l).expect("slice in bounds")
            }
            Rope::Concat(a, b) => BinaryData::concat(Rc::new(a.build()), Rc::new(b.build())),
            Rope::Tiled(u, c) => BinaryData::tiled(Rc::new(u.build()), *c as usize),
            Rope::Spine(v) => {
                let mut cur = BinaryData::new(Vec::new());
                for b in v {
                    cur = BinaryData::concat(Rc::new(cur), Rc::new(BinaryData::new(vec![*b])));
                }
                cur
            }
            Rope::Big(d) => BinaryData::zeroed(MAX_BINARY_SIZE - (*d as usize % 3)),
        }
    }
    pub fn is_owned(&self) -> bool {
        matches!(self, Rope::Owned(_))
    }
}

fn slice_bounds(len: usize, o: u16, l: u16) -> (usize, usize) {
    let o = ((o as usize) * (len + 1)) >> 16;
    let rem = len - o;
    let l = ((l as usize) * (rem + 1)) >> 16;
    (o, l)
}

fn lane_vec() -> impl Strategy<Value = Vec<u8>> {
    let lane = prop_oneof![
        4 => prop::sample::select(vec![i64::MIN, i64::MAX, i64::MIN + 1, i32::MIN as i64, i32::MAX as i64, -1, 0, 1, 1 << 31, 1 << 32, -(1 << 31) - 1]),
        1 => any::<i64>(),
        1 => -100i64..100,
    ];
    (prop::sample::select(vec![4usize, 8]), prop::collection::vec(lane, 0..6)).prop_map(|(w, lanes)| {
        let mut out = Vec::new();
        for l in lanes {
            if w == 4 {
                out.extend_from_slice(&(l as i32).to_le_bytes());
            } else {
                out.extend_from_slice(&l.to_le_bytes());
            }
        }
        out
    })
}

fn byte_vec() -> impl Strategy<Value = Vec<u8>> {
    prop_oneof![3 => raw_byte_vec(), 1 => lane_vec()]
}

fn raw_byte_vec() -> impl Strategy<Value = Vec<u8>> {
    let len = prop_oneof![
        4 => 0usize..=2,
        6 => prop::sample::select(vec![3usize, 4, 7, 8, 9, 12, 15, 16, 17, 24]),
        2 => 0usize..=40,
        1 => 60usize..=70,
    ];
    let byte = prop_oneof![
        3 => any::<u8>(),
        2 => prop::sample::select(vec![0u8, 1, 0x7f, 0x80, 0xff, 0x0a]),
    ];
    len.prop_flat_map(move |n| prop::collection::vec(byte.clone(), n))
}

pub fn rope(allow_big: bool) -> impl Strategy<Value = Rope> {
    let leaf = prop_oneof![
        6 => byte_vec().prop_map(Rope::Owned),
        1 => (0usize..=20).prop_map(Rope::Zeroed),
        1 => byte_vec().prop_map(Rope::Spine),
    ];
    let s = leaf.prop_recursive(3, 12, 2, |inner| {
        prop_oneof![
            (inner.clone(), any::<u16>(), any::<u16>()).prop_map(|(p, o, l)| Rope::Slice(Box::new(p), o, l)),
            (inner.clone(), inner.clone()).prop_map(|(a, b)| Rope::Concat(Box::new(a), Box::new(b))),
            (inner, 0u8..=5).prop_map(|(u, c)| Rope::Tiled(Box::new(u), c)),
        ]
    });
    if allow_big {
        prop_oneof![60 => s, 1 => any::<u8>().prop_map(Rope::Big)].boxed()
    } else {
        s.boxed()
    }
}

/// Integer recipe: boundary-biased, possibly relative to the length of the first binary argument.
#[derive(Clone, Debug)]
pub enum IntG {
    Abs(BigInt),
    /// len*mul + add of the first binary argument
    RelLen { mul: i8, add: i8 },
}

fn pow2(k: u32) -> BigInt {
    BigInt::one() << k
}

pub fn boundary_ints() -> Vec<BigInt> {
    let mut v: Vec<BigInt> = vec![];
    for s in [0i64, 1, 2, 3, 4, 5, 7, 8, 9, 15, 16, 17, 31, 32, 33, 63, 64, 65, 127, 128, 255, 256, 1000, 65535, 65536] {
        v.push(BigInt::from(s));
    }
    for k in [31u32, 32, 61, 62, 63, 64, 100] {
        v.push(pow2(k));
        v.push(pow2(k) - 1);
        v.push(pow2(k) + 1);
    }
    v.push(BigInt::from(MAX_BINARY_SIZE));
    v.push(BigInt::from(MAX_BINARY_SIZE) + 1);
    v.push(BigInt::from(MAX_BINARY_SIZE) - 1);
    v.push(BigInt::from(usize::MAX));
    v.push(BigInt::from(usize::MAX) - 1);
    let neg: Vec<BigInt> = v.iter().map(|x| -x).collect();
    v.extend(neg);
    v
}

pub fn int_g() -> impl Strategy<Value = IntG> {
    let b = boundary_ints();
    prop_oneof![
        5 => prop::sample::select(b).prop_map(IntG::Abs),
        4 => prop::sample::select(vec![4i64, 8, 4, 8, 1, 0, 2, 3, 7, 64]).prop_map(|i| IntG::Abs(BigInt::from(i))),
        3 => (-20i64..=70).prop_map(|i| IntG::Abs(BigInt::from(i))),
        1 => any::<i64>().prop_map(|i| IntG::Abs(BigInt::from(i))),
        1 => (any::<i64>(), any::<u64>()).prop_map(|(a, b)| IntG::Abs(BigInt::from(a) * BigInt::from(b))),
        3 => (prop::sample::select(vec![0i8, 1, 1, 1, 8, -1]), -2i8..=2).prop_map(|(mul, add)| IntG::RelLen { mul, add }),
    ]
}

#[derive(Clone, Debug)]
pub enum ArgG {
    Int(IntG),
    Bin(Rope),
    Tuple(Vec<ArgG>),
    Nil,
}

/// Concrete argument (after resolving RelLen).
#[derive(Clone, Debug, PartialEq, Hash)]
pub enum Arg {
    Int(BigInt),
    Bin(Vec<u8>),
    Tuple(Vec<Arg>),
}

pub fn spec_strategy(spec: &TypeSpec, allow_big: bool) -> BoxedStrategy<ArgG> {
    match spec {
        TypeSpec::Integer => int_g().prop_map(ArgG::Int).boxed(),
        TypeSpec::Binary => rope(allow_big).prop_map(ArgG::Bin).boxed(),
        TypeSpec::Tuple(_, fields) => {
            if fields.is_empty() {
                return Just(ArgG::Nil).boxed();
            }
            let parts: Vec<BoxedStrategy<ArgG>> = fields.iter().map(|(_, s)| spec_strategy(s, allow_big)).collect();
            // With probability ~0.25 every later binary argument is the same binary as the first one
            // (the same value passed twice; also makes equal-length vector operands common).
            (parts, any::<u8>())
                .prop_map(|(mut v, tie)| {
                    if tie < 64 {
                        let first = v.iter().find_map(|a| if let ArgG::Bin(r) = a { Some(r.clone()) } else { None });
                        if let Some(f) = first {
                            let mut seen = false;
                            for a in v.iter_mut() {
                                if let ArgG::Bin(_) = a {
                                    if seen {
                                        *a = ArgG::Bin(f.clone());
                                    }
                                    seen = true;
                                }
                            }
                        }
                    }
                    ArgG::Tuple(v)
                })
                .boxed()
        }
        TypeSpec::Union(v) => {
            let parts: Vec<BoxedStrategy<ArgG>> = v.iter().map(|s| spec_strategy(s, allow_big)).collect();
            prop::strategy::Union::new(parts).boxed()
        }
        _ => Just(ArgG::Nil).boxed(),
    }
}

fn first_bin_len(g: &ArgG) -> Option<usize> {
    match g {
        ArgG::Bin(r) => Some(match r {
            Rope::Big(d) => MAX_BINARY_SIZE - (*d as usize % 3),
            _ => r.bytes().len(),
        }),
        ArgG::Tuple(v) => v.iter().find_map(first_bin_len),
        _ => None,
    }
}

pub fn resolve(g: &ArgG, len0: usize) -> Arg {
    match g {
        ArgG::Int(IntG::Abs(i)) => Arg::Int(i.clone()),
        ArgG::Int(IntG::RelLen { mul, add }) => Arg::Int(BigInt::from(len0) * BigInt::from(*mul) + BigInt::from(*add)),
        ArgG::Bin(r) => Arg::Bin(r.bytes()),
        ArgG::Tuple(v) => Arg::Tuple(v.iter().map(|a| resolve(a, len0)).collect()),
        ArgG::Nil => Arg::Tuple(vec![]),
    }
}

/// Build the runtime value in an executor. `flat` forces every binary to a flat Owned buffer.
pub fn build_value(g: &ArgG, len0: usize, ex: &mut Executor<Eff>, flat: bool) -> Value {
    match g {
        ArgG::Int(_) => match resolve(g, len0) {
            Arg::Int(i) => Value::Integer(i),
            _ => unreachable!(),
        },
        ArgG::Bin(r) => {
            let data = if flat && !matches!(r, Rope::Big(_)) { BinaryData::new(r.bytes()) } else { r.build() };
            Value::Binary(ex.allocate_binary_data(data).expect("allocate"))
        }
        ArgG::Tuple(v) => Value::tuple(0, v.iter().map(|a| build_value(a, len0, ex, flat)).collect()),
        ArgG::Nil => Value::nil(),
    }
}

// ---------------------------------------------------------------------------------------------
// Reference models

#[derive(Clone, Debug, PartialEq)]
pub enum Model {
    /// Must return exactly this value.
    Val(M),
    /// Outside the documented domain: must report a clean error.
    DomainErr,
    /// Unspecified corner: this value or a clean error.
    Either(M),
    /// No model for this builtin/shape: only totality is checked.
    Unmodeled,
    /// sin/cos: must be an integer in -1..=1
    UnitRange,
}

/// Model values.
#[derive(Clone, Debug, PartialEq)]
pub enum M {
    Int(BigInt),
    Bin(Vec<u8>),
    Nil,
}

fn i64_range(x: &BigInt) -> Option<i64> {
    x.to_i64()
}

fn to_u64_bits(x: i64) -> BigInt {
    // two's complement representation as a non-negative BigInt < 2^64
    if x >= 0 { BigInt::from(x) } else { pow2(64) + BigInt::from(x) }
}

fn from_u64_bits(b: &BigInt) -> BigInt {
    // interpret a value in [0, 2^64) as signed
    if *b >= pow2(63) { b - pow2(64) } else { b.clone() }
}

fn bits_of(bytes: &[u8]) -> Vec<bool> {
    let mut v = Vec::with_capacity(bytes.len() * 8);
    for b in bytes {
        for k in (0..8).rev() {
            v.push((b >> k) & 1 == 1);
        }
    }
    v
}

fn bytes_of(bits: &[bool]) -> Vec<u8> {
    bits.chunks(8)
        .map(|c| c.iter().fold(0u8, |acc, b| (acc << 1) | (*b as u8)))
        .collect()
}

fn lanes(bytes: &[u8], w: usize) -> Vec<BigInt> {
    bytes
        .chunks(w)
        .map(|c| {
            // little-endian two's complement
            let mut v = BigInt::zero();
            for (i, b) in c.iter().enumerate() {
                v += BigInt::from(*b) << (8 * i);
            }
            if c[w - 1] & 0x80 != 0 {
                v -= pow2(8 * w as u32);
            }
            v
        })
        .collect()
}

fn lane_fits(v: &BigInt, w: usize) -> bool {
    let lim = pow2(8 * w as u32 - 1);
    *v >= -lim.clone() && *v < lim
}

fn lane_bytes(v: &BigInt, w: usize) -> Vec<u8> {
    let m = if v.is_negative() { v + pow2(8 * w as u32) } else { v.clone() };
    (0..w).map(|i| ((&m >> (8 * i)) & BigInt::from(0xff)).to_u8().unwrap()).collect()
}

fn width_of(w: &BigInt) -> Option<usize> {
    if *w == BigInt::from(4) {
        Some(4)
    } else if *w == BigInt::from(8) {
        Some(8)
    } else {
        None
    }
}

pub fn model(name: &str, arg: &Arg) -> Model {
    use Arg::*;
    let max = BigInt::from(MAX_BINARY_SIZE);
    let t = |a: &Arg| -> Vec<Arg> {
        match a {
            Tuple(v) => v.clone(),
            _ => vec![],
        }
    };
    match name {
        // ---- integer arithmetic (unbounded)
        "integer_abs" => match arg {
            Int(n) => Model::Val(M::Int(n.abs())),
            _ => Model::Unmodeled,
        },
        "integer_sqrt" => match arg {
            Int(n) if n.is_negative() => Model::DomainErr,
            Int(n) => {
                // floor sqrt by Newton on BigInt, independent of num's sqrt
                if n.is_zero() {
                    return Model::Val(M::Int(BigInt::zero()));
                }
                let mut x = pow2((n.bits() as u32).div_ceil(2));
                loop {
                    let y = (&x + n / &x) >> 1;
                    if y >= x {
                        break;
                    }
                    x = y;
                }
                Model::Val(M::Int(x))
            }
            _ => Model::Unmodeled,
        },
        "integer_sin" | "integer_cos" => Model::UnitRange,
        "integer_add" | "integer_subtract" | "integer_multiply" | "integer_divide" | "integer_modulo" | "integer_gcd"
        | "integer_compare" => {
            let v = t(arg);
            let (Some(Int(a)), Some(Int(b))) = (v.first(), v.get(1)) else { return Model::Unmodeled };
            match name {
                "integer_add" => Model::Val(M::Int(a + b)),
                "integer_subtract" => Model::Val(M::Int(a - b)),
                "integer_multiply" => Model::Val(M::Int(a * b)),
                "integer_divide" | "integer_modulo" => {
                    if b.is_zero() {
                        return Model::DomainErr;
                    }
                    // truncating division: q = sign * (|a| div |b|), r = a - q*b
                    let q_abs = a.abs().div_floor(&b.abs());
                    let q = if a.is_negative() != b.is_negative() { -q_abs } else { q_abs };
                    if name == "integer_divide" { Model::Val(M::Int(q)) } else { Model::Val(M::Int(a - &q * b)) }
                }
                "integer_gcd" => {
                    let (mut x, mut y) = (a.abs(), b.abs());
                    while !y.is_zero() {
                        let r = x.mod_floor(&y);
                        x = y;
                        y = r;
                    }
                    Model::Val(M::Int(x))
                }
                _ => Model::Val(M::Int(BigInt::from(if a < b {
                    -1
                } else if a > b {
                    1
                } else {
                    0
                }))),
            }
        }
        // ---- integer bitwise (64-bit machine integers, error outside i64)
        "integer_and" | "integer_or" | "integer_xor" | "integer_shift" => {
            let v = t(arg);
            let (Some(Int(a)), Some(Int(b))) = (v.first(), v.get(1)) else { return Model::Unmodeled };
            let (Some(x), Some(y)) = (i64_range(a), i64_range(b)) else { return Model::DomainErr };
            if name == "integer_shift" {
                let val = BigInt::from(x);
                let r = if y == 0 {
                    val
                } else if y >= 64 {
                    BigInt::zero()
                } else if y <= -64 {
                    if x >= 0 { BigInt::zero() } else { BigInt::from(-1) }
                } else if y > 0 {
                    // wrap to 64-bit two's complement
                    let shifted = (to_u64_bits(x) << (y as u32)) & (pow2(64) - 1);
                    from_u64_bits(&shifted)
                } else {
                    val.div_floor(&pow2((-y) as u32))
                };
                return Model::Val(M::Int(r));
            }
            let (ba, bb) = (to_u64_bits(x), to_u64_bits(y));
            let mut r = BigInt::zero();
            for k in 0..64u32 {
                let p = ((&ba >> k) & BigInt::one()) == BigInt::one();
                let q = ((&bb >> k) & BigInt::one()) == BigInt::one();
                let bit = match name {
                    "integer_and" => p && q,
                    "integer_or" => p || q,
                    _ => p != q,
                };
                if bit {
                    r += pow2(k);
                }
            }
            Model::Val(M::Int(from_u64_bits(&r)))
        }
        "integer_not" => match arg {
            Int(n) => match i64_range(n) {
                Some(_) => Model::Val(M::Int(-n - 1)),
                None => Model::DomainErr,
            },
            _ => Model::Unmodeled,
        },
        "integer_popcount" => match arg {
            Int(n) => match i64_range(n) {
                Some(x) => {
                    let b = to_u64_bits(x);
                    let c = (0..64u32).filter(|k| ((&b >> *k) & BigInt::one()) == BigInt::one()).count();
                    Model::Val(M::Int(BigInt::from(c)))
                }
                None => Model::DomainErr,
            },
            _ => Model::Unmodeled,
        },
        // ---- binary
        "binary_new" => match arg {
            Int(n) if n.is_negative() || *n > max => Model::DomainErr,
            Int(n) => Model::Val(M::Bin(vec![0; n.to_usize().unwrap()])),
            _ => Model::Unmodeled,
        },
        "binary_length" => match arg {
            Bin(b) => Model::Val(M::Int(BigInt::from(b.len()))),
            _ => Model::Unmodeled,
        },
        "binary_popcount" => match arg {
            Bin(b) => Model::Val(M::Int(BigInt::from(bits_of(b).iter().filter(|x| **x).count()))),
            _ => Model::Unmodeled,
        },
        "binary_not" => match arg {
            Bin(b) => Model::Val(M::Bin(b.iter().map(|x| 255 - x).collect())),
            _ => Model::Unmodeled,
        },
        "binary_hash32" => match arg {
            Bin(b) => {
                let m = pow2(32);
                let mut h = BigInt::from(2166136261u32);
                for x in b {
                    let hx = h.to_u64().unwrap() ^ (*x as u64);
                    h = (BigInt::from(hx) * BigInt::from(16777619u32)).mod_floor(&m);
                }
                Model::Val(M::Int(h))
            }
            _ => Model::Unmodeled,
        },
        "binary_hash64" => match arg {
            Bin(b) => {
                let m = pow2(64);
                let mut h = BigInt::from(14695981039346656037u64);
                for x in b {
                    let hx = h.to_u64().unwrap() ^ (*x as u64);
                    h = (BigInt::from(hx) * BigInt::from(1099511628211u64)).mod_floor(&m);
                }
                Model::Val(M::Int(from_u64_bits(&h)))
            }
            _ => Model::Unmodeled,
        },
        "binary_concat" | "binary_and" | "binary_or" | "binary_xor" => {
            let v = t(arg);
            let (Some(Bin(a)), Some(Bin(b))) = (v.first(), v.get(1)) else { return Model::Unmodeled };
            match name {
                "binary_concat" => {
                    if a.len() + b.len() > MAX_BINARY_SIZE {
                        Model::DomainErr
                    } else {
                        let mut r = a.clone();
                        r.extend_from_slice(b);
                        Model::Val(M::Bin(r))
                    }
                }
                "binary_and" => Model::Val(M::Bin(a.iter().zip(b.iter()).map(|(x, y)| x & y).collect())),
                _ => {
                    let n = a.len().max(b.len());
                    let g = |v: &Vec<u8>, i: usize| v.get(i).copied().unwrap_or(0);
                    Model::Val(M::Bin(
                        (0..n)
                            .map(|i| if name == "binary_or" { g(a, i) | g(b, i) } else { g(a, i) ^ g(b, i) })
                            .collect(),
                    ))
                }
            }
        }
        "binary_repeat" => {
            let v = t(arg);
            let (Some(Bin(b)), Some(Int(n))) = (v.first(), v.get(1)) else { return Model::Unmodeled };
            if n.is_negative() {
                return Model::DomainErr;
            }
            let total = BigInt::from(b.len()) * n;
            if total > max {
                return Model::DomainErr;
            }
            if n.to_usize().is_none() {
                // count beyond the index type with an empty unit: unspecified
                return Model::Either(M::Bin(vec![]));
            }
            let mut r = Vec::new();
            for _ in 0..n.to_usize().unwrap().min(if b.is_empty() { 0 } else { usize::MAX }) {
                r.extend_from_slice(b);
            }
            Model::Val(M::Bin(r))
        }
        "binary_shift" => {
            let v = t(arg);
            let (Some(Bin(b)), Some(Int(n))) = (v.first(), v.get(1)) else { return Model::Unmodeled };
            let bits = bits_of(b);
            let total = bits.len();
            let mag = n.abs();
            let res = if n.is_zero() {
                b.clone()
            } else if mag >= BigInt::from(total) {
                vec![0; b.len()]
            } else {
                let k = mag.to_usize().unwrap();
                let mut out = vec![false; total];
                for (i, slot) in out.iter_mut().enumerate() {
                    if n.is_positive() {
                        if i + k < total {
                            *slot = bits[i + k];
                        }
                    } else if i >= k {
                        *slot = bits[i - k];
                    }
                }
                bytes_of(&out)
            };
            if i64_range(n).is_none() { Model::Either(M::Bin(res)) } else { Model::Val(M::Bin(res)) }
        }
        "binary_get" | "binary_set" => {
            let v = t(arg);
            let (Some(Bin(b)), Some(Int(byte_off)), Some(Int(bit_off))) = (v.first(), v.get(1), v.get(2)) else {
                return Model::Unmodeled;
            };
            let (value, nbits) = if name == "binary_get" {
                let Some(Int(nb)) = v.get(3) else { return Model::Unmodeled };
                (None, nb)
            } else {
                let (Some(Int(val)), Some(Int(nb))) = (v.get(3), v.get(4)) else { return Model::Unmodeled };
                (Some(val), nb)
            };
            if byte_off.is_negative() || i64_range(byte_off).is_none() {
                return Model::DomainErr;
            }
            if bit_off.is_negative() || *bit_off > BigInt::from(7) {
                return Model::DomainErr;
            }
            if *nbits < BigInt::one() || *nbits > BigInt::from(64) {
                return Model::DomainErr;
            }
            let nb = nbits.to_usize().unwrap();
            let start: BigInt = byte_off * BigInt::from(8) + bit_off;
            let end = &start + BigInt::from(nb);
            if end > BigInt::from(b.len()) * 8 {
                return Model::DomainErr;
            }
            let start = start.to_usize().unwrap();
            let mut bits = bits_of(b);
            match value {
                None => {
                    let mut r = BigInt::zero();
                    for bit in &bits[start..start + nb] {
                        r = (r << 1) + BigInt::from(*bit as u8);
                    }
                    Model::Val(M::Int(r))
                }
                Some(val) => {
                    if val.is_negative() || *val >= pow2(nb as u32) {
                        return Model::DomainErr;
                    }
                    for k in 0..nb {
                        bits[start + k] = ((val >> (nb - 1 - k)) & BigInt::one()) == BigInt::one();
                    }
                    let r = M::Bin(bytes_of(&bits));
                    if *val >= pow2(63) { Model::Either(r) } else { Model::Val(r) }
                }
            }
        }
        "binary_slice" => {
            let v = t(arg);
            let (Some(Bin(b)), Some(Int(s)), Some(Int(e))) = (v.first(), v.get(1), v.get(2)) else {
                return Model::Unmodeled;
            };
            let len = BigInt::from(b.len());
            if s.is_negative() || e.is_negative() || *s > len || *e > len || s > e {
                return Model::DomainErr;
            }
            Model::Val(M::Bin(b[s.to_usize().unwrap()..e.to_usize().unwrap()].to_vec()))
        }
        "binary_index" => {
            let v = t(arg);
            let (Some(Bin(b)), Some(Int(byte)), Some(Int(off))) = (v.first(), v.get(1), v.get(2)) else {
                return Model::Unmodeled;
            };
            if byte.is_negative() || *byte > BigInt::from(255) || off.is_negative() {
                return Model::DomainErr;
            }
            let Some(o) = off.to_usize() else { return Model::Either(M::Nil) };
            let by = byte.to_u8().unwrap();
            match b.iter().enumerate().find(|(i, x)| *i >= o && **x == by) {
                Some((i, _)) => Model::Val(M::Int(BigInt::from(i))),
                None => Model::Val(M::Nil),
            }
        }
        "binary_append" => {
            let v = t(arg);
            let (Some(Bin(b)), Some(Int(val)), Some(Int(nbytes))) = (v.first(), v.get(1), v.get(2)) else {
                return Model::Unmodeled;
            };
            if *nbytes < BigInt::one() || *nbytes > BigInt::from(8) || val.is_negative() {
                return Model::DomainErr;
            }
            let nb = nbytes.to_usize().unwrap();
            if *val >= pow2(8 * nb as u32) {
                return Model::DomainErr;
            }
            if b.len() + nb > MAX_BINARY_SIZE {
                return Model::DomainErr;
            }
            let mut r = b.clone();
            for i in (0..nb).rev() {
                r.push(((val >> (8 * i)) & BigInt::from(0xff)).to_u8().unwrap());
            }
            if *val >= pow2(63) { Model::Either(M::Bin(r)) } else { Model::Val(M::Bin(r)) }
        }
        // ---- vector kernels
        "vector_add" | "vector_subtract" | "vector_multiply" | "vector_less_than" | "vector_equal"
        | "vector_greater_than" | "vector_dot" => {
            let v = t(arg);
            let (Some(Bin(a)), Some(Bin(b)), Some(Int(w))) = (v.first(), v.get(1), v.get(2)) else {
                return Model::Unmodeled;
            };
            let Some(w) = width_of(w) else { return Model::DomainErr };
            if a.len() != b.len() || a.len() % w != 0 {
                return Model::Val(M::Nil);
            }
            let (la, lb) = (lanes(a, w), lanes(b, w));
            match name {
                "vector_dot" => Model::Val(M::Int(la.iter().zip(lb.iter()).map(|(x, y)| x * y).sum())),
                "vector_less_than" | "vector_equal" | "vector_greater_than" => Model::Val(M::Bin(
                    la.iter()
                        .zip(lb.iter())
                        .map(|(x, y)| {
                            (match name {
                                "vector_less_than" => x < y,
                                "vector_equal" => x == y,
                                _ => x > y,
                            }) as u8
                        })
                        .collect(),
                )),
                _ => {
                    let mut out = Vec::new();
                    for (x, y) in la.iter().zip(lb.iter()) {
                        let r = match name {
                            "vector_add" => x + y,
                            "vector_subtract" => x - y,
                            _ => x * y,
                        };
                        if !lane_fits(&r, w) {
                            return Model::Val(M::Nil);
                        }
                        out.extend(lane_bytes(&r, w));
                    }
                    Model::Val(M::Bin(out))
                }
            }
        }
        "vector_take" => {
            let v = t(arg);
            let (Some(Bin(d)), Some(Int(w)), Some(Bin(m))) = (v.first(), v.get(1), v.get(2)) else {
                return Model::Unmodeled;
            };
            let Some(w) = width_of(w) else { return Model::DomainErr };
            if d.len() % w != 0 || m.len() != d.len() / w {
                return Model::Val(M::Nil);
            }
            let mut out = Vec::new();
            for (i, s) in m.iter().enumerate() {
                if *s != 0 {
                    out.extend_from_slice(&d[i * w..(i + 1) * w]);
                }
            }
            Model::Val(M::Bin(out))
        }
        "vector_get" | "vector_push" => {
            let v = t(arg);
            let (Some(Bin(b)), Some(Int(w)), Some(Int(x))) = (v.first(), v.get(1), v.get(2)) else {
                return Model::Unmodeled;
            };
            let Some(w) = width_of(w) else { return Model::DomainErr };
            if name == "vector_get" {
                if b.len() % w != 0 || x.is_negative() || *x >= BigInt::from(b.len() / w) {
                    return Model::Val(M::Nil);
                }
                Model::Val(M::Int(lanes(b, w)[x.to_usize().unwrap()].clone()))
            } else {
                if !lane_fits(x, w) || b.len() % w != 0 {
                    return Model::Val(M::Nil);
                }
                if b.len() + w > MAX_BINARY_SIZE {
                    return Model::DomainErr;
                }
                let mut r = b.clone();
                r.extend(lane_bytes(x, w));
                Model::Val(M::Bin(r))
            }
        }
        "vector_sum" => {
            let v = t(arg);
            let (Some(Bin(b)), Some(Int(w))) = (v.first(), v.get(1)) else { return Model::Unmodeled };
            let Some(w) = width_of(w) else { return Model::DomainErr };
            if b.len() % w != 0 {
                return Model::Val(M::Nil);
            }
            Model::Val(M::Int(lanes(b, w).iter().sum()))
        }
        _ => Model::Unmodeled,
    }
}

// ---------------------------------------------------------------------------------------------
// Running and judging

#[derive(Debug, Clone, PartialEq)]
pub enum Got {
    Val(M),
    Other(String),
    Err(String),
    Panic(String),
    Action,
}

fn got_of_value(v: &Value, ex: &Executor<Eff>) -> Got {
    match v {
        Value::Integer(i) => Got::Val(M::Int(i.clone())),
        Value::Binary(quiver_core::value::Binary::Heap(i)) => match ex.get_heap_binary(*i) {
            Some(d) => Got::Val(M::Bin(d.to_vec())),
            None => Got::Other(format!("dangling heap index {i}")),
        },
        v if v.is_nil() => Got::Val(M::Nil),
        other => Got::Other(format!("{other:?}")),
    }
}

pub fn call_direct(name: &str, g: &ArgG, flat: bool, reg: &qrun::Registry) -> Got {
    let Some(f) = reg.get_implementation(name) else { return Got::Other("no implementation".into()) };
    let len0 = first_bin_len(g).unwrap_or(0);
    let mut ex: Executor<Eff> = Executor::new(reg.clone(), false, 0);
    let arg = build_value(g, len0, &mut ex, flat);
    let r = catch(|| f(0, &arg, &mut ex));
    match r {
        Err(p) => Got::Panic(format!("{p} @ {}", last_panic_loc())),
        Ok(Err(e)) => Got::Err(format!("{e:?}")),
        Ok(Ok(BuiltinResult::Action(_))) => Got::Action,
        Ok(Ok(BuiltinResult::Value(v))) => {
            // reading the result back must not panic either
            match catch(|| got_of_value(&v, &ex)) {
                Ok(g) => g,
                Err(p) => Got::Panic(format!("reading result: {p} @ {}", last_panic_loc())),
            }
        }
    }
}

fn short(m: &M) -> String {
    match m {
        M::Int(i) => format!("{i}"),
        M::Bin(b) if b.len() <= 40 => format!("0x{}", hex(b)),
        M::Bin(b) => format!("0x{}…({} bytes)", hex(&b[..20]), b.len()),
        M::Nil => "[]".into(),
    }
}

/// Judge one observation against the model. Err(kind, message) = violation.
pub fn judge(model: &Model, got: &Got) -> Result<(), (String, String)> {
    match got {
        Got::Panic(p) => return Err(("panic".into(), format!("builtin panicked: {p}"))),
        Got::Other(o) => return Err(("bad-result".into(), format!("unexpected result shape: {o}"))),
        Got::Action => return Ok(()),
        _ => {}
    }
    match (model, got) {
        (Model::Unmodeled, _) => Ok(()),
        (Model::UnitRange, Got::Val(M::Int(i))) if i.abs() <= BigInt::one() => Ok(()),
        (Model::UnitRange, g) => Err(("wrong-value".into(), format!("expected an integer in -1..=1, got {g:?}"))),
        (Model::Val(m), Got::Val(v)) | (Model::Either(m), Got::Val(v)) => {
            if m == v {
                Ok(())
            } else {
                Err(("wrong-value".into(), format!("expected {} got {}", short(m), short(v))))
            }
        }
        (Model::Val(m), Got::Err(e)) => {
            // A size-limit error is always acceptable where the *result* would exceed the maximum
            Err(("error-in-domain".into(), format!("expected {} but the builtin reported {e}", short(m))))
        }
        (Model::Either(_), Got::Err(_)) => Ok(()),
        (Model::DomainErr, Got::Err(_)) => Ok(()),
        (Model::DomainErr, Got::Val(v)) => {
            Err(("value-out-of-domain".into(), format!("argument outside the documented domain, but got value {}", short(v))))
        }
        _ => Ok(()),
    }
}

fn arg_literal(a: &Arg) -> Option<String> {
    match a {
        Arg::Int(i) => Some(format!("{i}")),
        Arg::Bin(b) if b.len() <= 80 => Some(format!("0x{}", hex(b))),
        Arg::Bin(_) => None,
        Arg::Tuple(v) => {
            let parts: Option<Vec<String>> = v.iter().map(arg_literal).collect();
            Some(format!("[{}]", parts?.join(", ")))
        }
    }
}

/// As literal but binaries are built at run time by concatenating two halves (heap ropes).
fn arg_computed(a: &Arg) -> Option<String> {
    match a {
        Arg::Int(i) => Some(format!("{i}")),
        Arg::Bin(b) if b.len() <= 80 => {
            let mid = b.len() / 2;
            Some(format!("[0x{}, 0x{}] __binary_concat__", hex(&b[..mid]), hex(&b[mid..])))
        }
        Arg::Bin(_) => None,
        Arg::Tuple(v) => {
            let parts: Option<Vec<String>> = v.iter().map(arg_computed).collect();
            Some(format!("[{}]", parts?.join(", ")))
        }
    }
}

pub fn call_compiled(name: &str, src_arg: &str, reg: &qrun::Registry) -> (String, Got) {
    let src = format!("{src_arg} __{name}__");
    let out = catch(|| qrun::compile(&src, &qrun::Modules::new(), reg));
    let c = match out {
        Err(p) => return (src, Got::Panic(format!("compile: {p} @ {}", last_panic_loc()))),
        Ok(Err(e)) => return (src, Got::Other(format!("front end rejected a well-typed call: {e:?}"))),
        Ok(Ok(c)) => c,
    };
    let bc = c.program.to_bytecode(c.entry);
    let run = catch(|| qrun::run_sync(&bc, reg, 1000, 1_000_000, false));
    let run = match run {
        Err(p) => return (src, Got::Panic(format!("{p} @ {}", last_panic_loc()))),
        Ok(r) => r,
    };
    let got = match &run.end {
        qrun::RunEnd::Value(v) => {
            if let Err(e) = run.executor.check_refcounts() {
                return (src, Got::Other(format!("refcount invariant after builtin call: {e}")));
            }
            let t = Tables { tuples: &bc.tuples, constants: &bc.constants };
            match hval::from_executor(v, &run.executor, &t) {
                HVal::Int(i) => Got::Val(M::Int(i)),
                HVal::Bin(b) => Got::Val(M::Bin(b)),
                h if h.is_nil() => Got::Val(M::Nil),
                h => Got::Other(format!("{h}")),
            }
        }
        qrun::RunEnd::Error(e) => Got::Err(format!("{e:?}")),
        qrun::RunEnd::Diverged => Got::Other("diverged".into()),
        qrun::RunEnd::Blocked => Got::Other("blocked".into()),
    };
    (src, got)
}

fn is_boundary(a: &Arg, boundaries: &[BigInt]) -> bool {
    match a {
        Arg::Int(i) => i.bits() >= 31 || boundaries.contains(i),
        Arg::Bin(b) => b.is_empty() || b.len() % 8 == 0 || b.len() % 8 == 1,
        Arg::Tuple(v) => v.iter().any(|x| is_boundary(x, boundaries)),
    }
}

fn has_rope(g: &ArgG) -> bool {
    match g {
        ArgG::Bin(r) => !r.is_owned(),
        ArgG::Tuple(v) => v.iter().any(has_rope),
        _ => false,
    }
}

fn describe(g: &ArgG, len0: usize) -> String {
    match g {
        ArgG::Int(_) => match resolve(g, len0) {
            Arg::Int(i) => format!("{i}"),
            _ => String::new(),
        },
        ArgG::Bin(r) => match r {
            Rope::Owned(v) => format!("0x{}", hex(v)),
            other => truncate(&format!("{other:?}=0x{}", hex(&other.bytes()[..other.bytes().len().min(40)])), 300),
        },
        ArgG::Tuple(v) => format!("[{}]", v.iter().map(|x| describe(x, len0)).collect::<Vec<_>>().join(", ")),
        ArgG::Nil => "[]".into(),
    }
}

pub fn pure_builtin_names(reg: &qrun::Registry) -> Vec<String> {
    reg.get_function_names()
        .into_iter()
        .filter(|n| n.starts_with("integer_") || n.starts_with("binary_") || n.starts_with("vector_"))
        .collect()
}

pub fn run(ctx: &Ctx) -> i32 {
    let started = Instant::now();
    let stats = Stats::new();
    let reg0 = qrun::registry();
    let names = pure_builtin_names(&reg0);
    stats.note("builtins", json!(names));
    let known = KnownFindings::load();
    let per_builtin: u32 = ctx.tier.pick(20_000, 600_000);
    let boundaries = boundary_ints();
    let allow_big = ctx.tier == Tier::Thorough;

    // Work items = (builtin, slice); distributed round-robin over shards.
    let violations = run_sharded(ctx.shards, |shard| {
        let reg = qrun::registry();
        let mut out = Vec::new();
        for (bi, name) in names.iter().enumerate() {
            if bi % ctx.shards != shard {
                continue;
            }
            let Some((pspec, _)) = reg.get_specs(name) else { continue };
            let big_ok = allow_big && matches!(name.as_str(), "binary_length" | "binary_concat" | "binary_repeat" | "binary_slice" | "binary_append" | "binary_index" | "vector_push");
            let strat = spec_strategy(pspec, big_ok);
            let seed = derive_seed(ctx.seed, ctx.id, bi, 0);
            let counter = std::cell::Cell::new(0u64);
            let cases = if matches!(name.as_str(), "binary_get" | "binary_set" | "binary_slice") { per_builtin * 5 } else { per_builtin };
            let res = pt_search(seed, cases, &strat, &stats, |g| {
                let len0 = first_bin_len(g).unwrap_or(0);
                let arg = resolve(g, len0);
                let m = model(name, &arg);
                stats.eval();
                let n = counter.get();
                counter.set(n + 1);
                let mut observations: Vec<(String, Got)> = vec![("direct".into(), call_direct(name, g, false, &reg))];
                if has_rope(g) {
                    observations.push(("direct-flat".into(), call_direct(name, g, true, &reg)));
                }
                // compiled channel on a deterministic 1-in-8 subsample
                if n % 8 == 0 {
                    if let Some(lit) = arg_literal(&arg) {
                        let (src, got) = call_compiled(name, &lit, &reg);
                        observations.push((format!("compiled `{}`", truncate(&src, 200)), got));
                        stats.class("channel:compiled-literal");
                    }
                    if let Some(cmp) = arg_computed(&arg) {
                        let (src, got) = call_compiled(name, &cmp, &reg);
                        observations.push((format!("compiled `{}`", truncate(&src, 300)), got));
                        stats.class("channel:compiled-heap");
                    }
                }
                for (how, got) in &observations {
                    if let Err((kind, msg)) = judge(&m, got) {
                        let sig = format!("{name}:{kind}");
                        if !ctx.strict && known.is_known(ctx.id, &sig).is_some() {
                            stats.known_hit(&sig);
                            continue;
                        }
                        return Err(format!("{sig}\u{1}__{name}__ {} via {how}: {msg}", describe(g, len0)));
                    }
                }
                let class = match &m {
                    Model::Val(_) => "model:value",
                    Model::DomainErr => "model:domain-error",
                    Model::Either(_) => "model:unspecified",
                    Model::Unmodeled => "model:none",
                    Model::UnitRange => "model:range",
                };
                stats.class(class);
                stats.class(&format!("builtin:{name}"));
                if matches!(m, Model::Val(_)) {
                    stats.class(&format!("value:{name}"));
                }
                if has_rope(g) {
                    stats.class("rope:non-owned");
                }
                if is_boundary(&arg, &boundaries) || has_rope(g) {
                    // hashed structurally: formatting megabyte binaries for every case made one thorough
                    // shard run for hours
                    stats.nontrivial(&(name, &arg));
                    if n % 997 == 3 {
                        stats.sample(|| json!({"builtin": name, "arg": truncate(&describe(g, len0), 200), "model": truncate(&format!("{m:?}"), 120)}));
                    }
                }
                Ok(())
            });
            if let Search::Failed { minimal, message } = res {
                let (sig, msg) = message.split_once('\u{1}').map(|(a, b)| (a.to_string(), b.to_string())).unwrap_or((message.clone(), message));
                let len0 = first_bin_len(&minimal).unwrap_or(0);
                out.push(Violation {
                    signature: sig,
                    summary: msg,
                    replay: json!({"kind": "c12", "builtin": name, "arg": arg_to_json(&minimal, len0)}),
                });
            }
        }
        out
    });

    finish(Report {
        ctx,
        stats: &stats,
        violations,
        rule: "per pure builtin (integer_*/binary_*/vector_* taken from the registry): argument tuples of the declared parameter type, integers boundary-biased (0, ±1, 2^31, 2^32, 2^63, 2^64 ±1, 2^100, MAX_BINARY_SIZE±1, usize::MAX, length-relative), binaries as generated rope shapes; each call is observed directly on the rope, on the flattened copy, and (1 in 8) compiled from source with literal and heap-built binaries; non-trivial = an argument at a representation boundary or a non-Owned rope; distinct by (builtin, argument)".into(),
        assumptions: vec![
            "reference models are host BigInt / Vec<u8> re-implementations written from the builtins' doc comments".into(),
            "unspecified corners (count/shift/offset beyond the index type, 64-bit values >= 2^63 for binary_set/append) accept either the model value or a clean error".into(),
            "integer_sin/cos go through f64 by definition: only totality and the range -1..=1 are checked".into(),
            "built with overflow-checks and debug-assertions on, so silent wrap-around surfaces as a caught panic".into(),
        ],
        required_classes: vec!["model:value", "model:domain-error", "rope:non-owned", "channel:compiled-literal", "channel:compiled-heap"],
        started,
        technique: "proptest argument generation per builtin; oracle = independent BigInt/Vec<u8> reference model + rope-shape metamorphic relation",
    })
}

fn arg_to_json(g: &ArgG, len0: usize) -> serde_json::Value {
    match g {
        ArgG::Int(_) => match resolve(g, len0) {
            Arg::Int(i) => json!({"int": i.to_string()}),
            _ => json!(null),
        },
        ArgG::Bin(r) => json!({"bin": rope_to_json(r)}),
        ArgG::Tuple(v) => json!({"tuple": v.iter().map(|x| arg_to_json(x, len0)).collect::<Vec<_>>()}),
        ArgG::Nil => json!({"tuple": []}),
    }
}

fn rope_to_json(r: &Rope) -> serde_json::Value {
    match r {
        Rope::Owned(v) => json!({"owned": hex(v)}),
        Rope::Zeroed(n) => json!({"zeroed": n}),
        Rope::Slice(p, o, l) => json!({"slice": [rope_to_json(p), o, l]}),
        Rope::Concat(a, b) => json!({"concat": [rope_to_json(a), rope_to_json(b)]}),
        Rope::Tiled(u, c) => json!({"tiled": [rope_to_json(u), c]}),
        Rope::Spine(v) => json!({"spine": hex(v)}),
        Rope::Big(d) => json!({"big": d}),
    }
}

fn rope_from_json(j: &serde_json::Value) -> Option<Rope> {
    if let Some(s) = j.get("owned") {
        return Some(Rope::Owned(unhex(s.as_str()?)));
    }
    if let Some(n) = j.get("zeroed") {
        return Some(Rope::Zeroed(n.as_u64()? as usize));
    }
    if let Some(s) = j.get("spine") {
        return Some(Rope::Spine(unhex(s.as_str()?)));
    }
    if let Some(d) = j.get("big") {
        return Some(Rope::Big(d.as_u64()? as u8));
    }
    if let Some(a) = j.get("slice") {
        return Some(Rope::Slice(Box::new(rope_from_json(&a[0])?), a[1].as_u64()? as u16, a[2].as_u64()? as u16));
    }
    if let Some(a) = j.get("concat") {
        return Some(Rope::Concat(Box::new(rope_from_json(&a[0])?), Box::new(rope_from_json(&a[1])?)));
    }
    if let Some(a) = j.get("tiled") {
        return Some(Rope::Tiled(Box::new(rope_from_json(&a[0])?), a[1].as_u64()? as u8));
    }
    None
}

fn arg_from_json(j: &serde_json::Value) -> Option<ArgG> {
    if let Some(i) = j.get("int") {
        return Some(ArgG::Int(IntG::Abs(i.as_str()?.parse().ok()?)));
    }
    if let Some(b) = j.get("bin") {
        return Some(ArgG::Bin(rope_from_json(b)?));
    }
    if let Some(t) = j.get("tuple") {
        let v: Option<Vec<ArgG>> = t.as_array()?.iter().map(arg_from_json).collect();
        let v = v?;
        return Some(if v.is_empty() { ArgG::Nil } else { ArgG::Tuple(v) });
    }
    None
}

pub fn replay(payload: &serde_json::Value) -> Result<(), String> {
    let name = payload["builtin"].as_str().ok_or("missing builtin")?;
    let g = arg_from_json(&payload["arg"]).ok_or("bad arg")?;
    let reg = qrun::registry();
    let len0 = first_bin_len(&g).unwrap_or(0);
    let arg = resolve(&g, len0);
    let m = model(name, &arg);
    let mut obs = vec![("direct".to_string(), call_direct(name, &g, false, &reg)), ("direct-flat".to_string(), call_direct(name, &g, true, &reg))];
    if let Some(lit) = arg_literal(&arg) {
        let (src, got) = call_compiled(name, &lit, &reg);
        obs.push((format!("compiled `{src}`"), got));
    }
    if let Some(c) = arg_computed(&arg) {
        let (src, got) = call_compiled(name, &c, &reg);
        obs.push((format!("compiled `{src}`"), got));
    }
    for (how, got) in &obs {
        println!("  {how}: {}", truncate(&format!("{got:?}"), 200));
        if let Err((kind, msg)) = judge(&m, got) {
            return Err(format!("{name}:{kind} via {how}: {msg} (model {})", truncate(&format!("{m:?}"), 200)));
        }
    }
    Ok(())
}

#[allow(dead_code)]
pub fn sign_of(x: &BigInt) -> Sign {
    x.sign()
}
