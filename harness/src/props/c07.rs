//! C07 — every function the compiler emits is well-formed bytecode (as compiled, after
//! tree-shaking, after merging into an environment behind other programs).

use crate::bcv;
use crate::corpus;
use crate::fw::*;
use crate::props::c18;
use crate::qrun::{self, Eff};
use proptest::prelude::*;
use quiver_core::bytecode::Bytecode;
use quiver_environment::{Command, Environment, EnvironmentError, Event, WorkerHandle};
use serde_json::json;
use std::sync::Arc;
use std::time::Instant;

/// A worker handle that swallows commands (the environment only needs somewhere to send them).
pub struct NullWorker;
impl WorkerHandle<Eff> for NullWorker {
    fn send(&mut self, _c: Command<Eff>) -> Result<(), EnvironmentError> {
        Ok(())
    }
    fn try_recv(&mut self) -> Result<Option<Event<Eff>>, EnvironmentError> {
        Ok(None)
    }
}

pub fn null_env(workers: usize) -> Environment<Eff> {
    let w: Vec<Box<dyn WorkerHandle<Eff>>> = (0..workers).map(|_| Box::new(NullWorker) as Box<dyn WorkerHandle<Eff>>).collect();
    Environment::new(w)
}

#[derive(Clone, Debug)]
pub struct Case {
    pub source: String,
    /// Sources merged into the environment before this one.
    pub before: Vec<String>,
}

impl Case {
    fn before_nontail(&self, _reg: &qrun::Registry) -> bool {
        self.before.iter().any(|b| matches!(catch(|| quiver_compiler::parse(b)), Ok(Ok(ast)) if crate::astu::has_nontail_tailcall(&ast)))
    }
}

pub struct CaseOutcome {
    pub compiled: bool,
    pub functions: usize,
    pub nontrivial_functions: usize,
    pub classes: Vec<String>,
    pub violation: Option<(String, String)>,
    pub dyn_points: u64,
    pub harness_error: Option<String>,
    pub nontail: bool,
}

fn fmt_issue(form: &str, i: &bcv::Issue, bc: &Bytecode) -> (String, String) {
    let body = if i.function < bc.functions.len() {
        let f = &bc.functions[i.function];
        truncate(&bcv::disassemble(f), 2500)
    } else {
        String::new()
    };
    (
        format!("{form}:{}", i.kind),
        format!("[{form}] function {} pc {}: {} — {}\n{}", i.function, i.pc, i.kind, i.detail, body),
    )
}

/// Dynamic cross-check of the abstract model: run with quantum 1 and compare.
fn dynamic_check(bc: &Bytecode, res: &bcv::ProgramResult, reg: &qrun::Registry, budget: u64) -> Result<u64, String> {
    let mut bases: Vec<usize> = Vec::new();
    let mut points = 0u64;
    let mut first = true;
    let run = qrun::run_sync_hook(bc, reg, 1, budget, false, &mut |ex| {
        let Some(p) = ex.get_process(0) else { return Ok(()) };
        if p.result.is_some() {
            return Ok(());
        }
        let depth = p.frames.len();
        if first {
            first = false;
        }
        while bases.len() > depth {
            bases.pop();
        }
        while bases.len() < depth {
            // new frame: its parameter is on top of the stack
            bases.push(p.stack.len().saturating_sub(1));
        }
        let Some(fr) = p.frames.last() else { return Ok(()) };
        if p.select_state.is_some() {
            return Ok(());
        }
        let parked = ex.verif_parked();
        if parked.spawning.contains(&0) || parked.selecting.contains(&0) || parked.effecting.contains(&0) {
            return Ok(());
        }
        let base = *bases.last().unwrap();
        let h = p.stack.len() as i64 - base as i64;
        let l = p.locals.len() - fr.verif_locals_base();
        let Some(st) = res.states.get(fr.function_index).and_then(|m| m.get(&fr.counter)) else {
            return Err(format!("executing function {} pc {} which the verifier considers unreachable", fr.function_index, fr.counter));
        };
        points += 1;
        if st.height != h || l < st.lmin || l > st.lmax {
            return Err(format!(
                "function {} pc {}: concrete (height {h}, locals {l}) vs abstract (height {}, locals {}..={})",
                fr.function_index, fr.counter, st.height, st.lmin, st.lmax
            ));
        }
        Ok(())
    });
    match run.end {
        qrun::RunEnd::Error(quiver_core::error::Error::InvalidArgument(m)) if m.starts_with("verif-hook: ") => Err(m),
        _ => Ok(points),
    }
}

/// Known finding (witness:short-circuit-skips-binding): the nil short-circuit of a sequence jumps
/// over the bindings of its later steps straight to the point where the sequence's value is
/// tested, so when the sequence is a branch condition the consequence's reads of those bindings
/// are reachable, in the control-flow graph, from a path on which they were never stored. The path
/// is infeasible at run time (the nil that skips the binding also fails the condition), which is
/// exactly what `bcv::feasible_undefined_reads` decides; only issues it clears are attributed.
fn drop_infeasible(issues: &mut Vec<bcv::Issue>, classes: &mut Vec<String>) {
    let before = issues.len();
    issues.retain(|i| i.kind != "undefined-local-on-infeasible-path");
    if issues.len() != before && !classes.iter().any(|c| c == "excluded:short-circuit-skips-binding") {
        classes.push("excluded:short-circuit-skips-binding".into());
    }
}

pub fn check_case(case: &Case, reg: &qrun::Registry, dynamic: bool) -> CaseOutcome {
    let mut out = CaseOutcome { compiled: false, functions: 0, nontrivial_functions: 0, classes: vec![], violation: None, dyn_points: 0, harness_error: None, nontail: false };
    let modules = qrun::Modules::new();
    let (nontail, star) = match catch(|| quiver_compiler::parse(&case.source)) {
        Ok(Ok(ast)) => (crate::astu::has_nontail_tailcall(&ast), format!("{ast:?}").contains("Star(")),
        _ => return out,
    };
    let c = match catch(|| qrun::compile(&case.source, &modules, reg)) {
        Ok(Ok(c)) => c,
        _ => return out,
    };
    out.compiled = true;
    let bc = c.program.to_bytecode(c.entry);
    let mut res = bcv::verify_bytecode(&bc);
    drop_infeasible(&mut res.issues, &mut out.classes);
    if nontail {
        // Known finding (see known_findings.json, witness:nontail-tailcall): `^` written in a
        // non-tail position is accepted and compiled with operands beneath the argument. Only
        // that one issue kind is attributed to it; everything else is still judged.
        let before = res.issues.len();
        res.issues.retain(|i| i.kind != "tail-call-height");
        if res.issues.len() != before {
            out.classes.push("excluded:nontail-tailcall".into());
        }
        out.nontail = true;
    }
    if star {
        // Known finding (witness:star-over-union): a star pattern over a union whose variants have
        // different labelled fields binds a different variable set per variant; a use of a variable
        // bound by only some variants reads an undefined local. Only that issue kind is attributed.
        let before = res.issues.len();
        res.issues.retain(|i| i.kind != "load-undefined-local");
        if res.issues.len() != before {
            out.classes.push("excluded:star-over-union".into());
        }
    }
    out.functions = res.functions;
    for f in &res.facts {
        if f.joins >= 1 && f.conditional_store {
            out.nontrivial_functions += 1;
        }
        if f.interval_join {
            out.classes.push("join-with-differing-local-counts".into());
        }
        if f.has_tail_call {
            out.classes.push("has-tail-call".into());
        }
        if f.has_reset {
            out.classes.push("has-cleanup-reset".into());
        }
    }
    if let Some(i) = res.issues.first() {
        out.violation = Some(fmt_issue("as-compiled", i, &bc));
        return out;
    }
    out.classes.push("form:as-compiled".into());
    if dynamic && c.entry.is_some() && !nontail && !star {
        match catch(|| dynamic_check(&bc, &res, reg, 20_000)) {
            Ok(Ok(n)) => {
                out.dyn_points = n;
                if n > 0 {
                    out.classes.push("dynamic-crosscheck".into());
                }
            }
            Ok(Err(m)) => {
                out.harness_error = Some(format!("abstract model disagrees with the executor: {m}"));
                return out;
            }
            Err(_) => {}
        }
    }
    if let Some(entry) = c.entry {
        match catch(|| c.program.to_bytecode_optimized(entry)) {
            Ok(shaken) => {
                let mut r2 = bcv::verify_bytecode(&shaken);
                drop_infeasible(&mut r2.issues, &mut out.classes);
                if nontail {
                    r2.issues.retain(|i| i.kind != "tail-call-height");
                }
                if star {
                    r2.issues.retain(|i| i.kind != "load-undefined-local");
                }
                if let Some(i) = r2.issues.first() {
                    out.violation = Some(fmt_issue("tree-shaken", i, &shaken));
                    return out;
                }
                // an index that is in range but refers to the wrong entry: every function kept by
                // tree-shaking must be a function of the original up to renumbering
                if let Some(m) = bcv::renaming_issue(&bc, &shaken, true) {
                    out.violation = Some(("tree-shaken:reference-not-preserved".into(), format!("[tree-shaken] {m}")));
                    return out;
                }
                if shaken.functions.len() < bc.functions.len() || shaken.types.len() < bc.types.len() {
                    out.classes.push("form:tree-shaken(removed something)".into());
                } else {
                    out.classes.push("form:tree-shaken".into());
                }
            }
            Err(p) => {
                out.violation = Some(("tree-shaken:panic".into(), format!("tree_shake panicked: {p} @ {}", last_panic_loc())));
                return out;
            }
        }
        // merged into an environment behind other programs
        let merged = catch(|| {
            let mut env = null_env(2);
            let mut n_before = 0;
            for b in &case.before {
                if let Ok(cb) = qrun::compile(b, &modules, reg)
                    && let Some(e) = cb.entry
                {
                    // alternate between optimized and plain forms
                    let bcb = if n_before % 2 == 0 { cb.program.to_bytecode_optimized(e) } else { cb.program.to_bytecode(Some(e)) };
                    if env.start_process(Some(bcb)).is_ok() {
                        n_before += 1;
                    }
                }
            }
            let this = if case.before.len() % 2 == 0 { bc.clone() } else { c.program.to_bytecode_optimized(entry) };
            let r = env.start_process(Some(this));
            (n_before, r.is_ok(), env.get_program().to_bytecode(None))
        });
        match merged {
            Ok((n_before, ok, mbc)) => {
                if !ok {
                    out.violation = Some(("merged:start-failed".into(), "Environment::start_process failed for accepted bytecode".into()));
                    return out;
                }
                let mut r3 = bcv::verify_bytecode(&mbc);
                drop_infeasible(&mut r3.issues, &mut out.classes);
                if nontail || case.before_nontail(reg) {
                    r3.issues.retain(|i| i.kind != "tail-call-height");
                }
                if star || case.before.iter().any(|b| b.contains('*')) {
                    r3.issues.retain(|i| i.kind != "load-undefined-local");
                }
                if let Some(i) = r3.issues.first() {
                    out.violation = Some(fmt_issue("merged", i, &mbc));
                    return out;
                }
                // likewise every function of the merged-in form must reappear in the environment's
                // program up to renumbering
                let this = if case.before.len() % 2 == 0 { bc.clone() } else { c.program.to_bytecode_optimized(entry) };
                if let Some(m) = bcv::renaming_issue(&this, &mbc, false) {
                    out.violation = Some(("merged:reference-not-preserved".into(), format!("[merged] {m}")));
                    return out;
                }
                out.classes.push(format!("form:merged-behind-{n_before}"));
            }
            Err(p) => {
                out.violation = Some(("merged:panic".into(), format!("merging panicked: {p} @ {}", last_panic_loc())));
                return out;
            }
        }
    }
    out
}

pub const UNUSED_PREFIX: &str = "'unused9 = Uu9['int, Vv9['bin, (q: Xx9)]] | Ww9[(p: 'int)]\n";

pub fn std_import_sources() -> Vec<String> {
    let mut v = Vec::new();
    for (name, _) in corpus::harvest_files("std") {
        let m = name.trim_end_matches(".qv");
        v.push(format!("%{m}"));
        v.push(format!("m = %{m}, m"));
    }
    v
}

pub fn run(ctx: &Ctx) -> i32 {
    let started = Instant::now();
    let stats = Stats::new();
    let mut sources = corpus::all_sources();
    sources.extend(std_import_sources());
    let sources: Arc<Vec<String>> = Arc::new(sources);
    stats.note("corpus_programs", json!(sources.len()));
    let cases_per_shard: u32 = ctx.tier.pick(1_500, 40_000);
    let harness_errors = std::sync::Mutex::new(Vec::<String>::new());

    let violations = run_sharded(ctx.shards, |shard| {
        let reg = qrun::registry();
        let mut out = Vec::new();
        let mut record = |case: &Case, o: &CaseOutcome, out: &mut Vec<Violation>| {
            stats.eval();
            if !o.compiled {
                stats.discard();
                return;
            }
            stats.class_n("functions-verified", o.functions as u64);
            stats.class_n("dynamic-points", o.dyn_points);
            for c in &o.classes {
                stats.class(c);
            }
            if o.nontrivial_functions > 0 {
                stats.nontrivial(&case.source);
                stats.class_n("nontrivial-functions", o.nontrivial_functions as u64);
                if o.nontrivial_functions > 1 {
                    stats.sample(|| json!({"source": truncate(&case.source, 200), "functions": o.functions, "merged_behind": case.before.len()}));
                }
            }
            if let Some(h) = &o.harness_error {
                harness_errors.lock().unwrap().push(format!("{h}\nsource: {}", truncate(&case.source, 600)));
            }
            if let Some((sig, msg)) = &o.violation {
                out.push(Violation {
                    signature: sig.clone(),
                    summary: format!("{msg}\nsource: {}", truncate(&case.source, 800)),
                    replay: json!({"kind": "c07", "source": case.source, "before": case.before}),
                });
            }
        };
        // 1. the whole corpus, split across shards, each behind (index mod 4) earlier programs
        for (i, src) in sources.iter().enumerate() {
            if i % ctx.shards != shard {
                continue;
            }
            let nb = i % 4;
            let before: Vec<String> = (0..nb).map(|k| sources[(i * 7 + k * 13 + 1) % sources.len()].clone()).collect();
            let case = Case { source: src.clone(), before };
            let o = check_case(&case, &reg, true);
            record(&case, &o, &mut out);
            // the same program after types nothing refers to: tree-shaking drops them and has to
            // renumber every later id (types, tuples and the ids nested inside them)
            if o.compiled {
                let case = Case { source: format!("{UNUSED_PREFIX}{src}"), before: case.before.clone() };
                let o = check_case(&case, &reg, false);
                if o.compiled {
                    stats.class("unused-types-registered-first");
                }
                record(&case, &o, &mut out);
            }
        }
        // 2. generated: token-level mutants of corpus programs that still compile
        let strat = (any::<u16>(), 1u8..5, any::<u16>(), any::<u16>(), prop::collection::vec(any::<u16>(), 0..3));
        let seed = derive_seed(ctx.seed, ctx.id, shard, 0);
        let res = pt_search(seed, cases_per_shard, &strat, &stats, |(base, op, pos, arg, before)| {
            let g = c18::Gen::Mutant { base: *base, op: *op, pos: *pos, arg: *arg };
            let source = c18::render(&g, &sources);
            if source.len() > 3000 || c18::excluded(&source).is_some() {
                stats.discard();
                return Ok(());
            }
            let before: Vec<String> = before.iter().map(|b| sources[((*b as usize) * sources.len()) >> 16].clone()).collect();
            let case = Case { source, before };
            let o = check_case(&case, &reg, true);
            let mut sink = Vec::new();
            record(&case, &o, &mut sink);
            if o.compiled {
                stats.class("generated-mutant-compiled");
            }
            match sink.pop() {
                Some(v) => Err(format!("{}\u{1}{}", v.signature, v.summary)),
                None => Ok(()),
            }
        });
        if let Search::Failed { minimal, message } = res {
            let (base, op, pos, arg, before) = minimal;
            let g = c18::Gen::Mutant { base, op, pos, arg };
            let source = c18::render(&g, &sources);
            let before: Vec<String> = before.iter().map(|b| sources[((*b as usize) * sources.len()) >> 16].clone()).collect();
            let (sig, msg) = message.split_once('\u{1}').map(|(a, b)| (a.to_string(), b.to_string())).unwrap_or((message.clone(), message));
            out.push(Violation { signature: sig, summary: msg, replay: json!({"kind": "c07", "source": source, "before": before}) });
        }
        out
    });

    let mut violations = violations;
    {
        let reg = qrun::registry();
        let known = KnownFindings::load();
        for e in known.known_for(ctx.id) {
            if e.signature == "witness:star-over-union" {
                let src = "'union = Config[a: 'int, b: 'int] | Other[x: 'int]\n#'union { =* => [a, b] | None } =f\n[Config[a: 1, b: 2] f, Other[x: 9] f]";
                let bad = match qrun::compile(src, &qrun::Modules::new(), &reg) {
                    Ok(c) => bcv::verify_bytecode(&c.program.to_bytecode(c.entry)).issues.iter().any(|i| i.kind == "load-undefined-local"),
                    Err(_) => false,
                };
                if bad {
                    stats.known_hit(&e.signature);
                } else {
                    println!("NOTE: known finding {} no longer reproduces", e.signature);
                }
            }
            if e.signature == "witness:short-circuit-skips-binding" {
                let src = "{ 0, 1 =x, x => x | 200 }";
                let bad = match qrun::compile(src, &qrun::Modules::new(), &reg) {
                    Ok(c) => bcv::verify_bytecode(&c.program.to_bytecode(c.entry)).issues.iter().any(|i| i.kind == "undefined-local-on-infeasible-path"),
                    Err(_) => false,
                };
                if bad {
                    stats.known_hit(&e.signature);
                } else {
                    println!("NOTE: known finding {} no longer reproduces (witness `{src}`)", e.signature);
                }
            }
            if e.signature == "witness:nontail-tailcall" {
                let src = "f = #'int { [^, 1] }";
                let bad = match qrun::compile(src, &qrun::Modules::new(), &reg) {
                    Ok(c) => bcv::verify_bytecode(&c.program.to_bytecode(c.entry)).issues.iter().any(|i| i.kind == "tail-call-height"),
                    Err(_) => false,
                };
                if bad {
                    stats.known_hit(&e.signature);
                } else {
                    println!("NOTE: known finding {} no longer reproduces (witness `{src}` is rejected or well-formed)", e.signature);
                }
            }
        }
        let _ = &mut violations;
    }
    let herrs = harness_errors.into_inner().unwrap();
    if !herrs.is_empty() {
        eprintln!("HARNESS: verifier self-check failed ({} case(s)); first:\n{}", herrs.len(), herrs[0]);
        stats.note("verifier_selfcheck_failures", json!(herrs.len()));
    }
    let code = finish(Report {
        ctx,
        stats: &stats,
        violations,
        rule: "programs: every harvested source (tests, spec fences, std, examples), the same source after an alias nothing refers to, an import of every std module, and single-token mutants of those that still compile; each verified per function on all paths in three forms (as compiled, tree-shaken, merged into an environment behind 0-3 other programs), and each derived form compared with the original up to renumbering of its tables (every function, with each index replaced by what it refers to, must reappear); non-trivial = program containing a function with >= 1 control-flow join and a Store after a conditional jump; distinct by source text".into(),
        assumptions: vec![
            "instruction stack effects are modelled from the executor's handlers and cross-checked dynamically (quantum 1) on every sequential corpus program".into(),
            "code after an unconditional jump or tail call is unreachable and not visited".into(),
            "REPL continuation functions (which read locals of earlier lines) are out of scope: whole programs only".into(),
        ],
        required_classes: vec!["form:as-compiled", "form:tree-shaken(removed something)", "form:merged-behind-2", "has-tail-call", "has-cleanup-reset", "dynamic-crosscheck", "generated-mutant-compiled"],
        started,
        technique: "corpus + proptest-mutated programs; oracle = path-insensitive abstract interpreter over (stack height, defined-locals interval) + table cross-reference check",
    });
    if code == 0 && !herrs.is_empty() {
        return 2;
    }
    code
}

pub fn replay(payload: &serde_json::Value) -> Result<(), String> {
    let source = payload["source"].as_str().ok_or("missing source")?.to_string();
    let before: Vec<String> = payload["before"].as_array().map(|a| a.iter().filter_map(|x| x.as_str().map(|s| s.to_string())).collect()).unwrap_or_default();
    let reg = qrun::registry();
    let o = check_case(&Case { source, before }, &reg, true);
    if let Some(h) = o.harness_error {
        println!("  note: {h}");
    }
    match o.violation {
        Some((sig, msg)) => Err(format!("{sig}: {msg}")),
        None => {
            println!("  compiled={} functions={}", o.compiled, o.functions);
            Ok(())
        }
    }
}
