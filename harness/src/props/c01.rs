//! C01 — type soundness: an accepted program never ends in a VM-level type failure, and a value
//! it produces structurally inhabits the result type the compiler inferred.

use crate::corpus;
use crate::fw::*;
use crate::hval::{self, HVal, Tables};
use crate::props::c02;
use crate::qrun::{self, Modules, RunEnd};
use crate::tygen::{self, Ty};
use crate::tysem::{self, V};
use proptest::prelude::*;
use quiver_core::error::Error;
use quiver_core::program::Program;
use serde_json::json;
use std::sync::Arc;
use std::time::Instant;

pub fn is_vm_type_failure(e: &Error) -> bool {
    !matches!(e, Error::InvalidArgument(_) | Error::OperationNotAllowed { .. })
}

#[derive(Debug)]
pub enum Judged {
    /// (kind) "value", "domain-error", "diverged"
    Sound(&'static str),
    Rejected,
    Unsound { kind: &'static str, message: String },
}

/// Compile and run `src`; judge the outcome against the statement.
pub fn judge(src: &str, modules: &Modules, reg: &qrun::Registry) -> Judged {
    let c = match catch(|| qrun::compile(src, modules, reg)) {
        Ok(Ok(c)) => c,
        Ok(Err(_)) => return Judged::Rejected,
        Err(p) => return Judged::Unsound { kind: "compiler-panic", message: format!("the compiler panicked: {p}") },
    };
    let Some(entry) = c.entry else { return Judged::Rejected };
    let bc = c.program.to_bytecode(Some(entry));
    let run = match catch(|| qrun::run_sync(&bc, reg, 1000, 8_000_000, false)) {
        Ok(r) => r,
        Err(p) => return Judged::Unsound { kind: "vm-panic", message: format!("the VM panicked: {p}") },
    };
    match &run.end {
        RunEnd::Diverged => Judged::Sound("diverged"),
        // needs an environment (processes): not judged by the synchronous driver
        RunEnd::Blocked => Judged::Rejected,
        RunEnd::Error(e) => {
            if is_vm_type_failure(e) {
                Judged::Unsound { kind: "vm-type-failure", message: format!("the accepted program ends in {e:?}") }
            } else {
                Judged::Sound("domain-error")
            }
        }
        RunEnd::Value(v) => {
            let t = Tables { tuples: &bc.tuples, constants: &bc.constants };
            let h: HVal = hval::from_executor(v, &run.executor, &t);
            if tysem::hval_inhabits(&h, c.result_type, &[], &c.program) {
                Judged::Sound("value")
            } else {
                Judged::Unsound {
                    kind: "result-not-in-inferred-type",
                    message: format!("the program evaluates to {} but the compiler inferred the result type {}", h.full(), quiver_core::format::format_type_by_id(&c.program, c.result_type)),
                }
            }
        }
    }
}

// ---------------------------------------------------------------------------------------------
// stream B: narrowing programs over generated types

#[derive(Clone, Debug)]
pub struct NarrowCase {
    pub t: Ty,
    pub s_mut: Vec<Vec<u8>>,
    pub form: u8,
    pub pick: Vec<u8>,
}

pub fn narrow_strategy() -> impl Strategy<Value = NarrowCase> {
    (tygen::ty(false), prop::collection::vec(prop::collection::vec(any::<u8>(), 4), 1..3), 0u8..6, prop::collection::vec(any::<u8>(), 6)).prop_map(|(t, s_mut, form, pick)| NarrowCase { t, s_mut, form, pick })
}

/// a partial type used as the type of a tuple/partial field
fn partial_nested(t: &Ty, under: bool) -> bool {
    match t {
        Ty::Partial { fields, .. } => under || fields.iter().any(|(_, f)| partial_nested(f, true)),
        Ty::Tuple { fields, .. } => fields.iter().any(|(_, f)| partial_nested(f, true)),
        _ => t.children().iter().any(|c| partial_nested(c, under)),
    }
}

/// ('t, 's) of a case. forms 0-4: 's is 't after the case's mutations. form 5: 's is 't with one
/// tuple variant split into two that share their other fields, and 't is a widening of 's (a
/// variant added at 1-2 places), so that some values of 't lie just outside 's.
pub fn narrow_types(c: &NarrowCase) -> (Ty, Ty) {
    let d = |i: usize| c.pick.get(i).copied().unwrap_or(0);
    if c.form == 5 {
        let s_ty = tygen::mutate(&c.t, &[d(1), 12, d(2), d(3)]);
        let mut t_ty = s_ty.clone();
        for m in &c.s_mut {
            t_ty = tygen::mutate(&t_ty, &[m[0], 0, m[2], m[3]]);
        }
        (t_ty, s_ty)
    } else {
        let mut s_ty = c.t.clone();
        for m in &c.s_mut {
            s_ty = tygen::mutate(&s_ty, m);
        }
        (c.t.clone(), s_ty)
    }
}

pub fn narrow_feats(c: &NarrowCase) -> Vec<&'static str> {
    let (t_ty, s_ty) = narrow_types(c);
    let mut f = vec![];
    if t_ty.has_back() || s_ty.has_back() {
        f.push("recursive-type");
    }
    if contains_nil(&t_ty) {
        f.push("nil-in-scrutinee-type");
    }
    if t_ty.has_partial() || s_ty.has_partial() {
        f.push("partial-type");
    }
    if c.form == 3 {
        f.push("ascription-nested-in-tuple-pattern");
    }
    f
}

pub fn narrow_source(c: &NarrowCase) -> Option<(String, bool, bool)> {
    let (t_ty, s_ty) = narrow_types(c);
    let mut p = Program::new();
    let tid = tygen::register(&t_ty, &mut p);
    let all: Vec<V> = tysem::enumerate(tid, &[], 3, &p).into_iter().filter(|v| v.first_order() && !has_empty_bin(v)).collect();
    if all.is_empty() {
        return None;
    }
    let mut values: Vec<V> = Vec::new();
    for d in &c.pick {
        let v = all[(*d as usize * all.len()) >> 8].clone();
        if !values.contains(&v) {
            values.push(v);
        }
    }
    if c.form >= 4 {
        // call acceptance: one value of 't is passed to an identity function over 's; if the
        // compiler accepts the call, the result (the value itself) must be a value of 's
        let v = &values[0];
        let src = format!("'t = {},\n's = {},\nf = #'s {{ $ }},\n{} f", tygen::render(&t_ty), tygen::render(&s_ty), v.source());
        return Some((src, t_ty.has_back() || s_ty.has_back(), contains_nil(&t_ty)));
    }
    let body = match c.form {
        0 => "| =('s)y => Y[y] | =x => N[x]",
        1 => "| ='s => Y[$] | =x => N[x]",
        2 => "| =('s)y => Y[y] | N[$]",
        _ => "| =x [x] =[('s)y] => Y[y] | =x => N[x]",
    };
    let calls: Vec<String> = values.iter().map(|v| format!("{} g", v.source())).collect();
    let src = format!("'t = {},\n's = {},\ng = #'t {{ {body} }},\n[{}]", tygen::render(&t_ty), tygen::render(&s_ty), calls.join(", "));
    let recursive = t_ty.has_back() || s_ty.has_back();
    let has_nil = contains_nil(&t_ty);
    Some((src, recursive, has_nil))
}

fn has_empty_bin(v: &V) -> bool {
    match v {
        V::Bin(b) => b.is_empty(),
        V::Tup { fields, .. } => fields.iter().any(|(_, f)| has_empty_bin(f)),
        _ => false,
    }
}

fn contains_nil(t: &Ty) -> bool {
    *t == Ty::nil() || t.children().iter().any(|c| contains_nil(c))
}

#[derive(Clone, Debug)]
pub enum Case {
    Program(c02::Case),
    Narrow(NarrowCase),
}

pub fn run(ctx: &Ctx) -> i32 {
    let started = Instant::now();
    let stats = Stats::new();
    let known = KnownFindings::load();
    let cases_per_shard: u32 = ctx.tier.pick(10_000, 200_000);
    // Harvested programs that use generic functions, std modules (generic throughout) or recursive
    // aliases are left out of the mutation stream: the compiler's handling of those has recorded
    // holes (see DESIGN.md) that mutation hits in too many distinct ways to attribute case by case.
    let corpus: Arc<Vec<String>> = Arc::new(corpus::all_sources().into_iter().filter(|s| s.len() < 1500 && !s.contains('%') && !s.contains("#<") && !s.contains('^') && !s.contains("<'")).collect());
    stats.note("mutation_base_programs", json!(corpus.len()));

    let violations = run_sharded(ctx.shards, |shard| {
        let reg = qrun::registry();
        let mut out = Vec::new();
        let corpus = corpus.clone();
        let strat = prop_oneof![
            3 => c02::strategy().prop_map(Case::Program),
            2 => narrow_strategy().prop_map(Case::Narrow),
        ];
        let source = |case: &Case| -> Option<(String, Vec<&'static str>)> {
            match case {
                Case::Program(pc) => Some((c02::source_of(pc, &corpus).0, vec![])),
                Case::Narrow(nc) => narrow_source(nc).map(|(s, _, _)| (s, narrow_feats(nc))),
            }
        };
        let res = pt_search(derive_seed(ctx.seed, ctx.id, shard, 0), cases_per_shard, &strat, &stats, |case| {
            let Some((src, feats)) = source(case) else {
                stats.discard();
                return Ok(());
            };
            crumb(ctx.id, || json!({"kind": "c01", "source": src}));
            // host I/O builtins have no implementation in the synchronous driver
            if ["__file", "__socket", "__tcp", "__udp", "__dir", "__stdin", "__stdout", "__stderr", "__time", "__random", "__env", "__process_"].iter().any(|k| src.contains(k)) {
                stats.discard();
                return Ok(());
            }
            match judge(&src, &Modules::new(), &reg) {
                Judged::Rejected => {
                    stats.discard();
                    Ok(())
                }
                Judged::Sound(kind) => {
                    stats.eval();
                    stats.class(match kind {
                        "value" => "outcome:value-inhabits-inferred-type",
                        "domain-error" => "outcome:value-domain-error",
                        _ => "outcome:diverged",
                    });
                    stats.class(match case {
                        Case::Program(c02::Case::Mutant { .. }) => "stream:mutant-of-harvested-program",
                        Case::Program(c02::Case::Generated { .. }) => "stream:generated-control-flow",
                        Case::Narrow(_) => "stream:narrowing-over-generated-types",
                    });
                    for f in &feats {
                        stats.class(f);
                    }
                    if matches!(case, Case::Narrow(_)) || src.contains("=>") {
                        stats.nontrivial(&src);
                        stats.sample(|| json!({"program": truncate(&src, 500), "outcome": kind}));
                    }
                    Ok(())
                }
                Judged::Unsound { kind, message } => {
                    let sig = attribute(kind, &src, &feats);
                    if !ctx.strict && known.is_known(ctx.id, &sig).is_some() {
                        stats.known_hit(&sig);
                        return Ok(());
                    }
                    if let Ok(path) = std::env::var("QV_C01_COLLECT") {
                        use std::io::Write;
                        if let Ok(mut f) = std::fs::OpenOptions::new().create(true).append(true).open(path) {
                            let _ = writeln!(f, "#### [{sig}] {message}\n{src}\n");
                        }
                        return Ok(());
                    }
                    Err(format!("{sig}\u{1}{message}\n--- program ---\n{src}"))
                }
            }
        });
        if let Search::Failed { minimal, message } = res {
            let (sig, msg) = message.split_once('\u{1}').map(|(a, b)| (a.to_string(), b.to_string())).unwrap_or((message.clone(), message));
            out.push(Violation { signature: sig, summary: truncate(&msg, 6000), replay: json!({"kind": "c01", "source": source(&minimal).map(|s| s.0).unwrap_or_default()}) });
        }
        out
    });

    // directed witnesses of the recorded findings
    let mut violations = violations;
    {
        let reg = qrun::registry();
        for (sig, src) in WITNESSES {
            if known.is_known(ctx.id, sig).is_none() {
                continue;
            }
            match judge(src, &Modules::new(), &reg) {
                Judged::Unsound { kind, message } => {
                    let got = attribute(kind, src, &[]);
                    if got == *sig || known.is_known(ctx.id, &got).is_some() {
                        stats.known_hit(sig);
                    } else {
                        violations.push(Violation { signature: got, summary: format!("{message}\n{src}"), replay: json!({"kind": "c01", "source": src}) });
                    }
                }
                _ => println!("NOTE: known finding {sig} no longer reproduces on its witness"),
            }
        }
    }

    finish(Report {
        ctx,
        stats: &stats,
        violations,
        rule: "three streams of accepted programs: (1) 1-3 token-level edits of the harvested programs, (2) generated nested control-flow programs (the C02 generator), (3) narrowing programs over generated types: a scrutinee type 't, a test type 's = 't after 1-2 mutations, a function `g = #'t { | =('s)y => Y[y] | =x => N[x] }` in four forms (ascribed binder, bare type test with `$`, no fallback binder, nested in a tuple pattern) applied to up to six literal values enumerated from 't. Every program the compiler accepts is run; it must not end in a VM-level type failure (any runtime error other than InvalidArgument / OperationNotAllowed), and a value must inhabit the inferred result type (structural membership over the compiled program's own types; functions, processes and refs accepted by kind). evaluations = accepted programs run to an outcome; non-trivial = narrowing programs and programs with a condition-consequence; distinct by program text".into(),
        assumptions: vec![
            "programs that need an environment (processes) are not run by this check".into(),
            "membership in a callable/process type is by kind only; a dangling back reference or a type variable in the inferred type accepts anything, so only definite non-membership is reported".into(),
        ],
        required_classes: vec!["outcome:value-inhabits-inferred-type", "outcome:value-domain-error", "stream:mutant-of-harvested-program", "stream:generated-control-flow", "stream:narrowing-over-generated-types", "recursive-type", "nil-in-scrutinee-type"],
        started,
        technique: "mutated harvested programs + proptest-generated control-flow and narrowing programs; oracle = runtime error classification + structural membership of the result in the inferred type",
    })
}

/// Attribute an unsound outcome to a recorded root cause where the program shows its trigger.
pub fn attribute(kind: &str, src: &str, feats: &[&str]) -> String {
    // narrowing programs: by the types involved
    // a back reference inside a type expression (`[^`, `^]`, `^,` directly after a bracket or comma)
    let recursive_alias = src.contains('\'') && ["[^]", "[^,", ", ^]", ", ^,", "[^1", "^1]", "| ^", "^ |"].iter().any(|k| src.contains(k));
    if feats.contains(&"recursive-type") || (feats.is_empty() && recursive_alias) {
        return format!("{kind}:recursive-type-narrowed");
    }
    if feats.contains(&"nil-in-scrutinee-type") {
        return format!("{kind}:nil-in-narrowed-type");
    }
    if feats.contains(&"partial-type") {
        return format!("{kind}:partial-type-narrowed");
    }
    if feats.contains(&"ascription-nested-in-tuple-pattern") {
        return format!("{kind}:ascription-nested-in-tuple-pattern");
    }
    // other programs: by the situation the reference evaluator meets, if it covers the program
    if let Ok(Ok((_, ev))) = catch(|| crate::refeval::run_source_events(src, 400_000)) {
        for k in c02::EVENT_ORDER {
            if ev.contains(&k) {
                return format!("{kind}:{k}");
            }
        }
    }
    if src.contains("#<") {
        return format!("{kind}:generic-function");
    }
    kind.to_string()
}

pub const WITNESSES: [(&str, &str); 5] = [
    ("vm-type-failure:nil-scrutinee-reaches-a-later-branch", "f = #('int | A | []) { | =A => 0 | ='int => [$, 1] __integer_add__ | 2 }, [] f"),
    ("result-not-in-inferred-type:variable-bound-to-nil", "wd = #([] | 'int) { $ }, a = [] wd, [a]"),
    ("vm-type-failure:partial-typed-parameter-with-other-layout", "pf = #(x: 'int) { [$.x, 1] __integer_add__ }, T[0x00, x: 2] pf"),
    ("vm-type-failure:chain-continues-to-a-value-after-a-failed-match", "t = 2, [10, 2, 5] { | =[p, p, p] t =2 => [p, 1] __integer_add__ | 0 }"),
    ("result-not-in-inferred-type:recursive-type-narrowed", "'t2 = [^] | W['int] | [], f = #'t2 { | =W[_] => 0 | =x => x }, t = [W[5]], t f"),
];

pub fn replay(payload: &serde_json::Value) -> Result<(), String> {
    let src = payload["source"].as_str().ok_or("source")?;
    let reg = qrun::registry();
    match judge(src, &Modules::new(), &reg) {
        Judged::Unsound { kind, message } => Err(format!("{}: {message}\n{src}", attribute(kind, src, &[]))),
        other => {
            println!("  {other:?}");
            Ok(())
        }
    }
}
