//! C03 — results do not depend on scheduling, worker count or time-slice length.

use crate::fw::*;
use crate::gproc::{self, GProg};
use crate::hval::HVal;
use crate::qrun;
use crate::sim::{self, ProgRun, SimCfg, SimEnd};
use proptest::prelude::*;
use serde_json::json;
use std::time::Instant;

#[derive(Clone, Debug)]
pub struct Case {
    pub prog: GProg,
    pub cfgs: Vec<(u8, u8, Vec<u8>)>, // workers, quantum index, schedule
}

pub const QUANTA: &[usize] = &[1, 2, 3, 7, 64, 1000];

pub fn strategy(n_cfgs: usize) -> impl Strategy<Value = Case> {
    let cfg = (1u8..=5, 0u8..6, prop::collection::vec(any::<u8>(), 0..160));
    (gproc::gprog(), prop::collection::vec(cfg, n_cfgs)).prop_map(|(prog, cfgs)| Case { prog, cfgs })
}

pub fn summarize(r: &ProgRun) -> (String, Vec<String>) {
    let res = match &r.result {
        Some(Ok(v)) => v.full(),
        Some(Err(e)) => format!("ERR {e:?}"),
        None => "<none>".into(),
    };
    let mut procs: Vec<String> = r
        .processes
        .values()
        .map(|p| match p {
            Some(Ok(v)) => strip_pids(v).full(),
            Some(Err(e)) => format!("ERR {e:?}"),
            None => "<running>".into(),
        })
        .collect();
    procs.sort();
    (res, procs)
}

fn strip_pids(v: &HVal) -> HVal {
    match v {
        HVal::Proc(_) => HVal::Proc(0),
        HVal::Tuple(n, f) => HVal::Tuple(n.clone(), f.iter().map(|(l, x)| (l.clone(), strip_pids(x))).collect()),
        HVal::Fn(i, c) => HVal::Fn(*i, c.iter().map(strip_pids).collect()),
        o => o.clone(),
    }
}

/// Run the case. Err((signature, message, trace)) on violation. Ok(facts) otherwise.
pub struct Facts {
    pub processes: usize,
    pub max_workers: usize,
    pub q1: bool,
    pub spawning_mail: bool,
    pub discarded: bool,
    pub inconclusive: u32,
    pub runs: u32,
}

pub fn check(case: &Case, reg: &qrun::Registry) -> Result<Facts, (String, String)> {
    let r = gproc::render(&case.prog);
    let mut facts = Facts { processes: r.processes, max_workers: 1, q1: false, spawning_mail: false, discarded: false, inconclusive: 0, runs: 0 };
    let c = match catch(|| qrun::compile(&r.source, &qrun::Modules::new(), reg)) {
        Ok(Ok(c)) => c,
        Ok(Err(e)) => return Err(("generator-rejected".into(), format!("generated program does not compile: {e:?}\n{}", r.source))),
        Err(p) => return Err(("compile-panic".into(), format!("compiler panicked: {p}"))),
    };
    let bc = c.program.to_bytecode(c.entry);
    let base = sim::run_program(&bc, SimCfg::baseline(), reg, None, |_, _| Ok(()));
    match &base.end {
        SimEnd::Done => {}
        SimEnd::Budget => {
            facts.discarded = true;
            return Ok(facts);
        }
        other => {
            return Err((
                format!("baseline:{}", end_kind(other)),
                format!("baseline run (1 worker, quantum 1000, round-robin) ended in {other:?}\n--- program ---\n{}\n--- trace tail ---\n{}", r.source, base.trace.join("\n")),
            ));
        }
    }
    let (want_res, want_procs) = summarize(&base);
    if want_res.starts_with("ERR") || want_res == "<none>" {
        return Err(("baseline:error".into(), format!("baseline result {want_res}\n--- program ---\n{}", r.source)));
    }
    for (workers, qi, schedule) in &case.cfgs {
        let q = QUANTA[*qi as usize % QUANTA.len()];
        let cfg = SimCfg { workers: *workers as usize, quanta: vec![q], schedule: schedule.clone(), max_moves: 400_000, env_slow: 0 };
        let mut spawning_mail = false;
        let run = sim::run_program(&bc, cfg, reg, None, |s, m| {
            if let sim::Move::Worker { i, .. } = m {
                let ex = s.workers[*i].verif_executor();
                for pid in ex.verif_parked().spawning {
                    if ex.get_process(pid).is_some_and(|p| !p.mailbox.is_empty()) {
                        spawning_mail = true;
                    }
                }
            }
            Ok(())
        });
        facts.runs += 1;
        facts.max_workers = facts.max_workers.max(*workers as usize);
        facts.q1 |= q == 1;
        facts.spawning_mail |= spawning_mail;
        let desc = format!("workers={workers} quantum={q} schedule={}", hex(schedule));
        match &run.end {
            SimEnd::Done => {}
            SimEnd::Budget => {
                facts.inconclusive += 1;
                continue;
            }
            other => {
                return Err((
                    format!("run:{}", end_kind(other)),
                    format!("{desc}: run ended in {other:?} (baseline gives {want_res})\n--- program ---\n{}\n--- trace tail ---\n{}", r.source, run.trace.join("\n")),
                ));
            }
        }
        let (res, procs) = summarize(&run);
        if res != want_res {
            return Err((
                "result-differs".into(),
                format!("{desc}: entry result {res}, baseline {want_res}\n--- program ---\n{}\n--- trace tail ---\n{}", r.source, run.trace.join("\n")),
            ));
        }
        if procs != want_procs {
            return Err((
                "process-results-differ".into(),
                format!("{desc}: per-process results {procs:?}, baseline {want_procs:?}\n--- program ---\n{}\n--- trace tail ---\n{}", r.source, run.trace.join("\n")),
            ));
        }
    }
    Ok(facts)
}

pub fn end_kind(e: &SimEnd) -> &'static str {
    match e {
        SimEnd::Done => "done",
        SimEnd::Quiescent => "hang",
        SimEnd::Budget => "budget",
        SimEnd::Panic(_) => "panic",
        SimEnd::StepErr(_) => "step-error",
    }
}

pub fn run(ctx: &Ctx) -> i32 {
    let started = Instant::now();
    let stats = Stats::new();
    let known = KnownFindings::load();
    let cases_per_shard: u32 = ctx.tier.pick(150, 4_000);
    let n_cfgs = ctx.tier.pick(10, 30);

    let violations = run_sharded(ctx.shards, |shard| {
        let reg = qrun::registry();
        let mut out = Vec::new();
        let strat = strategy(n_cfgs);
        let seed = derive_seed(ctx.seed, ctx.id, shard, 0);
        let res = pt_search(seed, cases_per_shard, &strat, &stats, |case| match check(case, &reg) {
            Ok(f) => {
                if f.discarded {
                    stats.discard();
                    return Ok(());
                }
                stats.evals(f.runs as u64 + 1);
                for _ in 0..f.inconclusive {
                    stats.inconclusive();
                }
                let r = gproc::render(&case.prog);
                if f.q1 {
                    stats.class("quantum-1");
                }
                if f.spawning_mail {
                    stats.class("message-delivered-while-receiver-is-spawning");
                }
                if r.has_late_await {
                    stats.class("await-after-target-finished");
                }
                if r.has_messages {
                    stats.class("has-messages");
                }
                if r.has_binaries {
                    stats.class("has-binaries");
                }
                if case.prog.parts.iter().any(|p| matches!(p, gproc::Part::SharedAwait { .. })) {
                    stats.class("several-awaiters-of-one-running-process");
                }
                if case.prog.parts.iter().any(|p| matches!(p, gproc::Part::SelectKnownFirst { .. })) {
                    stats.class("select-over-finished-running-and-blocked-processes");
                }
                stats.class(&format!("workers<={}", f.max_workers));
                if f.processes >= 3 && f.max_workers >= 2 && r.has_messages {
                    stats.nontrivial(&r.source);
                    stats.sample(|| json!({"program": truncate(&r.source[gproc::PRELUDE.len()..], 500), "processes": f.processes, "configurations": f.runs}));
                }
                Ok(())
            }
            Err((sig, msg)) => {
                if !ctx.strict && known.is_known(ctx.id, &sig).is_some() {
                    stats.known_hit(&sig);
                    return Ok(());
                }
                Err(format!("{sig}\u{1}{msg}"))
            }
        });
        if let Search::Failed { minimal, message } = res {
            let (sig, msg) = message.split_once('\u{1}').map(|(a, b)| (a.to_string(), b.to_string())).unwrap_or((message.clone(), message));
            let r = gproc::render(&minimal.prog);
            out.push(Violation {
                signature: sig,
                summary: truncate(&msg, 6000),
                replay: json!({"kind": "c03", "source": r.source, "cfgs": minimal.cfgs.iter().map(|(w, q, s)| json!({"workers": w, "quantum": QUANTA[*q as usize % QUANTA.len()], "schedule": hex(s)})).collect::<Vec<_>>()}),
            });
        }
        out
    });

    finish(Report {
        ctx,
        stats: &stats,
        violations,
        rule: "programs composed of 1-3 confluent parts (fork/join with generated await order and repeated awaits, forwarding pipelines, sequential request/reply through the parent's mailbox, await chains through captured process handles, late awaits of finished processes, several awaiters of one running process, a select over one finished, some running and some blocked processes, binaries built in children and awaited or streamed as messages); each run under a baseline (1 worker, quantum 1000, round-robin) and 10 (quick) generated configurations: workers 1-5, quantum in {1,2,3,7,64,1000}, schedule bytes choosing among enabled environment/worker steps with partial visibility (1, 2 or all queued messages); evaluations = simulator runs; non-trivial = >= 3 processes, >= 2 workers and message passing; distinct by program text".into(),
        assumptions: vec![
            "transport model: FIFO per channel with arbitrary delay (what std::sync::mpsc provides); real OS threads are not exercised".into(),
            "confluence is by construction of the generator (single-sender mailboxes, no racing timeouts)".into(),
            "a run that exhausts the move budget is inconclusive, never a violation".into(),
        ],
        required_classes: vec!["quantum-1", "await-after-target-finished", "has-messages", "has-binaries", "workers<=5", "message-delivered-while-receiver-is-spawning", "several-awaiters-of-one-running-process", "select-over-finished-running-and-blocked-processes"],
        started,
        technique: "proptest-generated confluent process systems x generated schedules in a deterministic simulator; oracle = metamorphic equality with the baseline schedule, plus no hang/panic/step error",
    })
}

pub fn replay(payload: &serde_json::Value) -> Result<(), String> {
    let source = payload["source"].as_str().ok_or("missing source")?;
    let reg = qrun::registry();
    let c = qrun::compile(source, &qrun::Modules::new(), &reg).map_err(|e| format!("{e:?}"))?;
    let bc = c.program.to_bytecode(c.entry);
    let base = sim::run_program(&bc, SimCfg::baseline(), &reg, None, |_, _| Ok(()));
    let (want_res, want_procs) = summarize(&base);
    println!("  baseline: {want_res}");
    for cfg in payload["cfgs"].as_array().cloned().unwrap_or_default() {
        let workers = cfg["workers"].as_u64().unwrap_or(1) as usize;
        let q = cfg["quantum"].as_u64().unwrap_or(1000) as usize;
        let schedule = unhex(cfg["schedule"].as_str().unwrap_or(""));
        let run = sim::run_program(&bc, SimCfg { workers, quanta: vec![q], schedule, max_moves: 400_000, env_slow: 0 }, &reg, None, |_, _| Ok(()));
        let (res, procs) = summarize(&run);
        println!("  workers={workers} quantum={q}: end={:?} result={res}", run.end);
        if std::env::var("QV_TRACE").is_ok() {
            for l in &run.trace {
                println!("    {l}");
            }
        }
        if !matches!(run.end, SimEnd::Done | SimEnd::Budget) {
            return Err(format!("workers={workers} quantum={q}: {:?}", run.end));
        }
        if matches!(run.end, SimEnd::Done) && (res != want_res || procs != want_procs) {
            return Err(format!("workers={workers} quantum={q}: result {res} / {procs:?} differs from baseline {want_res} / {want_procs:?}"));
        }
    }
    Ok(())
}
