//! C20 — the num module computes exactly (ℚ and ℚ(√n)) and propagates absence.

use crate::fw::*;
use crate::hval::HVal;
use crate::qrun;
use num_bigint::BigInt;
use num_integer::Integer;
use num_traits::{One, Signed, Zero};
use proptest::prelude::*;
use serde_json::json;
use std::time::Instant;

// ---------------------------------------------------------------------------------------------
// Exact host arithmetic

#[derive(Clone, Debug, PartialEq, Eq, Hash)]
pub struct Q {
    pub n: BigInt,
    pub d: BigInt, // > 0, gcd 1
}

impl Q {
    pub fn new(n: BigInt, d: BigInt) -> Q {
        assert!(!d.is_zero());
        let g = n.gcd(&d);
        let (mut n, mut d) = (n / &g, d / &g);
        if d.is_negative() {
            n = -n;
            d = -d;
        }
        Q { n, d }
    }
    pub fn int(i: BigInt) -> Q {
        Q { n: i, d: BigInt::one() }
    }
    pub fn zero() -> Q {
        Q::int(BigInt::zero())
    }
    pub fn is_zero(&self) -> bool {
        self.n.is_zero()
    }
    pub fn add(&self, o: &Q) -> Q {
        Q::new(&self.n * &o.d + &o.n * &self.d, &self.d * &o.d)
    }
    pub fn sub(&self, o: &Q) -> Q {
        Q::new(&self.n * &o.d - &o.n * &self.d, &self.d * &o.d)
    }
    pub fn mul(&self, o: &Q) -> Q {
        Q::new(&self.n * &o.n, &self.d * &o.d)
    }
    pub fn div(&self, o: &Q) -> Q {
        Q::new(&self.n * &o.d, &self.d * &o.n)
    }
    pub fn neg(&self) -> Q {
        Q { n: -&self.n, d: self.d.clone() }
    }
    pub fn sign(&self) -> i32 {
        if self.n.is_positive() {
            1
        } else if self.n.is_negative() {
            -1
        } else {
            0
        }
    }
    pub fn cmp(&self, o: &Q) -> i32 {
        self.sub(o).sign()
    }
    pub fn floor(&self) -> BigInt {
        self.n.div_floor(&self.d)
    }
}

/// A canonical number value of the module.
#[derive(Clone, Debug, PartialEq, Eq, Hash)]
pub enum Num {
    Int(BigInt),
    /// Canonical rational (possibly with denominator 1: rationals are never silently lowered).
    Rat(Q),
    /// a + b·√n, b ≠ 0, n square-free > 1; coefficients are "lowered" (int when integral).
    Surd(Q, Q, BigInt),
}

#[derive(Clone, Debug, PartialEq, Eq, Hash)]
pub enum V {
    Num(Num),
    Nil,
    Ok,
}

/// Element of ℚ(√n): a + b√n; n = 1 when b = 0.
#[derive(Clone, Debug)]
struct S {
    a: Q,
    b: Q,
    n: BigInt,
}

fn explode(x: &Num) -> S {
    match x {
        Num::Int(i) => S { a: Q::int(i.clone()), b: Q::zero(), n: BigInt::one() },
        Num::Rat(q) => S { a: q.clone(), b: Q::zero(), n: BigInt::one() },
        Num::Surd(a, b, n) => S { a: a.clone(), b: b.clone(), n: n.clone() },
    }
}

fn radical(x: &S, y: &S) -> Option<BigInt> {
    if x.b.is_zero() {
        Some(y.n.clone())
    } else if y.b.is_zero() || x.n == y.n {
        Some(x.n.clone())
    } else {
        None
    }
}

fn lower(q: &Q) -> Num {
    if q.d.is_one() { Num::Int(q.n.clone()) } else { Num::Rat(q.clone()) }
}

/// Collapse to the simplest exact form (the module's `build`).
fn build(a: Q, b: Q, n: BigInt) -> Num {
    if n.is_one() {
        lower(&a.add(&b))
    } else if b.is_zero() {
        lower(&a)
    } else {
        Num::Surd(a, b, n)
    }
}

/// Sign of a + b√n (n square-free > 1 or b = 0).
fn ssign(a: &Q, b: &Q, n: &BigInt) -> i32 {
    let (sa, sb) = (a.sign(), b.sign());
    if sb == 0 {
        return sa;
    }
    if sa == 0 {
        return sb;
    }
    if sa == sb {
        return sa;
    }
    // opposite signs: compare a² with b²n
    let a2 = a.mul(a);
    let b2n = b.mul(b).mul(&Q::int(n.clone()));
    let c = a2.cmp(&b2n);
    if c == 0 {
        0
    } else if c > 0 {
        sa
    } else {
        sb
    }
}

fn is_surd(x: &Num) -> bool {
    matches!(x, Num::Surd(..))
}
fn is_rat(x: &Num) -> bool {
    matches!(x, Num::Rat(..))
}

fn as_q(x: &Num) -> Q {
    match x {
        Num::Int(i) => Q::int(i.clone()),
        Num::Rat(q) => q.clone(),
        Num::Surd(..) => unreachable!(),
    }
}

pub fn compare(x: &V, y: &V) -> Option<i32> {
    let (V::Num(x), V::Num(y)) = (x, y) else { return None };
    let (sx, sy) = (explode(x), explode(y));
    let n = radical(&sx, &sy)?;
    Some(ssign(&sx.a.sub(&sy.a), &sx.b.sub(&sy.b), &n))
}

fn isqrt(n: &BigInt) -> BigInt {
    if n.is_zero() {
        return BigInt::zero();
    }
    let mut x = BigInt::one() << ((n.bits() as u32).div_ceil(2));
    loop {
        let y = (&x + n / &x) >> 1;
        if y >= x {
            return x;
        }
        x = y;
    }
}

/// floor of |a + b√n| … general exact floor of a + b√n via integer square roots.
fn surd_floor(a: &Q, b: &Q, n: &BigInt) -> BigInt {
    // x = (P + Q√n)/D with D > 0; floor(x) = floor((P + floor_or_ceil(Q√n)) / D) is not exact in
    // general, so search: t0 = floor(approx) then adjust using exact sign tests.
    let d = a.d.lcm(&b.d);
    let p = &a.n * (&d / &a.d);
    let q = &b.n * (&d / &b.d);
    // r = floor(|q|√n) = isqrt(q²n)
    let r = isqrt(&(&q * &q * n));
    // q√n ∈ (r, r+1) (irrational) for q>0; ∈ (-(r+1), -r) for q<0
    let lo = if q.is_positive() { &p + &r } else { &p - &r - BigInt::one() };
    // numerator ∈ (lo, lo+1); floor(x) = floor(lo / d) exactly when (lo, lo+1) contains no multiple of d boundary…
    // safe approach: candidate t = floor(lo/d); check t <= x < t+1 with exact sign tests, adjust.
    let mut t = lo.div_floor(&d);
    loop {
        let below = ssign(&a.sub(&Q::int(t.clone())), b, n); // sign(x - t)
        let above = ssign(&a.sub(&Q::int(&t + 1)), b, n); // sign(x - (t+1))
        if below < 0 {
            t -= 1;
        } else if above >= 0 {
            t += 1;
        } else {
            return t;
        }
    }
}

fn floor_of(x: &Num) -> BigInt {
    match x {
        Num::Int(i) => i.clone(),
        Num::Rat(q) => q.floor(),
        Num::Surd(a, b, n) => surd_floor(a, b, n),
    }
}

fn is_integral(x: &Num) -> bool {
    match x {
        Num::Int(_) => true,
        Num::Rat(q) => q.d.is_one(),
        Num::Surd(..) => false,
    }
}

fn sign_of(x: &Num) -> i32 {
    let s = explode(x);
    ssign(&s.a, &s.b, &s.n)
}

/// Largest k with k² | m (m > 0): returns (k, m / k²).
fn sqfree(m: &BigInt) -> (BigInt, BigInt) {
    let mut k = BigInt::one();
    let mut m = m.clone();
    let mut d = BigInt::from(2);
    while &d * &d <= m {
        let dd = &d * &d;
        if (&m % &dd).is_zero() {
            k *= &d;
            m /= dd;
        } else {
            d += 1;
        }
    }
    (k, m)
}

/// Binary operations of the record. `spec_minmax`: judge min/max/clamp by the statement
/// ("mixing incompatible radicals yields nil").
pub fn op2(name: &str, x: &V, y: &V) -> V {
    match name {
        "compare" => match compare(x, y) {
            Some(c) => V::Num(Num::Int(BigInt::from(c))),
            None => V::Nil,
        },
        "eq?" | "lt?" | "le?" | "gt?" | "ge?" => match compare(x, y) {
            None => V::Nil,
            Some(c) => {
                let ok = match name {
                    "eq?" => c == 0,
                    "lt?" => c < 0,
                    "le?" => c <= 0,
                    "gt?" => c > 0,
                    _ => c >= 0,
                };
                if ok { V::Ok } else { V::Nil }
            }
        },
        "min" | "max" => {
            if matches!(x, V::Nil) || matches!(y, V::Nil) || !matches!(x, V::Num(_)) || !matches!(y, V::Num(_)) {
                return V::Nil;
            }
            match compare(x, y) {
                None => V::Nil,
                Some(c) => {
                    if name == "min" {
                        if c > 0 { y.clone() } else { x.clone() }
                    } else if c < 0 {
                        y.clone()
                    } else {
                        x.clone()
                    }
                }
            }
        }
        "add" | "sub" | "mul" | "div" => {
            let (V::Num(x), V::Num(y)) = (x, y) else { return V::Nil };
            if is_surd(x) || is_surd(y) {
                let (sx, sy) = (explode(x), explode(y));
                let Some(n) = radical(&sx, &sy) else { return V::Nil };
                let nq = Q::int(n.clone());
                let r = match name {
                    "add" => build(sx.a.add(&sy.a), sx.b.add(&sy.b), n),
                    "sub" => build(sx.a.sub(&sy.a), sx.b.sub(&sy.b), n),
                    "mul" => build(sx.a.mul(&sy.a).add(&sx.b.mul(&sy.b).mul(&nq)), sx.a.mul(&sy.b).add(&sy.a.mul(&sx.b)), n),
                    _ => {
                        let dd = sy.a.mul(&sy.a).sub(&sy.b.mul(&sy.b).mul(&nq));
                        if dd.is_zero() {
                            return V::Nil;
                        }
                        build(
                            sx.a.mul(&sy.a).sub(&sx.b.mul(&sy.b).mul(&nq)).div(&dd),
                            sx.b.mul(&sy.a).sub(&sx.a.mul(&sy.b)).div(&dd),
                            n,
                        )
                    }
                };
                return V::Num(r);
            }
            if name == "div" {
                let (a, b) = (as_q(x), as_q(y));
                if b.is_zero() {
                    return V::Nil;
                }
                return V::Num(Num::Rat(a.div(&b)));
            }
            if is_rat(x) || is_rat(y) {
                let (a, b) = (as_q(x), as_q(y));
                return V::Num(Num::Rat(match name {
                    "add" => a.add(&b),
                    "sub" => a.sub(&b),
                    _ => a.mul(&b),
                }));
            }
            let (Num::Int(a), Num::Int(b)) = (x, y) else { unreachable!() };
            V::Num(Num::Int(match name {
                "add" => a + b,
                "sub" => a - b,
                _ => a * b,
            }))
        }
        _ => V::Nil,
    }
}

pub fn op1(name: &str, x: &V) -> V {
    let V::Num(x) = x else { return V::Nil };
    match name {
        "neg" => V::Num(match x {
            Num::Int(i) => Num::Int(-i),
            Num::Rat(q) => Num::Rat(q.neg()),
            Num::Surd(a, b, n) => build(a.neg(), b.neg(), n.clone()),
        }),
        "abs" => V::Num(match x {
            Num::Int(i) => Num::Int(i.abs()),
            Num::Rat(q) => Num::Rat(Q { n: q.n.abs(), d: q.d.clone() }),
            Num::Surd(a, b, n) => {
                if ssign(a, b, n) < 0 { build(a.neg(), b.neg(), n.clone()) } else { x.clone() }
            }
        }),
        "sign" => V::Num(Num::Int(BigInt::from(sign_of(x)))),
        "floor" => V::Num(Num::Int(floor_of(x))),
        "ceil" => {
            let f = floor_of(x);
            V::Num(Num::Int(if is_integral(x) { f } else { f + 1 }))
        }
        "to_int" => {
            let f = floor_of(x);
            V::Num(Num::Int(if sign_of(x) < 0 && !is_integral(x) { f + 1 } else { f }))
        }
        "round" => {
            // nearest, halves away from zero
            let f = floor_of(x);
            let xs = explode(x);
            // d = x - f ∈ [0,1); compare with 1/2
            let half = Q::new(BigInt::one(), BigInt::from(2));
            let c = ssign(&xs.a.sub(&Q::int(f.clone())).sub(&half), &xs.b, &xs.n);
            V::Num(Num::Int(if c > 0 {
                f + 1
            } else if c < 0 {
                f
            } else if sign_of(x) < 0 {
                f
            } else {
                f + 1
            }))
        }
        "numer" => match x {
            Num::Int(i) => V::Num(Num::Int(i.clone())),
            Num::Rat(q) => V::Num(Num::Int(q.n.clone())),
            Num::Surd(..) => V::Nil,
        },
        "denom" => match x {
            Num::Int(_) => V::Num(Num::Int(BigInt::one())),
            Num::Rat(q) => V::Num(Num::Int(q.d.clone())),
            Num::Surd(..) => V::Nil,
        },
        "sqrt" => match x {
            Num::Surd(..) => V::Nil,
            _ => {
                let q = as_q(x);
                if q.sign() < 0 {
                    return V::Nil;
                }
                if q.is_zero() {
                    return V::Num(Num::Int(BigInt::zero()));
                }
                // sqrt(p/q) = sqrt(pq)/q = k√m/q
                let (k, m) = sqfree(&(&q.n * &q.d));
                V::Num(build(Q::zero(), Q::new(k, q.d.clone()), m))
            }
        },
        _ => V::Nil,
    }
}

pub fn clamp(x: &V, lo: &V, hi: &V) -> V {
    if !matches!(x, V::Num(_)) || !matches!(lo, V::Num(_)) || !matches!(hi, V::Num(_)) {
        return V::Nil;
    }
    // x must be orderable against both bounds (incompatible radicals yield nil)
    match (compare(x, lo), compare(x, hi)) {
        (Some(c), Some(_)) if c < 0 => lo.clone(),
        (Some(_), Some(c)) if c > 0 => hi.clone(),
        (Some(_), Some(_)) => x.clone(),
        _ => V::Nil,
    }
}

// ---------------------------------------------------------------------------------------------
// Generated expressions

#[derive(Clone, Debug)]
pub enum E {
    Lit(V, u8), // value + literal style
    Op1(&'static str, Box<E>),
    Op2(&'static str, Box<E>, Box<E>),
    Clamp(Box<E>, Box<E>, Box<E>),
}

const OPS1: &[&str] = &["neg", "abs", "sign", "floor", "ceil", "to_int", "round", "numer", "denom", "sqrt"];
const OPS2: &[&str] = &["add", "sub", "mul", "div", "eq?", "lt?", "le?", "gt?", "ge?", "min", "max"];
/// Unary members whose last branch is `='int => <integer-only builtin>`: a nil operand reaches the
/// builtin (recorded finding witness:nil-into-int-dispatch); nil operands are excluded for them.
const NIL_UNSAFE: &[&str] = &["neg", "abs", "sqrt", "to_int", "floor", "ceil", "round", "denom"];

fn big_int() -> impl Strategy<Value = BigInt> {
    prop_oneof![
        6 => (-12i64..=12).prop_map(BigInt::from),
        2 => prop::sample::select(vec![0i64, 1, -1, 2, -2, 7, 100, -100]).prop_map(BigInt::from),
        2 => prop::sample::select(vec![63u32, 64, 100]).prop_flat_map(|k| (Just(k), -2i64..=2, any::<bool>())).prop_map(|(k, d, neg)| {
            let v = (BigInt::one() << k) + d;
            if neg { -v } else { v }
        }),
        1 => Just("10000000000000000000000000000000000000000".parse::<BigInt>().unwrap()),
        1 => any::<i64>().prop_map(BigInt::from),
    ]
}

fn q_strat() -> impl Strategy<Value = Q> {
    (big_int(), prop_oneof![4 => 1i64..=12, 1 => prop::sample::select(vec![1i64 << 40, 97, 1000003])]).prop_map(|(n, d)| Q::new(n, BigInt::from(d)))
}

fn num_strat() -> impl Strategy<Value = Num> {
    let sqfree_n = prop::sample::select(vec![2i64, 3, 5, 6, 7, 10, 2, 2, 5]);
    prop_oneof![
        4 => big_int().prop_map(Num::Int),
        4 => q_strat().prop_map(Num::Rat),
        4 => (q_strat(), q_strat(), sqfree_n).prop_filter_map("b != 0", |(a, b, n)| if b.is_zero() { None } else { Some(Num::Surd(a, b, BigInt::from(n))) }),
    ]
}

fn v_strat() -> impl Strategy<Value = V> {
    prop_oneof![12 => num_strat().prop_map(V::Num), 1 => Just(V::Nil)]
}

pub fn expr() -> impl Strategy<Value = E> {
    let leaf = (v_strat(), any::<u8>()).prop_map(|(v, s)| E::Lit(v, s));
    leaf.prop_recursive(3, 8, 3, |inner| {
        prop_oneof![
            3 => (prop::sample::select(OPS1.to_vec()), inner.clone()).prop_map(|(o, a)| E::Op1(o, Box::new(a))),
            8 => (prop::sample::select(OPS2.to_vec()), inner.clone(), inner.clone()).prop_map(|(o, a, b)| E::Op2(o, Box::new(a), Box::new(b))),
            1 => (inner.clone(), inner.clone(), inner).prop_map(|(a, b, c)| E::Clamp(Box::new(a), Box::new(b), Box::new(c))),
        ]
    })
}

/// Is this value acceptable where a number ('opt) is expected? (Ok is not a number.)
fn numeric(v: &V) -> bool {
    !matches!(v, V::Ok)
}

/// Statically numeric: not a predicate call (whose type is `Ok | []`).
fn numeric_expr(e: &E) -> bool {
    !matches!(e, E::Op2(o, _, _) if o.ends_with('?'))
}

thread_local! {
    pub static EXCLUDED_NIL: std::cell::Cell<u64> = const { std::cell::Cell::new(0) };
}

/// Evaluate in the model. None = the expression is outside the generated domain (a non-number
/// flowing into an operand, or a sqrt argument too large for the module's trial division).
pub fn eval(e: &E) -> Option<V> {
    match e {
        E::Lit(v, _) => Some(v.clone()),
        E::Op1(o, a) => {
            let x = eval(a)?;
            if !numeric(&x) || !numeric_expr(a) {
                return None;
            }
            if NIL_UNSAFE.contains(o) && matches!(x, V::Nil) {
                EXCLUDED_NIL.with(|c| c.set(c.get() + 1));
                return None;
            }
            if *o == "sqrt"
                && let V::Num(n) = &x
                && !is_surd(n)
            {
                let q = as_q(n);
                if (&q.n * &q.d).abs() > BigInt::from(2_000_000) {
                    return None;
                }
            }
            Some(op1(o, &x))
        }
        E::Op2(o, a, b) => {
            let (x, y) = (eval(a)?, eval(b)?);
            if !numeric(&x) || !numeric(&y) || !numeric_expr(a) || !numeric_expr(b) {
                return None;
            }
            Some(op2(o, &x, &y))
        }
        E::Clamp(a, b, c) => {
            let (x, y, z) = (eval(a)?, eval(b)?, eval(c)?);
            if !numeric(&x) || !numeric(&y) || !numeric(&z) || !numeric_expr(a) || !numeric_expr(b) || !numeric_expr(c) {
                return None;
            }
            Some(clamp(&x, &y, &z))
        }
    }
}

fn render_int(i: &BigInt) -> String {
    format!("{i}")
}

fn render_coeff(q: &Q) -> String {
    if q.d.is_one() { render_int(&q.n) } else { format!("Rational[{}, {}]", q.n, q.d) }
}

fn render_lit(v: &V, style: u8) -> String {
    match v {
        V::Nil => "[]".into(),
        V::Ok => "Ok".into(),
        V::Num(Num::Int(i)) => render_int(i),
        V::Num(Num::Rat(q)) => {
            // literal forms go through the parser's reduce_rational: n/d for d != 1
            if style % 3 == 0 && !q.d.is_one() {
                format!("{}/{}", q.n, q.d)
            } else if style % 3 == 1 && !q.d.is_one() {
                // unreduced spelling of the same value
                let k = BigInt::from((style / 3 % 4 + 2) as i64);
                format!("{}/{}", &q.n * &k, &q.d * &k)
            } else {
                format!("Rational[{}, {}]", q.n, q.d)
            }
        }
        V::Num(Num::Surd(a, b, n)) => format!("Surd[{}, {}, {}]", render_coeff(a), render_coeff(b), n),
    }
}

pub fn render(e: &E) -> String {
    match e {
        E::Lit(v, s) => render_lit(v, *s),
        E::Op1(o, a) => format!("{} n.{o}", render_arg(a)),
        E::Op2(o, a, b) => format!("[{}, {}] n.{o}", render(a), render(b)),
        E::Clamp(a, b, c) => format!("[{}, {}, {}] n.clamp", render(a), render(b), render(c)),
    }
}

fn render_arg(e: &E) -> String {
    // a unary operand: a literal or a nested call chain (both are fine as the head of a chain)
    render(e)
}

pub fn to_hval(v: &V) -> HVal {
    fn coeff(q: &Q) -> HVal {
        if q.d.is_one() { HVal::Int(q.n.clone()) } else { HVal::Tuple(Some("Rational".into()), vec![(None, HVal::Int(q.n.clone())), (None, HVal::Int(q.d.clone()))]) }
    }
    match v {
        V::Nil => HVal::nil(),
        V::Ok => HVal::ok(),
        V::Num(Num::Int(i)) => HVal::Int(i.clone()),
        V::Num(Num::Rat(q)) => HVal::Tuple(Some("Rational".into()), vec![(None, HVal::Int(q.n.clone())), (None, HVal::Int(q.d.clone()))]),
        V::Num(Num::Surd(a, b, n)) => HVal::Tuple(Some("Surd".into()), vec![(None, coeff(a)), (None, coeff(b)), (None, HVal::Int(n.clone()))]),
    }
}

fn nontrivial_lit(v: &V) -> bool {
    match v {
        V::Num(Num::Int(i)) => i.bits() > 64,
        V::Num(Num::Rat(q)) => q.n.bits() > 64 || !q.d.is_one(),
        V::Num(Num::Surd(..)) => true,
        _ => false,
    }
}

fn is_nontrivial(e: &E) -> bool {
    match e {
        E::Lit(v, _) => nontrivial_lit(v),
        E::Op1(_, a) => is_nontrivial(a),
        E::Op2(_, a, b) => is_nontrivial(a) || is_nontrivial(b),
        E::Clamp(a, b, c) => is_nontrivial(a) || is_nontrivial(b) || is_nontrivial(c),
    }
}

fn ops_in(e: &E, out: &mut Vec<&'static str>) {
    match e {
        E::Lit(..) => {}
        E::Op1(o, a) => {
            out.push(o);
            ops_in(a, out);
        }
        E::Op2(o, a, b) => {
            out.push(o);
            ops_in(a, out);
            ops_in(b, out);
        }
        E::Clamp(a, b, c) => {
            out.push("clamp");
            ops_in(a, out);
            ops_in(b, out);
            ops_in(c, out);
        }
    }
}

/// Run a batch. Returns per-expression observed values (or an error for the whole batch).
pub fn run_batch(exprs: &[E], reg: &qrun::Registry) -> Result<Vec<HVal>, String> {
    let body: Vec<String> = exprs.iter().map(render).collect();
    let src = format!("n = %num,\n[\n  {}\n]", body.join(",\n  "));
    match catch(|| qrun::eval_source(&src, &qrun::Modules::new(), reg, 1000, 30_000_000)) {
        Err(p) => Err(format!("panic: {p} @ {}", last_panic_loc())),
        Ok(qrun::Outcome::Val(HVal::Tuple(None, fields))) if fields.len() == exprs.len() => Ok(fields.into_iter().map(|(_, v)| v).collect()),
        Ok(qrun::Outcome::Val(v)) if exprs.is_empty() => Ok(vec![]).map(|x: Vec<HVal>| {
            let _ = v;
            x
        }),
        Ok(other) => Err(format!("{other:?}")),
    }
}

pub fn run(ctx: &Ctx) -> i32 {
    let started = Instant::now();
    let stats = Stats::new();
    let known = KnownFindings::load();
    let batches_per_shard: u32 = ctx.tier.pick(600, 20_000);
    const BATCH: usize = 40;

    let violations = run_sharded(ctx.shards, |shard| {
        let reg = qrun::registry();
        let mut out = Vec::new();
        let strat = prop::collection::vec(expr(), BATCH);
        let seed = derive_seed(ctx.seed, ctx.id, shard, 0);
        let res = pt_search(seed, batches_per_shard, &strat, &stats, |batch| {
            // keep only in-domain expressions
            let kept: Vec<(E, V)> = batch.iter().filter_map(|e| eval(e).map(|v| (e.clone(), v))).collect();
            let exprs: Vec<E> = kept.iter().map(|(e, _)| e.clone()).collect();
            stats.class_n("discarded-out-of-domain-expr", (batch.len() - kept.len()) as u64);
            let ex = EXCLUDED_NIL.with(|c| c.replace(0));
            stats.class_n("excluded:nil-into-int-dispatch", ex);
            if exprs.is_empty() {
                return Ok(());
            }
            let got = match run_batch(&exprs, &reg) {
                Ok(g) => g,
                Err(batch_err) => {
                    // find the culprit by running singly
                    for (e, want) in &kept {
                        match run_batch(std::slice::from_ref(e), &reg) {
                            Ok(_) => {}
                            Err(m) => {
                                let kind = if m.contains("Diverged") { "diverged" } else if m.starts_with("panic") { "panic" } else if m.contains("Front(") { "rejected" } else { "runtime-error" };
                                if kind == "diverged" {
                                    stats.inconclusive();
                                    continue;
                                }
                                let mut ops = vec![];
                                ops_in(e, &mut ops);
                                let sig = format!("{kind}:{}", ops.first().copied().unwrap_or("lit"));
                                if !ctx.strict && known.is_known(ctx.id, &sig).is_some() {
                                    stats.known_hit(&sig);
                                    continue;
                                }
                                return Err(format!("{sig}\u{1}`{}` should be {} but: {}\u{1}{}\u{1}{}", render(e), to_hval(want), truncate(&m, 400), render(e), to_hval(want)));
                            }
                        }
                    }
                    let _ = batch_err;
                    return Ok(());
                }
            };
            for ((e, want), g) in kept.iter().zip(got.iter()) {
                stats.eval();
                let w = to_hval(want);
                let mut ops = vec![];
                ops_in(e, &mut ops);
                for o in &ops {
                    stats.class(&format!("op:{o}"));
                }
                match want {
                    V::Nil => stats.class("result:nil"),
                    V::Ok => stats.class("result:ok"),
                    V::Num(Num::Int(_)) => stats.class("result:int"),
                    V::Num(Num::Rat(_)) => stats.class("result:rational"),
                    V::Num(Num::Surd(..)) => stats.class("result:surd"),
                }
                if *g != w {
                    let sig = format!("wrong:{}", ops.first().copied().unwrap_or("lit"));
                    if !ctx.strict && known.is_known(ctx.id, &sig).is_some() {
                        stats.known_hit(&sig);
                        continue;
                    }
                    return Err(format!("{sig}\u{1}`{}` evaluates to {g}, exact arithmetic gives {w}\u{1}{}\u{1}{w}", render(e), render(e)));
                }
                if is_nontrivial(e) && !ops.is_empty() {
                    stats.nontrivial(&render(e));
                    stats.sample(|| json!({"expr": render(e), "value": format!("{w}")}));
                }
            }
            Ok(())
        });
        if let Search::Failed { minimal, message } = res {
            // the minimal batch: report the first failing expression only
            let parts: Vec<&str> = message.split('\u{1}').collect();
            let _ = minimal;
            let (sig, msg, failing, expect) = (parts[0].to_string(), parts.get(1).unwrap_or(&"").to_string(), parts.get(2).unwrap_or(&"").to_string(), parts.get(3).unwrap_or(&"").to_string());
            out.push(Violation { signature: sig, summary: msg, replay: json!({"kind": "c20", "expr": failing, "expect": expect}) });
        }
        out
    });

    let mut violations = violations;
    {
        let reg = qrun::registry();
        for e in known.known_for(ctx.id) {
            if e.signature == "witness:nil-into-int-dispatch" {
                let out = qrun::eval_source("n = %num, [1, 0] n.div n.neg", &qrun::Modules::new(), &reg, 1000, 10_000_000);
                match out {
                    qrun::Outcome::Err(_) => stats.known_hit(&e.signature),
                    qrun::Outcome::Val(v) if v.is_nil() => println!("NOTE: known finding {} no longer reproduces", e.signature),
                    other => violations.push(Violation { signature: "witness-unexpected".into(), summary: format!("[1, 0] n.div n.neg => {other:?}"), replay: json!({"kind": "c20", "expr": "[1, 0] n.div n.neg", "expect": "[]"}) }),
                }
            }
        }
    }
    finish(Report {
        ctx,
        stats: &stats,
        violations,
        rule: "expression trees (depth <= 3) over add, sub, mul, div, neg, abs, compare, eq?/lt?/le?/gt?/ge?, min, max, clamp, sign, floor, ceil, round, to_int, numer, denom, sqrt; operands: integers (small, ±2^63, ±2^64, 2^100, 10^40), canonical rationals written as n/d, unreduced k·n/k·d and Rational[n, d], canonical surds with square-free radicals {2,3,5,6,7,10}, nil; 40 expressions per compiled program; non-trivial = an operand beyond 64 bits, a non-integral rational or a surd; distinct by expression text".into(),
        assumptions: vec![
            "reference = host exact arithmetic on reduced BigInt pairs and (a, b, n) triples, with the module's documented kind rules (int stays int under add/sub/mul, rational fast paths never lower, surd results collapse)".into(),
            "sqrt arguments are limited to |p*q| <= 2*10^6 (the module uses trial division); Ok (a predicate's result) is never fed into a numeric operand".into(),
            "field and order laws are covered through composed expressions judged against exact arithmetic rather than as separate equations".into(),
        ],
        required_classes: vec!["result:nil", "result:int", "result:rational", "result:surd", "result:ok", "op:div", "op:sqrt", "op:round", "op:clamp", "op:min"],
        started,
        technique: "proptest expression generator; oracle = exact host arithmetic in Q and Q(sqrt n) compared in canonical form",
    })
}

pub fn replay(payload: &serde_json::Value) -> Result<(), String> {
    let src_expr = payload["expr"].as_str().ok_or("missing expr")?;
    let reg = qrun::registry();
    let src = format!("n = %num,\n{src_expr}");
    let out = qrun::eval_source(&src, &qrun::Modules::new(), &reg, 1000, 30_000_000);
    println!("  `{src_expr}` => {out:?}");
    let exp = payload.get("expect").and_then(|e| e.as_str()).unwrap_or("?");
    let got = format!("{out:?}");
    if got == format!("Val({exp})") { Ok(()) } else { Err(format!("got {got}, exact arithmetic gives {exp}")) }
}
