//! C19 — the dict module behaves as a finite map (persistent, collision-safe).

use crate::fw::*;
use crate::hval::HVal;
use crate::qrun;
use num_bigint::BigInt;
use proptest::prelude::*;
use serde_json::json;
use std::collections::BTreeMap;
use std::sync::Arc;
use std::time::Instant;

fn fnv32(b: &[u8]) -> u32 {
    b.iter().fold(2166136261u32, |h, x| (h ^ (*x as u32)).wrapping_mul(16777619))
}

/// A key: bytes + whether it is written as a string (Str[bytes]) or a raw binary.
#[derive(Clone, Debug, PartialEq, Eq, Hash, PartialOrd, Ord)]
pub struct Key {
    pub bytes: Vec<u8>,
    pub is_str: bool,
}

impl Key {
    fn render(&self) -> String {
        if self.is_str { format!("Str[0x{}]", hex(&self.bytes)) } else { format!("0x{}", hex(&self.bytes)) }
    }
    fn hval(&self) -> HVal {
        if self.is_str { HVal::Tuple(Some("Str".into()), vec![(None, HVal::Bin(self.bytes.clone()))]) } else { HVal::Bin(self.bytes.clone()) }
    }
}

/// Adversarial key pools, computed by brute force.
pub struct Pools {
    /// groups of keys (bytes) whose hashes agree on the low `bits` bits
    pub low: Vec<(u32, Vec<Vec<u8>>)>,
    /// groups with identical full 32-bit hash (pairs, a few triples)
    pub full: Vec<Vec<Vec<u8>>>,
    pub plain: Vec<Vec<u8>>,
}

pub fn build_pools() -> Pools {
    // full collisions: birthday search over 3-byte + 4-byte counters
    // keys are 5 mixed bytes of a counter (plain big-endian counters have too much structure for
    // FNV-1a to collide)
    fn key_of(i: u32) -> [u8; 5] {
        let mut z = (i as u64).wrapping_add(0x9E3779B97F4A7C15);
        z = (z ^ (z >> 30)).wrapping_mul(0xBF58476D1CE4E5B9);
        z = (z ^ (z >> 27)).wrapping_mul(0x94D049BB133111EB);
        z ^= z >> 31;
        let b = z.to_be_bytes();
        [b[0], b[1], b[2], b[3], b[4]]
    }
    let n: u32 = 1 << 23;
    let mut v: Vec<(u32, u32)> = Vec::with_capacity(n as usize);
    for i in 0..n {
        v.push((fnv32(&key_of(i)), i));
    }
    v.sort_unstable();
    let mut full: Vec<Vec<Vec<u8>>> = Vec::new();
    let mut i = 0;
    while i < v.len() {
        let mut j = i + 1;
        while j < v.len() && v[j].0 == v[i].0 {
            j += 1;
        }
        if j - i >= 2 {
            full.push(v[i..j].iter().map(|(_, k)| key_of(*k).to_vec()).collect());
        }
        i = j;
    }
    full.sort_by_key(|g| std::cmp::Reverse(g.len()));
    full.truncate(64);
    // the pair used by the repository's own tests
    full.push(vec![unhex("0a59538016"), unhex("fd3eb827ca")]);
    // low-bit collisions among short keys
    let mut low = Vec::new();
    for bits in [5u32, 10, 15, 20, 25] {
        let mask = if bits == 32 { u32::MAX } else { (1u32 << bits) - 1 };
        let mut groups: BTreeMap<u32, Vec<Vec<u8>>> = BTreeMap::new();
        let limit: u32 = if bits <= 15 { 1 << 14 } else { 1 << 21 };
        for i in 0..limit {
            let k: Vec<u8> = if i < 256 { vec![i as u8] } else if i < 65536 { vec![(i >> 8) as u8, i as u8] } else { vec![(i >> 16) as u8, (i >> 8) as u8, i as u8] };
            let g = groups.entry(fnv32(&k) & mask).or_default();
            if g.len() < 6 {
                g.push(k);
            }
        }
        let mut gs: Vec<Vec<Vec<u8>>> = groups.into_values().filter(|g| g.len() >= 3).collect();
        gs.truncate(12);
        for g in gs {
            low.push((bits, g));
        }
    }
    let plain: Vec<Vec<u8>> = vec![b"a".to_vec(), b"b".to_vec(), b"alpha".to_vec(), b"bravo".to_vec(), vec![], vec![0], vec![0, 0], b"A".to_vec(), vec![0x41], b"key".to_vec()];
    Pools { low, full, plain }
}

#[derive(Clone, Debug)]
pub enum Op {
    Put { on: u16, key: u16, val: u8 },
    Remove { on: u16, key: u16 },
    Get { on: u16, key: u16 },
    Has { on: u16, key: u16 },
    Count { on: u16 },
    Entries { on: u16 },
    Keys { on: u16 },
    Values { on: u16 },
    Merge { a: u16, b: u16 },
    From { keys: Vec<(u16, u8)> },
}

#[derive(Clone, Debug)]
pub struct History {
    /// which pool groups this history draws its keys from
    pub groups: Vec<u16>,
    pub str_mask: u16,
    pub ops: Vec<Op>,
}

pub fn strategy() -> impl Strategy<Value = History> {
    let op = prop_oneof![
        8 => (any::<u16>(), any::<u16>(), 1u8..9).prop_map(|(on, key, val)| Op::Put { on, key, val }),
        5 => (any::<u16>(), any::<u16>()).prop_map(|(on, key)| Op::Remove { on, key }),
        4 => (any::<u16>(), any::<u16>()).prop_map(|(on, key)| Op::Get { on, key }),
        2 => (any::<u16>(), any::<u16>()).prop_map(|(on, key)| Op::Has { on, key }),
        2 => any::<u16>().prop_map(|on| Op::Count { on }),
        1 => any::<u16>().prop_map(|on| Op::Entries { on }),
        1 => any::<u16>().prop_map(|on| Op::Keys { on }),
        1 => any::<u16>().prop_map(|on| Op::Values { on }),
        1 => (any::<u16>(), any::<u16>()).prop_map(|(a, b)| Op::Merge { a, b }),
        1 => prop::collection::vec((any::<u16>(), 1u8..9), 0..5).prop_map(|keys| Op::From { keys }),
    ];
    (prop::collection::vec(any::<u16>(), 1..4), any::<u16>(), prop::collection::vec(op, 5..40)).prop_map(|(groups, str_mask, ops)| History { groups, str_mask, ops })
}

fn idx(i: u16, len: usize) -> usize {
    if len == 0 { 0 } else { ((i as usize) * len) >> 16 }
}

/// Resolve the key universe of a history: a handful of keys drawn from the chosen groups.
pub fn universe(h: &History, pools: &Pools) -> (Vec<Key>, bool, bool) {
    let mut keys: Vec<Key> = Vec::new();
    let total = pools.full.len() + pools.low.len() + 1;
    let (mut has_full, mut has_low) = (false, false);
    for (gi, g) in h.groups.iter().enumerate() {
        let which = idx(*g, total);
        let group: Vec<Vec<u8>> = if which < pools.full.len() {
            has_full = true;
            pools.full[which].clone()
        } else if which < pools.full.len() + pools.low.len() {
            has_low = true;
            pools.low[which - pools.full.len()].1.clone()
        } else {
            pools.plain.clone()
        };
        for (ki, k) in group.into_iter().enumerate() {
            let bit = (gi * 5 + ki) % 16;
            let is_str = (h.str_mask >> bit) & 1 == 1;
            keys.push(Key { bytes: k.clone(), is_str });
            // occasionally also the other spelling of the same bytes (distinct key, same hash)
            if (h.str_mask >> ((bit + 7) % 16)) & 1 == 1 && ki < 2 {
                keys.push(Key { bytes: k, is_str: !is_str });
            }
        }
    }
    keys.sort();
    keys.dedup();
    (keys, has_full, has_low)
}

type Map = BTreeMap<Key, u8>;

#[derive(Clone, Debug)]
pub enum Expect {
    Val(Option<u8>),
    Flag(bool),
    Count(usize),
    Entries(Vec<(Key, u8)>),
    Keys(Vec<Key>),
    Values(Vec<u8>),
}

pub struct Plan {
    pub source: String,
    pub expects: Vec<Expect>,
    pub facts: Facts,
}

#[derive(Default, Clone, Debug)]
pub struct Facts {
    pub full_collision_in_one_version: bool,
    pub removes_effective: usize,
    pub reread_old_after_remove: bool,
    pub versions: usize,
    pub overwrite_in_bucket: bool,
}

pub fn plan(h: &History, pools: &Pools) -> Plan {
    let (keys, _, _) = universe(h, pools);
    let mut versions: Vec<Map> = vec![Map::new()];
    let mut lines: Vec<String> = vec!["d = %dict".into(), "v0 = d.new".into()];
    let mut obs_vars: Vec<String> = Vec::new();
    let mut expects: Vec<Expect> = Vec::new();
    let mut facts = Facts::default();
    let mut removed_at: Option<usize> = None;
    let key_of = |k: u16| keys[idx(k, keys.len())].clone();
    let mut n_obs = 0;
    let mut observe = |lines: &mut Vec<String>, expr: String, e: Expect, obs_vars: &mut Vec<String>, expects: &mut Vec<Expect>| {
        let name = format!("o{n_obs}");
        n_obs += 1;
        lines.push(format!("{name} = {expr}"));
        obs_vars.push(name);
        expects.push(e);
    };
    let same_hash_present = |m: &Map, k: &Key| m.keys().any(|o| o != k && fnv32(&o.bytes) == fnv32(&k.bytes));
    for op in &h.ops {
        let nv = versions.len();
        match op {
            Op::Put { on, key, val } => {
                let (v, k) = (idx(*on, nv), key_of(*key));
                let mut m = versions[v].clone();
                if m.contains_key(&k) && same_hash_present(&m, &k) {
                    facts.overwrite_in_bucket = true;
                }
                m.insert(k.clone(), *val);
                if m.keys().any(|a| m.keys().any(|b| a != b && fnv32(&a.bytes) == fnv32(&b.bytes))) {
                    facts.full_collision_in_one_version = true;
                }
                lines.push(format!("v{nv} = [v{v}, {}, {val}] d.put", k.render()));
                versions.push(m);
            }
            Op::Remove { on, key } => {
                let (v, k) = (idx(*on, nv), key_of(*key));
                let mut m = versions[v].clone();
                if m.remove(&k).is_some() {
                    facts.removes_effective += 1;
                    removed_at.get_or_insert(nv);
                }
                lines.push(format!("v{nv} = [v{v}, {}] d.remove", k.render()));
                versions.push(m);
            }
            Op::Merge { a, b } => {
                let (a, b) = (idx(*a, nv), idx(*b, nv));
                let mut m = versions[a].clone();
                for (k, v) in &versions[b] {
                    m.insert(k.clone(), *v);
                }
                lines.push(format!("v{nv} = [v{a}, v{b}] d.merge"));
                versions.push(m);
            }
            Op::From { keys: ks } => {
                let mut m = Map::new();
                let mut list = "Nil".to_string();
                let pairs: Vec<(Key, u8)> = ks.iter().map(|(k, v)| (key_of(*k), *v)).collect();
                for (k, v) in &pairs {
                    m.insert(k.clone(), *v);
                }
                for (k, v) in pairs.iter().rev() {
                    list = format!("Cons[[{}, {v}], {list}]", k.render());
                }
                if pairs.is_empty() {
                    // an empty literal list has no element type to infer; use put-free construction
                    lines.push(format!("v{nv} = d.new"));
                } else {
                    lines.push(format!("v{nv} = {list} d.from"));
                }
                versions.push(m);
            }
            Op::Get { on, key } => {
                let (v, k) = (idx(*on, nv), key_of(*key));
                if removed_at.is_some_and(|r| v < r) {
                    facts.reread_old_after_remove = true;
                }
                observe(&mut lines, format!("[v{v}, {}] d.get", k.render()), Expect::Val(versions[v].get(&k).copied()), &mut obs_vars, &mut expects);
            }
            Op::Has { on, key } => {
                let (v, k) = (idx(*on, nv), key_of(*key));
                observe(&mut lines, format!("[v{v}, {}] d.has?", k.render()), Expect::Flag(versions[v].contains_key(&k)), &mut obs_vars, &mut expects);
            }
            Op::Count { on } => {
                let v = idx(*on, nv);
                observe(&mut lines, format!("v{v} d.count"), Expect::Count(versions[v].len()), &mut obs_vars, &mut expects);
            }
            Op::Entries { on } => {
                let v = idx(*on, nv);
                observe(&mut lines, format!("v{v} d.entries"), Expect::Entries(versions[v].iter().map(|(k, v)| (k.clone(), *v)).collect()), &mut obs_vars, &mut expects);
            }
            Op::Keys { on } => {
                let v = idx(*on, nv);
                observe(&mut lines, format!("v{v} d.keys"), Expect::Keys(versions[v].keys().cloned().collect()), &mut obs_vars, &mut expects);
            }
            Op::Values { on } => {
                let v = idx(*on, nv);
                let mut vals: Vec<u8> = versions[v].values().copied().collect();
                vals.sort();
                observe(&mut lines, format!("v{v} d.values"), Expect::Values(vals), &mut obs_vars, &mut expects);
            }
        }
    }
    // persistence: re-read every version in full at the end
    for (v, m) in versions.iter().enumerate() {
        observe(&mut lines, format!("v{v} d.entries"), Expect::Entries(m.iter().map(|(k, v)| (k.clone(), *v)).collect()), &mut obs_vars, &mut expects);
        observe(&mut lines, format!("v{v} d.count"), Expect::Count(m.len()), &mut obs_vars, &mut expects);
        for k in &keys {
            if m.contains_key(k) || (v % 3 == 0) {
                observe(&mut lines, format!("[v{v}, {}] d.get", k.render()), Expect::Val(m.get(k).copied()), &mut obs_vars, &mut expects);
            }
        }
    }
    if removed_at.is_some() && versions.len() > 2 {
        facts.reread_old_after_remove = true;
    }
    facts.versions = versions.len();
    lines.push(format!("[{}]", obs_vars.join(", ")));
    Plan { source: lines.join(",\n"), expects, facts }
}

fn list_items(v: &HVal) -> Option<Vec<HVal>> {
    let mut out = Vec::new();
    let mut cur = v;
    loop {
        match cur {
            HVal::Tuple(Some(n), f) if n == "Nil" && f.is_empty() => return Some(out),
            HVal::Tuple(Some(n), f) if n == "Cons" && f.len() == 2 => {
                out.push(f[0].1.clone());
                cur = &f[1].1;
            }
            _ => return None,
        }
    }
}

fn matches_expect(e: &Expect, got: &HVal) -> Result<(), String> {
    let int = |i: u64| HVal::Int(BigInt::from(i));
    match e {
        Expect::Val(None) => {
            if got.is_nil() { Ok(()) } else { Err(format!("expected [] got {got}")) }
        }
        Expect::Val(Some(v)) => {
            if *got == int(*v as u64) { Ok(()) } else { Err(format!("expected {v} got {got}")) }
        }
        Expect::Flag(b) => {
            let ok = if *b { *got == HVal::ok() } else { got.is_nil() };
            if ok { Ok(()) } else { Err(format!("expected {} got {got}", if *b { "Ok" } else { "[]" })) }
        }
        Expect::Count(n) => {
            if *got == int(*n as u64) { Ok(()) } else { Err(format!("expected count {n} got {got}")) }
        }
        Expect::Entries(es) => {
            let items = list_items(got).ok_or_else(|| format!("entries is not a list: {got}"))?;
            let mut g: Vec<HVal> = items;
            g.sort();
            let mut w: Vec<HVal> = es.iter().map(|(k, v)| HVal::Tuple(None, vec![(None, k.hval()), (None, int(*v as u64))])).collect();
            w.sort();
            if g == w { Ok(()) } else { Err(format!("entries differ: expected {} entries {:?}, got {:?}", w.len(), w.iter().map(|x| x.to_string()).collect::<Vec<_>>(), g.iter().map(|x| x.to_string()).collect::<Vec<_>>())) }
        }
        Expect::Keys(ks) => {
            let mut g = list_items(got).ok_or_else(|| format!("keys is not a list: {got}"))?;
            g.sort();
            let mut w: Vec<HVal> = ks.iter().map(|k| k.hval()).collect();
            w.sort();
            if g == w { Ok(()) } else { Err(format!("keys differ: expected {:?} got {:?}", w.iter().map(|x| x.to_string()).collect::<Vec<_>>(), g.iter().map(|x| x.to_string()).collect::<Vec<_>>())) }
        }
        Expect::Values(vs) => {
            let mut g = list_items(got).ok_or_else(|| format!("values is not a list: {got}"))?;
            g.sort();
            let mut w: Vec<HVal> = vs.iter().map(|v| int(*v as u64)).collect();
            w.sort();
            if g == w { Ok(()) } else { Err(format!("values differ: expected {vs:?} got {:?}", g.iter().map(|x| x.to_string()).collect::<Vec<_>>())) }
        }
    }
}

fn sorted_strings(items: Vec<HVal>) -> String {
    let mut v: Vec<String> = items.iter().map(|x| x.to_string()).collect();
    v.sort();
    v.join("; ")
}

/// Canonical (kind, text) of an expectation, for serialising into replay files.
pub fn canon_expect(e: &Expect) -> (String, String) {
    let int = |i: u64| HVal::Int(BigInt::from(i));
    match e {
        Expect::Val(None) | Expect::Flag(false) => ("scalar".into(), "[]".into()),
        Expect::Val(Some(v)) => ("scalar".into(), format!("{v}")),
        Expect::Flag(true) => ("scalar".into(), "Ok".into()),
        Expect::Count(n) => ("scalar".into(), format!("{n}")),
        Expect::Entries(es) => ("list".into(), sorted_strings(es.iter().map(|(k, v)| HVal::Tuple(None, vec![(None, k.hval()), (None, int(*v as u64))])).collect())),
        Expect::Keys(ks) => ("list".into(), sorted_strings(ks.iter().map(|k| k.hval()).collect())),
        Expect::Values(vs) => ("list".into(), sorted_strings(vs.iter().map(|v| int(*v as u64)).collect())),
    }
}

pub fn canon_got(kind: &str, got: &HVal) -> String {
    if kind == "list" {
        match list_items(got) {
            Some(items) => sorted_strings(items),
            None => format!("<not a list: {got}>"),
        }
    } else {
        got.to_string()
    }
}

pub fn check_source(source: &str, expects: &[Expect], reg: &qrun::Registry) -> Result<(), (String, String)> {
    match catch(|| qrun::eval_source(source, &qrun::Modules::new(), reg, 1000, 200_000_000)) {
        Err(p) => Err(("panic".into(), format!("panic: {p} @ {}", last_panic_loc()))),
        Ok(qrun::Outcome::Val(HVal::Tuple(None, fields))) if fields.len() == expects.len() => {
            for (i, ((_, g), e)) in fields.iter().zip(expects.iter()).enumerate() {
                if let Err(m) = matches_expect(e, g) {
                    let kind = match e {
                        Expect::Val(_) => "get",
                        Expect::Flag(_) => "has",
                        Expect::Count(_) => "count",
                        Expect::Entries(_) => "entries",
                        Expect::Keys(_) => "keys",
                        Expect::Values(_) => "values",
                    };
                    return Err((format!("wrong-{kind}"), format!("observation o{i}: {m}")));
                }
            }
            Ok(())
        }
        Ok(qrun::Outcome::Diverged) => Err(("inconclusive".into(), "step budget exhausted".into())),
        Ok(other) => Err(("bad-outcome".into(), format!("program did not produce the observation tuple: {}", truncate(&format!("{other:?}"), 600)))),
    }
}

pub fn run(ctx: &Ctx) -> i32 {
    let started = Instant::now();
    let stats = Stats::new();
    let pools = Arc::new(build_pools());
    stats.note("pools", json!({"full_collision_groups": pools.full.len(), "triples_or_more": pools.full.iter().filter(|g| g.len() >= 3).count(), "low_bit_groups": pools.low.len()}));
    let known = KnownFindings::load();
    let cases_per_shard: u32 = ctx.tier.pick(150, 6_000);

    let violations = run_sharded(ctx.shards, |shard| {
        let reg = qrun::registry();
        let mut out = Vec::new();
        let strat = strategy();
        let seed = derive_seed(ctx.seed, ctx.id, shard, 0);
        let res = pt_search(seed, cases_per_shard, &strat, &stats, |h| {
            let p = plan(h, &pools);
            stats.eval();
            match check_source(&p.source, &p.expects, &reg) {
                Ok(()) => {
                    let f = &p.facts;
                    if f.full_collision_in_one_version {
                        stats.class("collision-bucket-populated");
                    }
                    if f.overwrite_in_bucket {
                        stats.class("overwrite-inside-collision-bucket");
                    }
                    if f.removes_effective > 0 {
                        stats.class("effective-remove");
                    }
                    if f.reread_old_after_remove {
                        stats.class("old-version-reread-after-remove");
                    }
                    let (_, has_full, has_low) = universe(h, &pools);
                    if has_low {
                        stats.class("low-bit-collision-keys");
                    }
                    if has_full {
                        stats.class("full-collision-keys");
                    }
                    stats.class_n("observations", p.expects.len() as u64);
                    if (f.full_collision_in_one_version || has_low) && f.removes_effective > 0 && f.reread_old_after_remove {
                        stats.nontrivial(&p.source);
                        stats.sample(|| json!({"program": truncate(&p.source, 700), "versions": f.versions, "observations": p.expects.len()}));
                    }
                    Ok(())
                }
                Err((sig, _)) if sig == "inconclusive" => {
                    stats.inconclusive();
                    Ok(())
                }
                Err((sig, msg)) => {
                    if !ctx.strict && known.is_known(ctx.id, &sig).is_some() {
                        stats.known_hit(&sig);
                        return Ok(());
                    }
                    Err(format!("{sig}\u{1}{msg}"))
                }
            }
        });
        if let Search::Failed { minimal, message } = res {
            let p = plan(&minimal, &pools);
            let (sig, msg) = message.split_once('\u{1}').map(|(a, b)| (a.to_string(), b.to_string())).unwrap_or((message.clone(), message));
            out.push(Violation {
                signature: sig,
                summary: format!("{msg}\n--- program ---\n{}", truncate(&p.source, 3000)),
                replay: json!({"kind": "c19", "history": format!("{minimal:?}"), "source": p.source,
                    "expects": p.expects.iter().map(|e| { let (k, t) = canon_expect(e); json!([k, t]) }).collect::<Vec<_>>()}),
            });
        }
        out
    });

    finish(Report {
        ctx,
        stats: &stats,
        violations,
        rule: "histories of 5-40 operations (put/remove/get/has?/count/entries/keys/values/merge/from) over versioned dictionaries (every result is a new version; later operations pick any earlier version), keys drawn from brute-forced pools: full 32-bit FNV-1a collisions (pairs and triples), groups agreeing on the low 5/10/15/20/25 hash bits, and Str vs raw-binary spellings of the same bytes; every version is re-read in full (entries, count, gets) at the end; non-trivial = colliding keys present, at least one effective remove, and an older version re-read after a later remove; distinct by program text".into(),
        assumptions: vec![
            "reference = host BTreeMap per version; entry/key/value order is unspecified and compared as multisets".into(),
            "values are small positive integers (a dict cannot usefully store nil, per the module's own documentation)".into(),
            "each history is one compiled program run in a single process (the module is pure), not a REPL session".into(),
        ],
        required_classes: vec!["collision-bucket-populated", "effective-remove", "old-version-reread-after-remove", "low-bit-collision-keys", "full-collision-keys", "overwrite-inside-collision-bucket"],
        started,
        technique: "proptest operation histories (model-based, versioned); oracle = host map per version",
    })
}

pub fn replay(payload: &serde_json::Value) -> Result<(), String> {
    let source = payload["source"].as_str().ok_or("missing source")?;
    let expects = payload["expects"].as_array().ok_or("missing expects")?;
    let reg = qrun::registry();
    match qrun::eval_source(source, &qrun::Modules::new(), &reg, 1000, 200_000_000) {
        qrun::Outcome::Val(HVal::Tuple(None, fields)) if fields.len() == expects.len() => {
            for (i, ((_, g), e)) in fields.iter().zip(expects.iter()).enumerate() {
                let (kind, want) = (e[0].as_str().unwrap_or(""), e[1].as_str().unwrap_or(""));
                let got = canon_got(kind, g);
                if got != want {
                    return Err(format!("observation o{i}: expected {want}, got {got}"));
                }
            }
            Ok(())
        }
        other => Err(format!("program did not produce the observation tuple: {}", truncate(&format!("{other:?}"), 600))),
    }
}
