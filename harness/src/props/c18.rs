//! C18 — the front end is total: any text yields a program or a located error.

use crate::corpus;
use crate::fw::*;
use crate::qrun;
use proptest::prelude::*;
use serde_json::json;
use std::sync::Arc;
use std::time::Instant;

pub const TOKENS: &[&str] = &[
    "[", "]", "{", "}", "(", ")", ",", "|", "=>", "=", " = ", "~>", "~", "$", "#", "@", "!", "^", "&", "%",
    ".", "...", "*", "_", "'", "'int", "'bin", "'ref", "'t", "<", ">", "->", ":", "\"", "\"\"\"", "\\", "\\{",
    "//", "\n", " ", "  ", "\t", "0x", "0x0a", "0xZZ", "1", "0", "42", "-7", "1.5", "1/3", "1/0", "x", "y", "foo",
    "is_ok?", "go!", "Point", "Ok", "Nil", "Cons", "__integer_add__", "__nope__", "__", "%num", "%num.add", "%ref",
    "$0", "$x", ".0", ".x", "99999999999999999999999", ".99999999999999999999999", "^1", "^99999999999999999999999",
    "@1", "@99999999999999999999999", "é", "→", "𝛑", "\u{0}", "\r", "\r\n", "=x", "='int", "=(", "&.", "! [", "!x",
    "\\n", "\\s", "\\\"\"\"", "{ | ", " | ", "'a = ", "x = ", "#'int { ", "#<'t>'t { ", "-> ", "~[..., ", "\\File",
    "&x", "^~", "@~", "~.x", "*", "A*", "(x: ", "(x, y)", "'%list<'int>", "'<'t>", "'%m.t", "& ", "ü̈", "\u{feff}",
    "\u{2028}", "18446744073709551616", "-0", "00", "0x0", "=\"a{b}\"", "\"a{", "}\"", "\"{~}\"",
];

/// (prefix, open, close, suffix) templates for nesting stress.
pub const NESTS: &[(&str, &str, &str, &str)] = &[
    ("", "[", "]", ""),
    ("", "{", "}", ""),
    ("", "#{", "}", ""),
    ("x =", "(", ")", ""),
    ("'t = ", "(", ")", ""),
    ("", "A[", "]", ""),
    ("", "\"{", "}\"", ""),
    ("", "{ 1 => ", "}", ""),
    ("", "@{", "}", ""),
    ("", "[x: ", "]", ""),
    ("x =", "A[", "]", ""),
    ("", "(", ")", ""),
    ("'t = ", "A[", "]", ""),
    ("'t = #", "(", ")", " -> 'int"),
    ("'t = ", "@", "", ""),
    ("", "#['int, ", "]", " { 1 }"),
    ("x =", "(y: ", ")", ""),
    ("! ", "[", "]", ""),
    ("", "!(", ")", ""),
    ("1 ", "[~, ", "]", ""),
    ("", "{ | ", "}", ""),
    ("", "[{", "}]", ""),
    ("'t = ", "(x: ", ")", ""),
    ("", "#(", ")", " { 1 }"),
];

#[derive(Clone, Debug)]
pub enum Gen {
    Tokens(Vec<u16>),
    Bytes(Vec<u8>),
    Mutant { base: u16, op: u8, pos: u16, arg: u16 },
    Nest { tmpl: u8, depth: u8, inner: u16, pre: u16, post: u16 },
    Wide { base: u16, pos: u16, ch: u8 },
    /// a near-valid type definition from a small grammar (back references `^`, `^1`… at every
    /// depth, including one too deep), followed by a use that makes the compiler compare it
    TypeUse(Vec<u8>),
}

pub fn strategy() -> impl Strategy<Value = Gen> {
    prop_oneof![
        3 => prop::collection::vec(any::<u16>(), 0..40).prop_map(Gen::Tokens),
        1 => prop::collection::vec(any::<u8>(), 0..200).prop_map(Gen::Bytes),
        5 => (any::<u16>(), 0u8..5, any::<u16>(), any::<u16>())
            .prop_map(|(base, op, pos, arg)| Gen::Mutant { base, op, pos, arg }),
        1 => (any::<u8>(), 1u8..=100, any::<u16>(), any::<u16>(), any::<u16>())
            .prop_map(|(tmpl, depth, inner, pre, post)| Gen::Nest { tmpl, depth, inner, pre, post }),
        1 => (any::<u16>(), any::<u16>(), any::<u8>()).prop_map(|(base, pos, ch)| Gen::Wide { base, pos, ch }),
        1 => prop::collection::vec(any::<u8>(), 24).prop_map(Gen::TypeUse),
    ]
}

fn idx(i: u16, len: usize) -> usize {
    if len == 0 { 0 } else { ((i as usize) * len) >> 16 }
}

/// Split source into coarse tokens: identifier/number runs, whitespace runs, single chars.
pub fn tokenize(s: &str) -> Vec<&str> {
    let mut out = Vec::new();
    let mut it = s.char_indices().peekable();
    while let Some((start, c)) = it.next() {
        let class = |c: char| {
            if c.is_alphanumeric() || c == '_' {
                1
            } else if c.is_whitespace() {
                2
            } else {
                0
            }
        };
        let k = class(c);
        let mut end = start + c.len_utf8();
        if k != 0 {
            while let Some(&(i, c2)) = it.peek() {
                if class(c2) == k {
                    end = i + c2.len_utf8();
                    it.next();
                } else {
                    break;
                }
            }
        }
        out.push(&s[start..end]);
    }
    out
}

/// A type from a small grammar; `depth` = number of enclosing union / function boundaries.
fn type_text(dice: &[u8], at: &mut usize, depth: usize, fuel: usize) -> String {
    let mut next = || {
        let v = dice.get(*at).copied().unwrap_or(0);
        *at += 1;
        v
    };
    let x = next();
    if fuel == 0 {
        return ["'int", "'bin", "Nil", "^", "^1"][x as usize % 5].to_string();
    }
    match x % 12 {
        0 => "'int".into(),
        1 => "'bin".into(),
        2 => "Nil".into(),
        // back references: the root, a valid numbered one, exactly one too deep, far too deep
        3 => "^".into(),
        4 => format!("^{}", next() as usize % (depth + 1)),
        5 => format!("^{depth}"),
        6 => format!("^{}", depth + 1 + next() as usize % 3),
        7 => format!("Cons[{}, {}]", type_text(dice, at, depth, fuel - 1), type_text(dice, at, depth, fuel - 1)),
        8 => format!("({} | {})", type_text(dice, at, depth + 1, fuel - 1), type_text(dice, at, depth + 1, fuel - 1)),
        9 => format!("(#{} -> {})", type_text(dice, at, depth + 1, fuel - 1), type_text(dice, at, depth + 1, fuel - 1)),
        10 => format!("(x: {})", type_text(dice, at, depth, fuel - 1)),
        _ => format!("A[{}]", type_text(dice, at, depth, fuel - 1)),
    }
}

pub fn render(g: &Gen, corpus: &[String]) -> String {
    match g {
        Gen::TypeUse(dice) => {
            let mut at = 2;
            let d = |i: usize| dice.get(i).copied().unwrap_or(0);
            let value = ["5", "Nil", "Cons[1, Nil]", "A[0x00]", "[x: 1]", "Cons[Nil, Cons[1, Nil]]"][d(1) as usize % 6];
            match d(0) % 4 {
                // alias that is a union at the root, used as a parameter type
                0 => format!("'t = {} | {}, {value} ~> #'t {{ ~ }}", type_text(dice, &mut at, 1, 3), type_text(dice, &mut at, 1, 3)),
                // alias used in a run-time test
                1 => format!("'t = {} | {}, {value} {{ | ='t => 1 | 2 }}", type_text(dice, &mut at, 1, 3), type_text(dice, &mut at, 1, 3)),
                // the type written in place as a function parameter
                2 => format!("{value} ~> #{} {{ ~ }}", type_text(dice, &mut at, 1, 3)),
                // two aliases, one used against the other
                _ => format!("'t = {} | Nil, 's = {} | Nil, f = #'t {{ ~ }}, g = #'s {{ ~ f }}, {value} g", type_text(dice, &mut at, 1, 3), type_text(dice, &mut at, 1, 3)),
            }
        }
        Gen::Tokens(v) => v.iter().map(|i| TOKENS[idx(*i, TOKENS.len())]).collect(),
        Gen::Bytes(b) => String::from_utf8_lossy(b).into_owned(),
        Gen::Mutant { base, op, pos, arg } => {
            if corpus.is_empty() {
                return String::new();
            }
            let src = &corpus[idx(*base, corpus.len())];
            let toks = tokenize(src);
            if toks.is_empty() {
                return String::new();
            }
            let p = idx(*pos, toks.len());
            let mut v: Vec<String> = toks.iter().map(|s| s.to_string()).collect();
            match op {
                0 => v.truncate(p),
                1 => {
                    v.remove(p);
                }
                2 => {
                    let t = v[p].clone();
                    v.insert(p, t);
                }
                3 => v[p] = TOKENS[idx(*arg, TOKENS.len())].to_string(),
                _ => {
                    if p + 1 < v.len() {
                        v.swap(p, p + 1);
                    }
                }
            }
            v.concat()
        }
        Gen::Nest { tmpl, depth, inner, pre, post } => {
            let (prefix, open, close, suffix) = NESTS[(*tmpl as usize) % NESTS.len()];
            let d = *depth as usize;
            let mut s = String::new();
            // optional junk before/after (index 0 → nothing)
            if *pre > 40000 {
                s.push_str(TOKENS[idx(*pre, TOKENS.len())]);
                s.push(' ');
            }
            s.push_str(prefix);
            for _ in 0..d {
                s.push_str(open);
            }
            s.push_str(TOKENS[idx(*inner, TOKENS.len())]);
            // close fewer/more than opened sometimes
            let closes = match *post % 7 {
                0 => d.saturating_sub(1),
                1 => d + 1,
                _ => d,
            };
            for _ in 0..closes {
                s.push_str(close);
            }
            s.push_str(suffix);
            s
        }
        Gen::Wide { base, pos, ch } => {
            if corpus.is_empty() {
                return String::new();
            }
            let src = &corpus[idx(*base, corpus.len())];
            let wide = ["é", "→", "𝛑", "ü̈", "\u{2028}", "日本", "\u{feff}", "🦀"];
            let mut cuts: Vec<usize> = src.char_indices().map(|(i, _)| i).collect();
            cuts.push(src.len());
            let at = cuts[idx(*pos, cuts.len())];
            format!("{}{}{}", &src[..at], wide[(*ch as usize) % wide.len()], &src[at..])
        }
    }
}

pub fn max_paren_depth(s: &str) -> usize {
    let mut d = 0usize;
    let mut m = 0;
    for c in s.chars() {
        match c {
            '(' => {
                d += 1;
                m = m.max(d);
            }
            ')' => d = d.saturating_sub(1),
            _ => {}
        }
    }
    m
}

pub fn max_bracket_depth(s: &str) -> usize {
    let mut d = 0usize;
    let mut m = 0;
    for c in s.chars() {
        match c {
            '(' | '[' | '{' => {
                d += 1;
                m = m.max(d);
            }
            ')' | ']' | '}' => d = d.saturating_sub(1),
            _ => {}
        }
    }
    m
}

/// Nesting depth counting only blocks opened by a spawn (`@{`, `@ {`, `@'t {`, `@(..) {`, `@[..] {`).
pub fn max_spawn_block_depth(s: &str) -> usize {
    let chars: Vec<char> = s.chars().collect();
    let mut stack: Vec<bool> = Vec::new();
    let mut m = 0;
    for (i, &c) in chars.iter().enumerate() {
        if c == '{' {
            // look back for an '@' with only type-ish characters in between
            let mut j = i;
            let mut spawn = false;
            let mut steps = 0;
            while j > 0 && steps < 80 {
                j -= 1;
                steps += 1;
                let p = chars[j];
                if p == '@' {
                    spawn = true;
                    break;
                }
                if p == '{' || p == '}' || p == '\n' || p == '"' || p == '=' {
                    break;
                }
            }
            stack.push(spawn);
            let d = stack.iter().filter(|b| **b).count();
            m = m.max(d);
        } else if c == '}' {
            stack.pop();
        }
    }
    m
}

pub fn excluded(src: &str) -> Option<&'static str> {
    if max_paren_depth(src) > PAREN_CAP {
        Some("excluded:paren-depth")
    } else if max_spawn_block_depth(src) > SPAWN_CAP {
        Some("excluded:spawn-block-depth")
    } else {
        None
    }
}

pub const SPAWN_CAP: usize = 6;

pub fn tick_budget(n: usize) -> u64 {
    200 * (n as u64) * (n as u64) + 2_000_000
}

pub const PAREN_CAP: usize = 6;

#[derive(Debug, Clone, PartialEq)]
pub enum Front {
    ParseErr,
    CompileErr,
    CompileInternal,
    Accepted,
}

fn normalize_msg(m: &str) -> String {
    let mut s: String = m.chars().map(|c| if c.is_ascii_digit() { '#' } else { c }).collect();
    while s.contains("##") {
        s = s.replace("##", "#");
    }
    truncate(&s, 90)
}

/// The oracle. Err((signature, message)) is a violation.
pub fn check(src: &str, reg: &qrun::Registry) -> Result<(Front, u64), (String, String)> {
    let n = src.len();
    quiver_compiler::verif::reset(Some(tick_budget(n)));
    let parsed = catch(|| quiver_compiler::parse(src));
    let ticks = quiver_compiler::verif::ticks();
    quiver_compiler::verif::reset(None);
    let parsed = match parsed {
        Ok(p) => p,
        Err(msg) => {
            if msg.contains("tick budget exceeded") {
                return Err((
                    "parse-budget".to_string(),
                    format!("parser exceeded {} productions on a {}-byte input", tick_budget(n), n),
                ));
            }
            let loc = last_panic_loc();
            let file = loc.rsplit('/').next().unwrap_or("").split(':').next().unwrap_or("").to_string();
            return Err((format!("parse-panic:{file}:{}", normalize_msg(&msg)), format!("parser panicked at {loc}: {msg}")));
        }
    };
    match parsed {
        Err(e) => {
            let Some(sp) = e.span else {
                return Err(("parse-error-no-span".into(), format!("parse error without a position: {:?}", e.kind)));
            };
            if sp.offset > n || sp.offset + sp.length > n {
                return Err((
                    "parse-error-span-outside".into(),
                    format!("error span offset={} length={} outside input of {} bytes", sp.offset, sp.length, n),
                ));
            }
            if !src.is_char_boundary(sp.offset) || !src.is_char_boundary(sp.offset + sp.length) {
                return Err(("parse-error-span-not-char-boundary".into(), format!("span {sp:?} splits a character")));
            }
            let line = 1 + src[..sp.offset].bytes().filter(|b| *b == b'\n').count();
            let col = sp.offset - src[..sp.offset].rfind('\n').map(|i| i + 1).unwrap_or(0) + 1;
            if sp.line != line || sp.column != col {
                return Err((
                    "parse-error-line-col".into(),
                    format!("span {sp:?} but offset {} is line {line} column {col}", sp.offset),
                ));
            }
            Ok((Front::ParseErr, ticks))
        }
        Ok(ast) => {
            let r = catch(|| qrun::compile_ast(ast, &qrun::Modules::new(), reg));
            match r {
                Err(msg) => {
                    let loc = last_panic_loc();
                    let file = loc.rsplit('/').next().unwrap_or("").split(':').next().unwrap_or("").to_string();
                    Err((
                        format!("compile-panic:{file}:{}", normalize_msg(&msg)),
                        format!("compiler panicked at {loc}: {msg}"),
                    ))
                }
                Ok(Ok(_)) => Ok((Front::Accepted, ticks)),
                Ok(Err(qrun::FrontError::Compile(m))) if m.starts_with("InternalError") => Ok((Front::CompileInternal, ticks)),
                Ok(Err(_)) => Ok((Front::CompileErr, ticks)),
            }
        }
    }
}

/// ddmin-style string minimiser: remove chunks while `fails` keeps returning the same signature.
pub fn minimize(src: &str, sig: &str, reg: &qrun::Registry) -> String {
    let same = |s: &str| matches!(check(s, reg), Err((ref g, _)) if g == sig);
    let mut cur: Vec<char> = src.chars().collect();
    let mut chunk = cur.len().max(1) / 2;
    let mut iters = 0;
    let cap = if sig == "parse-budget" { 40 } else { 3000 };
    while chunk >= 1 && iters < cap {
        let mut i = 0;
        let mut progressed = false;
        while i < cur.len() && iters < cap {
            iters += 1;
            let end = (i + chunk).min(cur.len());
            let cand: String = cur[..i].iter().chain(cur[end..].iter()).collect();
            if same(&cand) {
                cur = cand.chars().collect();
                progressed = true;
            } else {
                i += chunk;
            }
        }
        if !progressed || chunk == 1 {
            if chunk == 1 && !progressed {
                break;
            }
            chunk = (chunk / 2).max(1);
            if chunk == 1 && !progressed {
                // one more pass at 1 happens naturally
            }
        }
    }
    cur.into_iter().collect()
}

pub fn witness_spawn(depth: usize) -> String {
    format!("{}(", "@{".repeat(depth))
}

pub fn witness_paren(depth: usize) -> String {
    format!("x ={}'int{}", "(".repeat(depth), ")".repeat(depth))
}

pub fn run(ctx: &Ctx) -> i32 {
    let started = Instant::now();
    MAX_SHRINK_ITERS.store(150, std::sync::atomic::Ordering::Relaxed);
    let stats = Stats::new();
    let corpus: Arc<Vec<String>> = Arc::new(corpus::all_sources());
    stats.note("corpus_programs", json!(corpus.len()));
    let cases_per_shard: u32 = ctx.tier.pick(4_000, 200_000);
    let known = KnownFindings::load();

    let mut violations = run_sharded(ctx.shards, |shard| {
        let reg = qrun::registry();
        let mut out = Vec::new();
        // Shard 0 also replays the whole corpus unmutated and all its prefixes (quick: sampled).
        if shard == 0 {
            for (i, src) in corpus.iter().enumerate() {
                stats.eval();
                match check(src, &reg) {
                    Ok((f, _)) => stats.class(&format!("corpus:{f:?}")),
                    Err((sig, msg)) => out.push(Violation {
                        signature: sig,
                        summary: format!("{msg}\ninput (corpus #{i}): {}", truncate(src, 400)),
                        replay: json!({"kind": "c18", "input": src}),
                    }),
                }
            }
        }
        // Every prefix of a slice of the corpus (deterministic split across shards).
        for (i, src) in corpus.iter().enumerate() {
            if i % ctx.shards != shard || src.len() > ctx.tier.pick(400, 4000) {
                continue;
            }
            let cuts: Vec<usize> = src.char_indices().map(|(i, _)| i).collect();
            for &c in &cuts {
                let p = &src[..c];
                if let Some(c) = excluded(p) {
                    stats.class(c);
                    continue;
                }
                stats.eval();
                stats.class("prefix");
                if let Err((sig, msg)) = check(p, &reg) {
                    let min = minimize(p, &sig, &reg);
                    out.push(Violation {
                        signature: sig,
                        summary: format!("{msg}\ninput: {:?}", truncate(&min, 400)),
                        replay: json!({"kind": "c18", "input": min}),
                    });
                    break;
                }
            }
        }
        let strat = strategy();
        let seed = derive_seed(ctx.seed, ctx.id, shard, 0);
        let res = pt_search(seed, cases_per_shard, &strat, &stats, |g| {
            let src = render(g, &corpus);
            if src.len() > 2048 {
                stats.discard();
                return Ok(());
            }
            if let Some(c) = excluded(&src) {
                stats.class(c);
                return Ok(());
            }
            stats.eval();
            match check(&src, &reg) {
                Ok((front, ticks)) => {
                    let kind = match g {
                        Gen::Tokens(_) => "tokens",
                        Gen::Bytes(_) => "bytes",
                        Gen::Mutant { .. } => "mutant",
                        Gen::Nest { .. } => "nest",
                        Gen::Wide { .. } => "wide",
                        Gen::TypeUse(_) => "type-grammar",
                    };
                    stats.class(&format!("gen:{kind}"));
                    stats.class(&format!("front:{front:?}"));
                    if max_bracket_depth(&src) >= 50 {
                        stats.class("nest>=50");
                    }
                    if !src.is_ascii() {
                        stats.class("non-ascii");
                    }
                    // Non-trivial: accepted by the parser, or the parser got past 3 productions.
                    if front != Front::ParseErr || ticks > 3 {
                        stats.nontrivial(&src);
                        stats.sample(|| json!({"input": truncate(&src, 160), "outcome": format!("{front:?}"), "ticks": ticks}));
                    }
                    Ok(())
                }
                Err((sig, msg)) => {
                    if !ctx.strict && known.is_known(ctx.id, &sig).is_some() {
                        stats.known_hit(&sig);
                        return Ok(());
                    }
                    Err(format!("{sig}\u{1}{msg}"))
                }
            }
        });
        if let Search::Failed { minimal, message } = res {
            let src = render(&minimal, &corpus);
            let (sig, msg) = message.split_once('\u{1}').map(|(a, b)| (a.to_string(), b.to_string())).unwrap_or((message.clone(), message.clone()));
            let min = minimize(&src, &sig, &reg);
            out.push(Violation {
                signature: sig,
                summary: format!("{msg}\ninput: {:?}", truncate(&min, 400)),
                replay: json!({"kind": "c18", "input": min}),
            });
        }
        out
    });

    // Directed witnesses for known findings (constructed every run).
    let reg = qrun::registry();
    for e in known.known_for(ctx.id) {
        let w = match e.signature.as_str() {
            "witness:paren-exponential" => Some(witness_paren(24)),
            "witness:spawn-block-exponential" => Some(witness_spawn(26)),
            _ => None,
        };
        if let Some(w) = w {
            match check(&w, &reg) {
                Err((sig, _)) if sig == "parse-budget" => stats.known_hit(&e.signature),
                Err((sig, msg)) => violations.push(Violation {
                    signature: sig,
                    summary: format!("{msg}\ninput: {w:?}"),
                    replay: json!({"kind": "c18", "input": w}),
                }),
                Ok(_) => {
                    println!("NOTE: known finding {} no longer reproduces (witness passes)", e.signature);
                }
            }
        }
    }

    finish(Report {
        ctx,
        stats: &stats,
        violations,
        rule: "inputs: token-alphabet strings, lossy-UTF-8 bytes, single-token mutants/prefixes/wide-char insertions of every harvested program, bracket nests to depth 100, near-valid type definitions from a small grammar (back references at every depth, incl. one too deep) followed by a use; non-trivial = parser accepted the input or entered more than 3 productions before rejecting; distinct by input text".into(),
        assumptions: vec![
            format!("termination is judged as a deterministic production budget 200*n^2+2e6 (hook H5), not wall-clock"),
            format!("inputs with '(' nesting deeper than {PAREN_CAP} or spawn-block nesting deeper than {SPAWN_CAP} are excluded from the random search (known finding: exponential backtracking); the witness is re-checked every run"),
            "compile stage uses the in-memory resolver with the embedded std only".into(),
            "stack exhaustion is observed on 256 MiB shard stacks; the CLI's 8 MiB main-thread limit is sampled separately by the thorough tier".into(),
        ],
        required_classes: vec!["gen:tokens", "gen:mutant", "gen:nest", "gen:wide", "gen:type-grammar", "front:Accepted", "front:ParseErr", "front:CompileErr", "prefix"],
        started,
        technique: "proptest-generated inputs + corpus mutation; oracle = no panic, located error, production budget",
    })
}

pub fn replay(payload: &serde_json::Value) -> Result<(), String> {
    let src = payload["input"].as_str().ok_or("missing input")?;
    let reg = qrun::registry();
    match check(src, &reg) {
        Ok((f, t)) => {
            println!("replay: input handled cleanly ({f:?}, {t} productions)");
            Ok(())
        }
        Err((sig, msg)) => Err(format!("{sig}: {msg}")),
    }
}
