//! C10 — packaging steps preserve behaviour: tree-shake, serialise, merge, import.

use crate::corpus;
use crate::fw::*;
use crate::hval::HVal;
use crate::pack::{self, Res};
use crate::qrun::{self, Modules};
use proptest::prelude::*;
use quiver_core::bytecode::Bytecode;
use serde_json::json;
use std::sync::Arc;
use std::time::Instant;

// ---------------------------------------------------------------------------------------------
// value-program generator shared by the entry-closure and module streams

#[derive(Clone, Debug)]
pub enum B {
    Int(i64),
    Big(u8),
    Hex(Vec<u8>),
    Heap(u8, u8),
    Concat(u8, u8),
    Str(u8),
    Tup { name: u8, labelled: bool, items: Vec<(u8, bool)> },
    Clo { items: Vec<(u8, bool)> },
    /// closure with a parameter that uses it together with captured values
    CloParam { items: Vec<(u8, bool)> },
}

#[derive(Clone, Copy, PartialEq, Debug)]
enum K {
    Int,
    Bin,
    Tup,
    Clo,
    CloP,
}

fn bind() -> impl Strategy<Value = B> {
    let items = || prop::collection::vec((any::<u8>(), any::<bool>()), 1..4);
    prop_oneof![
        2 => (-50i64..1000).prop_map(B::Int),
        1 => (0u8..3).prop_map(B::Big),
        2 => prop::collection::vec(any::<u8>(), 1..5).prop_map(B::Hex),
        3 => (0u8..9, any::<u8>()).prop_map(|(n, b)| B::Heap(n, b)),
        2 => (any::<u8>(), any::<u8>()).prop_map(|(a, b)| B::Concat(a, b)),
        1 => (0u8..4).prop_map(B::Str),
        4 => (0u8..4, any::<bool>(), items()).prop_map(|(name, labelled, items)| B::Tup { name, labelled, items }),
        4 => items().prop_map(|items| B::Clo { items }),
        2 => items().prop_map(|items| B::CloParam { items }),
    ]
}

pub fn binds() -> impl Strategy<Value = Vec<B>> {
    prop::collection::vec(bind(), 1..9)
}

const TNAMES: [&str; 4] = ["", "P", "Q", "Str2"];
const STRS: [&str; 4] = ["", "a", "hello", "x{y"];

fn kinds(bs: &[B]) -> Vec<K> {
    let mut ks: Vec<K> = Vec::new();
    for b in bs {
        let k = match b {
            B::Int(_) | B::Big(_) => K::Int,
            B::Hex(_) | B::Heap(..) => K::Bin,
            B::Concat(..) => {
                if ks.contains(&K::Bin) {
                    K::Bin
                } else {
                    K::Int
                }
            }
            B::Str(_) | B::Tup { .. } => K::Tup,
            B::Clo { .. } => K::Clo,
            B::CloParam { .. } => K::CloP,
        };
        ks.push(k);
    }
    ks
}

fn pick(i: u8, n: usize) -> usize {
    (i as usize * n) >> 8
}

fn pick_kind(i: u8, ks: &[K], k: K) -> Option<usize> {
    let c: Vec<usize> = ks.iter().enumerate().filter(|(_, x)| **x == k).map(|(j, _)| j).collect();
    if c.is_empty() { None } else { Some(c[pick(i, c.len())]) }
}

/// Reference to an earlier binding: closures are either called or passed as values.
fn item_ref(pfx: &str, j: usize, call: bool, ks: &[K]) -> String {
    match ks[j] {
        K::Clo if call => format!("[] {pfx}{j}"),
        K::CloP if call => format!("7 {pfx}{j}"),
        K::Clo | K::CloP => format!("&{pfx}{j}"),
        _ => format!("{pfx}{j}"),
    }
}

/// `pfx0 = …, pfx1 = …` (no trailing separator).
pub fn render_binds(bs: &[B], pfx: &str) -> String {
    let ks = kinds(bs);
    let mut lines = Vec::new();
    for (i, b) in bs.iter().enumerate() {
        let earlier = &ks[..i];
        let items_text = |items: &[(u8, bool)]| -> Vec<String> {
            if i == 0 {
                return vec!["0".to_string()];
            }
            items.iter().map(|(x, call)| item_ref(pfx, pick(*x, i), *call, earlier)).collect()
        };
        let rhs = match b {
            B::Int(n) => n.to_string(),
            B::Big(k) => ["123456789012345678901234567890", "-98765432109876543210", "18446744073709551616"][*k as usize % 3].to_string(),
            B::Hex(bytes) => format!("0x{}", bytes.iter().map(|x| format!("{x:02x}")).collect::<String>()),
            B::Heap(n, byte) => format!("[0x{byte:02x}, {n}] __binary_repeat__"),
            B::Concat(x, y) => match (pick_kind(*x, earlier, K::Bin), pick_kind(*y, earlier, K::Bin)) {
                (Some(a), Some(c)) => format!("[{pfx}{a}, {pfx}{c}] __binary_concat__"),
                _ => "11".to_string(),
            },
            B::Str(k) => format!("\"{}\"", STRS[*k as usize % 4].replace('{', "\\{")),
            B::Tup { name, labelled, items } => {
                let its = items_text(items);
                let fs: Vec<String> = its.iter().enumerate().map(|(j, t)| if *labelled { format!("f{j}: {t}") } else { t.clone() }).collect();
                format!("{}[{}]", TNAMES[*name as usize % 4], fs.join(", "))
            }
            B::Clo { items } => format!("#{{ [{}] }}", items_text(items).join(", ")),
            B::CloParam { items } => format!("#'int {{ =n, [[n, 1] __integer_add__, {}] }}", items_text(items).join(", ")),
        };
        lines.push(format!("{pfx}{i} = {rhs}"));
    }
    lines.join(",\n")
}

/// `[ref, ref, …]` over all bindings (closures called).
fn all_items(bs: &[B], pfx: &str, call: bool) -> String {
    let ks = kinds(bs);
    let its: Vec<String> = (0..bs.len()).map(|j| item_ref(pfx, j, call || j % 2 == 0, &ks)).collect();
    format!("[{}]", its.join(", "))
}

// ---------------------------------------------------------------------------------------------

#[derive(Clone, Debug)]
pub enum Case {
    /// a harvested program behind `before` other harvested programs
    Corpus { idx: u16, before: Vec<u16> },
    /// a program evaluating to a nilary closure (the CLI's executable shape)
    Entry { binds: Vec<B>, before: Vec<u16> },
    /// a module + a main that imports it in a generated form
    Import { module: Vec<B>, inner: Option<Vec<B>>, form: u8 },
}

pub fn strategy() -> impl Strategy<Value = Case> {
    let before = || prop::collection::vec(any::<u16>(), 0..4);
    prop_oneof![
        3 => (any::<u16>(), before()).prop_map(|(idx, before)| Case::Corpus { idx, before }),
        3 => (binds(), before()).prop_map(|(binds, before)| Case::Entry { binds, before }),
        3 => (binds(), prop::option::weighted(0.3, binds()), 0u8..5).prop_map(|(module, inner, form)| Case::Import { module, inner, form }),
    ]
}

pub struct Shared {
    pub corpus: Vec<String>,
    /// corpus entries usable as predecessors (compile, small), as bytecode: (plain, optimised)
    pub before: Vec<(String, Bytecode, Bytecode)>,
}

pub fn build_shared(reg: &qrun::Registry) -> Shared {
    let corpus = corpus::all_sources();
    let mut before = Vec::new();
    for s in corpus.iter().filter(|s| s.len() < 400) {
        if let (Some(a), Some(b)) = (pack::bytecode_of(s, &Modules::new(), reg, false), pack::bytecode_of(s, &Modules::new(), reg, true)) {
            // keep only predecessors that finish synchronously (no processes, no I/O)
            if matches!(pack::run_sync_res(&a, reg), Res::Val(_) | Res::Err(_)) {
                before.push((s.clone(), a, b));
            }
        }
        if before.len() >= 250 {
            break;
        }
    }
    Shared { corpus, before }
}

#[derive(Default)]
pub struct Facts {
    pub runs: u32,
    pub discarded: bool,
    pub classes: Vec<&'static str>,
    pub text: String,
}

fn pick_before(sh: &Shared, idxs: &[u16]) -> Vec<String> {
    if sh.before.is_empty() {
        return vec![];
    }
    idxs.iter().map(|i| sh.before[(*i as usize * sh.before.len()) >> 16].0.clone()).collect()
}

fn before_bytecode(srcs: &[String], reg: &qrun::Registry) -> Vec<Bytecode> {
    srcs.iter().enumerate().filter_map(|(k, s)| pack::bytecode_of(s, &Modules::new(), reg, k % 2 == 0)).collect()
}

/// What a case runs, as plain sources (this is also the replay payload).
#[derive(Clone, Debug)]
pub enum Plan {
    Corpus { source: String, before: Vec<String> },
    Entry { as_program: String, applied: String, before: Vec<String>, classes: Vec<&'static str> },
    Import { modules: Vec<(String, String)>, main_import: String, main_splice: String, classes: Vec<&'static str> },
}

pub fn plan_json(p: &Plan) -> serde_json::Value {
    match p {
        Plan::Corpus { source, before } => json!({"plan": "corpus", "source": source, "before": before}),
        Plan::Entry { as_program, applied, before, .. } => json!({"plan": "entry", "as_program": as_program, "applied": applied, "before": before}),
        Plan::Import { modules, main_import, main_splice, .. } => json!({"plan": "import", "modules": modules, "main_import": main_import, "main_splice": main_splice}),
    }
}

pub fn plan_from_json(j: &serde_json::Value) -> Option<Plan> {
    let strs = |v: &serde_json::Value| -> Vec<String> { v.as_array().map(|a| a.iter().filter_map(|x| x.as_str().map(|s| s.to_string())).collect()).unwrap_or_default() };
    match j["plan"].as_str()? {
        "corpus" => Some(Plan::Corpus { source: j["source"].as_str()?.to_string(), before: strs(&j["before"]) }),
        "entry" => Some(Plan::Entry { as_program: j["as_program"].as_str()?.to_string(), applied: j["applied"].as_str()?.to_string(), before: strs(&j["before"]), classes: vec![] }),
        "import" => Some(Plan::Import {
            modules: j["modules"].as_array()?.iter().filter_map(|m| Some((m[0].as_str()?.to_string(), m[1].as_str()?.to_string()))).collect(),
            main_import: j["main_import"].as_str()?.to_string(),
            main_splice: j["main_splice"].as_str()?.to_string(),
            classes: vec![],
        }),
        _ => None,
    }
}

fn compare(reference: &(String, Res), others: &[(String, Res)], what: &str) -> Result<(), (String, String)> {
    for (name, r) in others {
        if let Res::Broken(m) = r {
            return Err((format!("{name}:broken"), format!("{what}\nvariant {name}: {m}\nreference {}: {}", reference.0, reference.1.show())));
        }
        if r.canon() != reference.1.canon() {
            return Err((format!("{name}:differs"), format!("{what}\nvariant {name}: {}\nreference {}: {}", r.show(), reference.0, reference.1.show())));
        }
    }
    Ok(())
}

// ---------------------------------------------------------------------------------------------
// the real command line: `quiv run -e`, `quiv compile -o f.qx` + `quiv run f.qx`, and
// `quiv compile | quiv run` as subprocesses (binary built by check.sh from /repo's tree)

pub fn quiv_path() -> Option<String> {
    // QV_QUIV: another build of the command line (used when a scratch copy of /repo is checked)
    let p = std::env::var("QV_QUIV").unwrap_or_else(|_| format!("{VERIF_ROOT}/harness/target/cli/debug/quiv"));
    if std::env::var("QV_NO_CLI").is_err() && std::path::Path::new(&p).is_file() { Some(p) } else { None }
}

/// The text `quiv run` prints for a value (quiver_core::format::format_value), from the host
/// value; None when the value contains something whose text is configuration-specific beyond a
/// function index, or one of the specially rendered tuples.
pub fn cli_text(v: &HVal) -> Option<String> {
    Some(match v {
        HVal::Int(i) => i.to_string(),
        HVal::Bin(b) => {
            let hexs = |b: &[u8]| b.iter().map(|x| format!("{x:02x}")).collect::<String>();
            if b.len() <= 8 { format!("0x{}", hexs(b)) } else { format!("0x{}… ({} bytes)", hexs(&b[..8]), b.len()) }
        }
        HVal::Fn(_, _) => "#_".to_string(),
        HVal::Tuple(name, fields) => {
            if matches!(name.as_deref(), Some("Str" | "Rational" | "Surd")) {
                return None;
            }
            let fs = fields.iter().map(|(l, f)| cli_text(f).map(|t| match l { Some(l) => format!("{l}: {t}"), None => t })).collect::<Option<Vec<_>>>()?;
            match name {
                Some(n) if fs.is_empty() => n.clone(),
                Some(n) => format!("{n}[{}]", fs.join(", ")),
                None => format!("[{}]", fs.join(", ")),
            }
        }
        _ => return None,
    })
}

/// function indices differ between packagings: `#12` -> `#_`
fn strip_fn_indices(s: &str) -> String {
    let mut out = String::new();
    let mut chars = s.chars().peekable();
    while let Some(c) = chars.next() {
        out.push(c);
        if c == '#' && chars.peek().is_some_and(|d| d.is_ascii_digit()) {
            while chars.peek().is_some_and(|d| d.is_ascii_digit()) {
                chars.next();
            }
            out.push('_');
        }
    }
    out
}

/// Run one `quiv` invocation with a 60 s limit. Ok(None) = the limit was hit (inconclusive).
/// A failure the command line reports itself ("Error: …" on stderr) is returned at once. A silent
/// non-zero end (`quiv run` exits with status 1 and prints nothing when the result is nil; a
/// signal looks the same from here) is retried: it counts as a failure only if it happens three
/// times in a row — it was seen twice in ~4*10^4 invocations on a heavily loaded machine, on
/// programs that then ran correctly 1000 times each.
fn quiv(bin: &str, args: &[&str], stdin: Option<&[u8]>) -> Result<Option<(bool, String, String)>, String> {
    let mut last = String::new();
    for _attempt in 0..3 {
        match quiv_once(bin, args, stdin)? {
            None => return Ok(None),
            Some((status, out, err)) => {
                if status.success() {
                    return Ok(Some((true, out, err)));
                }
                if status.code().is_some() && !err.trim().is_empty() {
                    return Ok(Some((false, out, format!("{status}: {err}"))));
                }
                last = format!("{status} with nothing on stderr (a nil result ends `quiv run` that way), three times in a row");
            }
        }
    }
    Ok(Some((false, String::new(), last)))
}

fn quiv_once(bin: &str, args: &[&str], stdin: Option<&[u8]>) -> Result<Option<(std::process::ExitStatus, String, String)>, String> {
    use std::io::Write;
    use std::process::{Command, Stdio};
    let mut child = Command::new(bin)
        .args(args)
        .stdin(if stdin.is_some() { Stdio::piped() } else { Stdio::null() })
        .stdout(Stdio::piped())
        .stderr(Stdio::piped())
        .spawn()
        .map_err(|e| format!("cannot start {bin}: {e}"))?;
    if let (Some(data), Some(mut pipe)) = (stdin, child.stdin.take()) {
        let _ = pipe.write_all(data);
    }
    let t0 = std::time::Instant::now();
    loop {
        match child.try_wait() {
            Ok(Some(_)) => break,
            Ok(None) => {
                if t0.elapsed().as_secs() > 60 {
                    let _ = child.kill();
                    let _ = child.wait();
                    return Ok(None);
                }
                std::thread::sleep(std::time::Duration::from_millis(2));
            }
            Err(e) => return Err(format!("wait: {e}")),
        }
    }
    let out = child.wait_with_output().map_err(|e| format!("output: {e}"))?;
    Ok(Some((out.status, String::from_utf8_lossy(&out.stdout).trim_end().to_string(), String::from_utf8_lossy(&out.stderr).trim_end().to_string())))
}

/// The three command-line routes for a program that evaluates to a nilary function; each gives
/// (route name, printed result) or Broken.
pub fn cli_routes(bin: &str, source: &str, tag: u64) -> Result<Option<Vec<(String, Result<String, String>)>>, String> {
    let dir = if std::path::Path::new("/dev/shm").is_dir() { "/dev/shm".to_string() } else { format!("{VERIF_ROOT}/harness/target") };
    // unique per invocation: the same small program turns up in several shards at once
    static SERIAL: std::sync::atomic::AtomicU64 = std::sync::atomic::AtomicU64::new(0);
    let serial = SERIAL.fetch_add(1, std::sync::atomic::Ordering::Relaxed);
    let file = format!("{dir}/qv-cli-{}-{tag:016x}-{serial}.qx", std::process::id());
    let mut routes = Vec::new();
    let shape = |r: (bool, String, String)| if r.0 { Ok(strip_fn_indices(&r.1)) } else { Err(truncate(&r.2, 300)) };
    let Some(direct) = quiv(bin, &["run", "-e", source], None)? else { return Ok(None) };
    routes.push(("quiv run -e".to_string(), shape(direct)));
    let Some(comp) = quiv(bin, &["compile", "-e", source, "-o", &file], None)? else { return Ok(None) };
    if comp.0 {
        let Some(ran) = quiv(bin, &["run", &file], None)? else {
            let _ = std::fs::remove_file(&file);
            return Ok(None);
        };
        routes.push(("quiv compile -o f.qx; quiv run f.qx".to_string(), shape(ran)));
    } else {
        routes.push(("quiv compile -o f.qx".to_string(), Err(truncate(&comp.2, 300))));
    }
    let _ = std::fs::remove_file(&file);
    let Some(piped) = quiv(bin, &["compile", "-e", source], None)? else { return Ok(None) };
    if piped.0 {
        let Some(ran) = quiv(bin, &["run"], Some(piped.1.as_bytes()))? else { return Ok(None) };
        routes.push(("quiv compile | quiv run".to_string(), shape(ran)));
    } else {
        routes.push(("quiv compile".to_string(), Err(truncate(&piped.2, 300))));
    }
    Ok(Some(routes))
}

pub fn plan(case: &Case, sh: &Shared) -> Plan {
    match case {
        Case::Corpus { idx, before } => Plan::Corpus { source: sh.corpus[(*idx as usize * sh.corpus.len()) >> 16].clone(), before: pick_before(sh, before) },
        Case::Entry { binds, before } => {
            let body = render_binds(binds, "v");
            let closure = format!("#{{ {} }}", all_items(binds, "v", false));
            let ks = kinds(binds);
            let mut classes = vec!["cli-extract-entry-path"];
            if ks.contains(&K::Bin) && (ks.contains(&K::Clo) || ks.contains(&K::CloP)) {
                classes.push("entry-captures-binaries-and-closures");
            }
            if ks.iter().filter(|k| matches!(k, K::Clo | K::CloP)).count() >= 2 {
                classes.push("entry-captures-closures-capturing-closures");
            }
            Plan::Entry { as_program: format!("{body},\n{closure}"), applied: format!("{body},\n{closure} =fzz,\n[] fzz"), before: pick_before(sh, before), classes }
        }
        Case::Import { module, inner, form } => {
            let mut modules: Vec<(String, String)> = Vec::new();
            let mut outer_body = render_binds(module, "m");
            let mut outer_spliced = outer_body.clone();
            if let Some(inner_b) = inner {
                let ib = format!("{},\n{}", render_binds(inner_b, "i"), all_items(inner_b, "i", true));
                modules.push(("inner".to_string(), ib.clone()));
                outer_body = format!("inn = %inner,\n{outer_body}");
                outer_spliced = format!("inn = {{ {ib} }},\n{outer_spliced}");
            }
            let ks = kinds(module);
            let n = module.len();
            // export record: every binding under label e<j> (closures exported as values)
            let export = |pfx: &str| -> String {
                let fs: Vec<String> = (0..n).map(|j| format!("e{j}: {}", item_ref(pfx, j, false, &ks))).collect();
                let extra = if inner.is_some() { ", inner: inn" } else { "" };
                format!("[{}{extra}]", fs.join(", "))
            };
            let module_src = format!("{outer_body},\n{}", export("m"));
            modules.push(("mod1".to_string(), module_src));
            let spliced_block = format!("{{ {outer_spliced},\n{} }}", export("m"));
            // how main uses each export: closures are called, labelled tuples are also read
            // through a second accessor (`%mod1.e3.f0`)
            let use_of = |acc: &dyn Fn(usize) -> String| -> String {
                let its: Vec<String> = (0..n).map(|j| match (&ks[j], &module[j]) {
                    (K::Clo, _) => format!("[] {}", acc(j)),
                    (K::CloP, _) => format!("7 {}", acc(j)),
                    (K::Tup, B::Tup { labelled: true, items, .. }) if j > 0 && !items.is_empty() => format!("[{}, &{}.f0]", acc(j), acc(j)),
                    _ => acc(j),
                }).collect();
                format!("[{}]", its.join(", "))
            };
            let names: Vec<String> = (0..n).map(|j| format!("e{j}")).collect();
            let (main_import, main_splice, cls): (String, String, &'static str) = match form % 5 {
                0 => (
                    format!("mm = %mod1,\n{}", use_of(&|j| format!("mm.e{j}"))),
                    format!("mm = {spliced_block},\n{}", use_of(&|j| format!("mm.e{j}"))),
                    "import:whole-module-value",
                ),
                1 => (
                    use_of(&|j| format!("%mod1.e{j}")),
                    format!("mm = {spliced_block},\n{}", use_of(&|j| format!("mm.e{j}"))),
                    "import:member-access-at-each-use",
                ),
                2 => (
                    format!("({}) = %mod1,\n{}", names.join(", "), use_of(&|j| format!("e{j}"))),
                    format!("({}) = {spliced_block},\n{}", names.join(", "), use_of(&|j| format!("e{j}"))),
                    "import:destructured",
                ),
                3 => (
                    format!("* = %mod1,\n{}", use_of(&|j| format!("e{j}"))),
                    format!("* = {spliced_block},\n{}", use_of(&|j| format!("e{j}"))),
                    "import:star",
                ),
                _ => (
                    format!("g = #{{ {} }},\n[[] g, %mod1]", use_of(&|j| format!("%mod1.e{j}"))),
                    format!("mm = {spliced_block},\ng = #{{ {} }},\n[[] g, mm]", use_of(&|j| format!("mm.e{j}"))),
                    "import:inside-a-closure-and-as-value",
                ),
            };
            let mut classes = vec![cls];
            if inner.is_some() {
                classes.push("import:module-importing-a-module");
            }
            if ks.contains(&K::Bin) && (ks.contains(&K::Clo) || ks.contains(&K::CloP)) {
                classes.push("import:closures-capturing-binaries");
            }
            Plan::Import { modules, main_import, main_splice, classes }
        }
    }
}

pub fn check(case: &Case, sh: &Shared, reg: &qrun::Registry) -> Result<Facts, (String, String)> {
    exec(&plan(case, sh), reg)
}

pub fn exec(plan: &Plan, reg: &qrun::Registry) -> Result<Facts, (String, String)> {
    let mut f = Facts::default();
    match plan {
        Plan::Corpus { source: src, before } => {
            let c = match catch(|| qrun::compile(src, &Modules::new(), reg)) {
                Ok(Ok(c)) => c,
                _ => {
                    f.discarded = true;
                    return Ok(f);
                }
            };
            if c.entry.is_none() {
                f.discarded = true;
                return Ok(f);
            }
            // timing- and I/O-dependent programs have no deterministic reference
            let nondet = ["__time", "__file", "__socket", "__stdin", "__stdout", "__random", "%io", "__dir", "__tcp", "__udp", "__env", "__sleep"].iter().any(|k| src.contains(k));
            if nondet {
                f.discarded = true;
                return Ok(f);
            }
            let before_bc = before_bytecode(before, reg);
            let wall_hits = crate::qrun::wall_hits();
            let (runs, facts) = pack::run_all(&c, &before_bc, reg);
            f.runs = runs.len() as u32;
            let what = format!("--- program ---\n{}\n(merged behind {} programs)", truncate(src, 1500), before_bc.len());
            let reference = (runs[0].name.to_string(), runs[0].res.clone());
            let sync_ok = matches!(reference.1, Res::Val(_) | Res::Err(_));
            let merged: Vec<(String, Res)> = runs.iter().filter(|r| r.name.contains("merged")).map(|r| (r.name.to_string(), r.res.clone())).collect();
            let sync: Vec<(String, Res)> = runs.iter().skip(1).filter(|r| !r.name.contains("merged")).map(|r| (r.name.to_string(), r.res.clone())).collect();
            if wall_hits != crate::qrun::wall_hits() || matches!(reference.1, Res::Diverged) || merged.iter().any(|(_, r)| matches!(r, Res::Diverged)) {
                f.discarded = true;
                return Ok(f);
            }
            if sync_ok {
                compare(&reference, &sync, &what)?;
                compare(&reference, &merged, &what)?;
                f.classes.push("corpus:sequential-program");
            } else {
                // needs an environment (processes): the two merged variants must agree, and the
                // synchronous variants must agree among themselves
                compare(&reference, &sync, &what)?;
                if merged.len() == 2 {
                    compare(&merged[0].clone(), &merged[1..], &what)?;
                }
                f.classes.push("corpus:program-with-processes");
            }
            if let Some(sf) = facts {
                if sf.functions_removed > 0 && sf.types_removed > 0 {
                    f.classes.push("tree-shake-removed-functions-and-types");
                }
                if sf.constants_removed > 0 {
                    f.classes.push("tree-shake-removed-constants");
                }
            }
            if before_bc.len() >= 2 {
                f.classes.push("merged-behind-2+");
            }
            f.text = src.clone();
        }
        Plan::Entry { as_program, applied, before, classes } => {
            let what = format!("--- program ---\n{as_program}");
            let reference = match catch(|| qrun::compile(applied, &Modules::new(), reg)) {
                Ok(Ok(c)) => c,
                Ok(Err(e)) => return Err(("generator-rejected".into(), format!("{e:?}\n{applied}"))),
                Err(p) => return Err(("compile-panic".into(), format!("{p}\n{applied}"))),
            };
            let ref_bc = reference.program.to_bytecode(reference.entry);
            let ref_res = ("applied-in-source".to_string(), pack::run_sync_res(&ref_bc, reg));
            if !matches!(ref_res.1, Res::Val(_)) {
                return Err(("generator-rejected".into(), format!("reference run: {}\n{applied}", ref_res.1.show())));
            }
            let c = match catch(|| qrun::compile(as_program, &Modules::new(), reg)) {
                Ok(Ok(c)) => c,
                other => return Err(("generator-rejected".into(), format!("{:?}\n{as_program}", other.map(|r| r.map(|_| ()))))),
            };
            let (program, entry) = match pack::extract_entry(&c, reg) {
                Ok(x) => x,
                Err(e) => return Err(("extract-entry:broken".into(), format!("{what}\n{e}"))),
            };
            let before_bc = before_bytecode(before, reg);
            let mut others: Vec<(String, Res)> = Vec::new();
            let plain = pack::entry_bytecode(&program, entry, false).map_err(|e| ("extract-entry:broken".to_string(), format!("{what}\n{e}")))?;
            others.push(("entry".into(), pack::run_sync_res(&plain, reg)));
            match pack::entry_bytecode(&program, entry, true) {
                Ok(opt) => {
                    others.push(("entry+tree-shaken".into(), pack::run_sync_res(&opt, reg)));
                    match pack::json_roundtrip(&opt) {
                        Ok(back) => {
                            others.push(("entry+tree-shaken+json".into(), pack::run_sync_res(&back, reg)));
                            others.push(("entry+tree-shaken+json+merged".into(), pack::run_merged(&back, &before_bc, 2, reg)));
                        }
                        Err(e) => others.push(("entry+tree-shaken+json".into(), Res::Broken(e))),
                    }
                }
                Err(e) => others.push(("entry+tree-shaken".into(), Res::Broken(e))),
            }
            f.runs = 1 + others.len() as u32;
            compare(&ref_res, &others, &what)?;
            f.classes.extend(classes.iter().copied());
            // the real command line, for one case in four (subprocesses; real threads)
            if let Some(bin) = quiv_path()
                && let Res::Val(v) = &ref_res.1
                && hash64(as_program) % 4 == 0
            {
                match cli_routes(&bin, as_program, hash64(as_program)) {
                    Err(e) => return Err(("harness".into(), e)),
                    Ok(None) => f.classes.push("cli:time-limit-hit(inconclusive)"),
                    Ok(Some(routes)) => {
                        f.runs += routes.len() as u32;
                        let expected = cli_text(v);
                        for (name, got) in &routes {
                            match got {
                                Err(m) => return Err((format!("cli:{}:failed", name.split(' ').nth(1).unwrap_or("run")), format!("{what}\n`{name}` failed although the program runs in process: {m}"))),
                                Ok(text) => {
                                    if let Some(e) = &expected
                                        && e != text
                                    {
                                        return Err(("cli:differs".into(), format!("{what}\n`{name}` prints {}\nthe closure applied in source gives {e}", truncate(text, 600))));
                                    }
                                    if let Ok(first) = &routes[0].1
                                        && first != text
                                    {
                                        return Err(("cli:routes-differ".into(), format!("{what}\n`{name}` prints {}\n`{}` prints {}", truncate(text, 600), routes[0].0, truncate(first, 600))));
                                    }
                                }
                            }
                        }
                        f.classes.push("cli:real-quiv-subprocess-routes");
                        if expected.is_some() {
                            f.classes.push("cli:output-compared-with-in-process-value");
                        }
                    }
                }
            }
            f.text = as_program.clone();
        }
        Plan::Import { modules, main_import, main_splice, classes } => {
            let mods: Modules = modules.iter().map(|(n, s)| (vec![n.clone()], s.clone())).collect();
            let what = format!("{}\n--- main (import) ---\n{main_import}\n--- main (spliced) ---\n{main_splice}", modules.iter().map(|(n, s)| format!("--- module {n} ---\n{s}")).collect::<Vec<_>>().join("\n"));
            let spl = match catch(|| qrun::compile(main_splice, &mods, reg)) {
                Ok(Ok(c)) => c,
                Ok(Err(e)) => return Err(("generator-rejected".into(), format!("spliced form rejected: {e:?}\n{what}"))),
                Err(p) => return Err(("compile-panic".into(), format!("{p}\n{what}"))),
            };
            let ref_res = ("module-body-in-place".to_string(), pack::run_sync_res(&spl.program.to_bytecode(spl.entry), reg));
            if !matches!(ref_res.1, Res::Val(_)) {
                return Err(("generator-rejected".into(), format!("reference run: {}\n{what}", ref_res.1.show())));
            }
            let imp = match catch(|| qrun::compile(main_import, &mods, reg)) {
                Ok(Ok(c)) => c,
                Ok(Err(e)) => return Err(("import:rejected".into(), format!("the importing program is rejected although the spliced one is accepted: {e:?}\n{what}"))),
                Err(p) => return Err(("import:compile-panic".into(), format!("{p}\n{what}"))),
            };
            let (runs, _) = pack::run_all(&imp, &[], reg);
            f.runs = 1 + runs.len() as u32;
            let others: Vec<(String, Res)> = runs.iter().map(|r| (format!("import/{}", r.name), r.res.clone())).collect();
            compare(&ref_res, &others, &what)?;
            f.classes.extend(classes.iter().copied());
            f.text = what;
        }
    }
    Ok(f)
}

pub fn run(ctx: &Ctx) -> i32 {
    let started = Instant::now();
    let stats = Stats::new();
    let known = KnownFindings::load();
    let cases_per_shard: u32 = ctx.tier.pick(1_200, 30_000);
    let shared = Arc::new(build_shared(&qrun::registry()));
    stats.note("corpus_programs", json!(shared.corpus.len()));
    stats.note("predecessor_pool", json!(shared.before.len()));

    let violations = run_sharded(ctx.shards, |shard| {
        let reg = qrun::registry();
        let mut out = Vec::new();
        let strat = strategy();
        let seed = derive_seed(ctx.seed, ctx.id, shard, 0);
        let sh = shared.clone();
        let res = pt_search(seed, cases_per_shard, &strat, &stats, |case| {
            let pl = plan(case, &sh);
            crumb(ctx.id, || plan_json(&pl));
            match exec(&pl, &reg) {
            Ok(f) => {
                if f.discarded {
                    stats.discard();
                    return Ok(());
                }
                stats.evals(f.runs as u64);
                for c in &f.classes {
                    stats.class(c);
                }
                let nontrivial = f.classes.iter().any(|c| matches!(*c, "tree-shake-removed-functions-and-types" | "entry-captures-binaries-and-closures" | "import:closures-capturing-binaries" | "import:module-importing-a-module"));
                if nontrivial {
                    stats.nontrivial(&f.text);
                    stats.sample(|| json!({"case": truncate(&f.text, 600), "variant_runs": f.runs}));
                }
                Ok(())
            }
            Err((sig, msg)) => {
                if !ctx.strict && known.is_known(ctx.id, &sig).is_some() {
                    stats.known_hit(&sig);
                    return Ok(());
                }
                Err(format!("{sig}\u{1}{msg}"))
            }
            }
        });
        if let Search::Failed { minimal, message } = res {
            let (sig, msg) = message.split_once('\u{1}').map(|(a, b)| (a.to_string(), b.to_string())).unwrap_or((message.clone(), message));
            out.push(Violation { signature: sig, summary: truncate(&msg, 6000), replay: plan_json(&plan(&minimal, &sh)) });
        }
        out
    });

    finish(Report {
        ctx,
        stats: &stats,
        violations,
        rule: "three streams. (1) every harvested program that compiles: run as compiled, tree-shaken, each after a serde_json write/read (JSON values equal before/after), and each merged into a simulated 2-worker environment behind 0-3 other harvested programs (alternately plain and tree-shaken); all results equal structurally (names, labels, bytes; function/process/ref identities canonicalised); timing- and I/O-dependent sources are discarded. (2) generated programs evaluating to a nilary closure over 1-8 earlier bindings (integers incl. bignums, constant and heap binaries, concatenations, strings, named/labelled tuples, closures with and without a parameter that capture earlier bindings incl. other closures): the CLI's extract-entry path (evaluate, inject captures) then plain / tree-shaken / +JSON / +merged, against the same closure applied in source; one program in four also goes through the real command line as subprocesses (`quiv run -e`, `quiv compile -o f.qx` then `quiv run f.qx`, `quiv compile | quiv run`; binary built from /repo's tree by check.sh), whose printed results must equal each other and the text of the in-process value (function indices masked). (3) generated modules (same binding language, optionally importing an inner module) exporting every binding in a record, imported as a whole value, by member access at each use, destructured, by star, or inside a closure — against the module body spliced in place as a block; the importing program also runs in every packaging variant. evaluations = variant runs; non-trivial = tree-shaking removed functions and types, or closures capturing binaries cross the packaging step, or a module imports a module".into(),
        assumptions: vec![
            "the synchronous driver is the reference for sequential programs; programs that need an environment are compared between the two merged variants only".into(),
            "the real `quiv compile` / `quiv run` subprocess path is replicated in-process (compile_and_extract_entry, to_bytecode_optimized, serde_json), not executed".into(),
        ],
        required_classes: vec!["corpus:sequential-program", "corpus:program-with-processes", "tree-shake-removed-functions-and-types", "merged-behind-2+", "cli-extract-entry-path", "cli:real-quiv-subprocess-routes", "cli:output-compared-with-in-process-value", "entry-captures-binaries-and-closures", "entry-captures-closures-capturing-closures", "import:whole-module-value", "import:member-access-at-each-use", "import:destructured", "import:star", "import:inside-a-closure-and-as-value", "import:module-importing-a-module", "import:closures-capturing-binaries"],
        started,
        technique: "corpus programs + proptest-generated closure/module programs; oracle = differential across packaging variants (as compiled / tree-shaken / JSON round trip / CLI entry extraction / merged behind other programs) and import vs in-place module body",
    })
}

pub fn replay(payload: &serde_json::Value) -> Result<(), String> {
    let plan = plan_from_json(payload).ok_or("unreadable plan")?;
    let reg = qrun::registry();
    match exec(&plan, &reg) {
        Ok(f) if f.discarded => Err("case is discarded (does not compile / non-deterministic)".into()),
        Ok(_) => Ok(()),
        Err((sig, msg)) => Err(format!("{sig}: {}", truncate(&msg, 4000))),
    }
}
