//! E1 — compile helpers and the budgeted synchronous driver.

use crate::hval::{self, HVal, Tables};
use quiver_compiler::compiler::{Binding, ModuleCache};
use quiver_compiler::{Compiler, PackageResolver};
use quiver_core::bytecode::{Bytecode, Function};
use quiver_core::compatibility::{
    CompatibilityInput, compute_canonical_tuples, compute_param_compatibility, compute_type_compatibility,
};
use quiver_core::executor::{Executor, ProgramUpdate};
use quiver_core::program::Program;
use quiver_core::types::Type;
use quiver_core::value::Value;
use std::collections::HashMap;

pub type Eff = quiver_io::NativeEffect;
pub type Registry = quiver_core::builtins::BuiltinRegistry<Eff>;

pub fn registry() -> Registry {
    Registry::with_modules(&quiver_core::builtins::core_modules())
}

/// Registry with the native file builtins attached (they only build effect requests; the effects
/// themselves are served by whatever backend the environment has — here the mock one).
pub fn registry_io() -> Registry {
    let mut r = registry();
    quiver_io::attach_file_builtins(&mut r);
    r
}

#[derive(Debug, Clone)]
pub enum FrontError {
    Parse(String),
    Compile(String),
}

pub struct Compiled {
    pub program: Program,
    /// Index of the wrapper function holding the top-level instructions (None: type defs only).
    pub entry: Option<usize>,
    pub result_type: usize,
    pub receive_type: usize,
    pub bindings: HashMap<String, Binding>,
}

pub type Modules = HashMap<Vec<String>, String>;

pub fn modules_from(pairs: &[(&str, &str)]) -> Modules {
    pairs.iter().map(|(n, s)| (vec![n.to_string()], s.to_string())).collect()
}

/// Parse + compile `src` as a whole program (parameter = nil), the way the CLI does.
pub fn compile(src: &str, modules: &Modules, reg: &Registry) -> Result<Compiled, FrontError> {
    let ast = quiver_compiler::parse(src).map_err(|e| FrontError::Parse(format!("{e}")))?;
    compile_ast(ast, modules, reg)
}

pub fn compile_ast(
    ast: quiver_compiler::ast::Program,
    modules: &Modules,
    reg: &Registry,
) -> Result<Compiled, FrontError> {
    let mut program = Program::new();
    let mut module_cache = ModuleCache::new();
    let resolver = PackageResolver::memory(modules.clone());
    let process_types = HashMap::new();
    // the top-level parameter is nil (as the CLI does since its fix: `types::NIL` is a tuple id)
    let nil_param = program.register_type(Type::nil());
    let r = Compiler::compile(
        ast,
        &HashMap::new(),
        &mut module_cache,
        &resolver,
        &mut program,
        nil_param,
        &process_types,
        reg,
        None,
    )
    .map_err(|e| FrontError::Compile(format!("{:?}", e.error)))?;
    let entry = if r.instructions.is_empty() {
        None
    } else {
        let nil_type_id = program.register_type(Type::nil());
        let callable = program.register_type(Type::Callable {
            parameter: nil_type_id,
            result: r.result_type,
            receive: r.receive_type,
        });
        Some(program.register_function(Function {
            instructions: r.instructions,
            captures: 0,
            type_id: callable,
        }))
    };
    Ok(Compiled {
        program,
        entry,
        result_type: r.result_type,
        receive_type: r.receive_type,
        bindings: r.bindings,
    })
}

thread_local! { static WALL_HITS: std::cell::Cell<u64> = const { std::cell::Cell::new(0) }; }
/// Number of runs on this thread ended by the wall-clock limit (the only clock-dependent outcome;
/// checks that compare several runs of one program discard the case when this moved).
pub fn wall_hits() -> u64 {
    WALL_HITS.with(|w| w.get())
}

#[derive(Debug)]
pub enum RunEnd {
    Value(Value),
    Error(quiver_core::error::Error),
    /// Step budget exhausted.
    Diverged,
    /// No runnable process and no result (waiting on an action the sync driver cannot serve).
    Blocked,
}

pub struct Run {
    pub end: RunEnd,
    pub executor: Executor<Eff>,
    pub slices: u64,
}

pub fn program_update(bytecode: &Bytecode, param_compat: bool) -> ProgramUpdate {
    let input = CompatibilityInput {
        types: &bytecode.types,
        tuples: &bytecode.tuples,
        functions: &bytecode.functions,
        builtins: &bytecode.builtins,
        resource_names: &bytecode.resources,
    };
    let type_compatibility = compute_type_compatibility(&input);
    let canonical_tuples = compute_canonical_tuples(&bytecode.tuples);
    let (f, b) = if param_compat {
        compute_param_compatibility(&input)
    } else {
        (Vec::new(), Vec::new())
    };
    ProgramUpdate {
        constants: bytecode.constants.clone(),
        functions: bytecode.functions.clone(),
        tuples: bytecode.tuples[2..].to_vec(),
        types: bytecode.types.clone(),
        builtins: bytecode.builtins.clone(),
        resources: bytecode.resources.clone(),
        type_compatibility,
        function_param_compatibility: f,
        builtin_param_compatibility: b,
        canonical_tuples,
    }
}

pub const RUN_WALL_LIMIT_S: u64 = 20;

/// Run bytecode in a single executor (one process, actions dropped) with a quantum and a budget
/// counted in instruction units (approximately: slices × quantum).
pub fn run_sync(bytecode: &Bytecode, reg: &Registry, quantum: usize, budget_units: u64, profile: bool) -> Run {
    run_sync_hook(bytecode, reg, quantum, budget_units, profile, &mut |_| Ok(()))
}

/// As `run_sync`, calling `between(&executor)` after every slice; an Err aborts the run and is
/// returned as a pseudo runtime error `InvalidArgument("verif-hook: …")`.
pub fn run_sync_hook(
    bytecode: &Bytecode,
    reg: &Registry,
    quantum: usize,
    budget_units: u64,
    profile: bool,
    between: &mut dyn FnMut(&Executor<Eff>) -> Result<(), String>,
) -> Run {
    let entry = bytecode.entry.expect("entry");
    let mut executor = Executor::new(reg.clone(), profile, 0);
    executor.update_program(program_update(bytecode, true));
    let pid = 0;
    executor
        .spawn_process(pid, Some(entry), vec![], Value::nil(), vec![], false)
        .expect("spawn");
    let mut used: u64 = 0;
    let mut slices = 0u64;
    // The unit budget does not see the cost of a single instruction (a loop that multiplies an
    // ever-growing bignum stays within any instruction count for hours): a wall-clock limit,
    // checked between slices, also ends the run as Diverged — inconclusive, never a verdict.
    let deadline = std::time::Instant::now() + std::time::Duration::from_secs(RUN_WALL_LIMIT_S);
    loop {
        if slices % 16 == 15 && std::time::Instant::now() > deadline {
            WALL_HITS.with(|w| w.set(w.get() + 1));
            return Run { end: RunEnd::Diverged, executor, slices };
        }
        let (did, _action) = executor.step(quantum, 0);
        slices += 1;
        used += quantum.min(1000) as u64;
        if let Err(m) = between(&executor) {
            return Run {
                end: RunEnd::Error(quiver_core::error::Error::InvalidArgument(format!("verif-hook: {m}"))),
                executor,
                slices,
            };
        }
        let p = executor.get_process(pid).expect("process");
        if let Some(r) = &p.result {
            let end = match r {
                Ok(v) => RunEnd::Value(v.clone()),
                Err(e) => RunEnd::Error(e.clone()),
            };
            return Run { end, executor, slices };
        }
        if !did && !executor.has_runnable() {
            return Run { end: RunEnd::Blocked, executor, slices };
        }
        if used >= budget_units {
            return Run { end: RunEnd::Diverged, executor, slices };
        }
    }
}

/// Convenience: compile + run + convert to a host value.
pub enum Outcome {
    Front(FrontError),
    NoCode,
    Val(HVal),
    Err(quiver_core::error::Error),
    Diverged,
    Blocked,
}

pub fn eval_source(src: &str, modules: &Modules, reg: &Registry, quantum: usize, budget: u64) -> Outcome {
    let c = match compile(src, modules, reg) {
        Ok(c) => c,
        Err(e) => return Outcome::Front(e),
    };
    let Some(entry) = c.entry else { return Outcome::NoCode };
    let bc = c.program.to_bytecode(Some(entry));
    let run = run_sync(&bc, reg, quantum, budget, false);
    match run.end {
        RunEnd::Value(v) => {
            let t = Tables { tuples: &bc.tuples, constants: &bc.constants };
            Outcome::Val(hval::from_executor(&v, &run.executor, &t))
        }
        RunEnd::Error(e) => Outcome::Err(e),
        RunEnd::Diverged => Outcome::Diverged,
        RunEnd::Blocked => Outcome::Blocked,
    }
}

impl std::fmt::Debug for Outcome {
    fn fmt(&self, f: &mut std::fmt::Formatter<'_>) -> std::fmt::Result {
        match self {
            Outcome::Front(e) => write!(f, "Front({e:?})"),
            Outcome::NoCode => write!(f, "NoCode"),
            Outcome::Val(v) => write!(f, "Val({v})"),
            Outcome::Err(e) => write!(f, "Err({e:?})"),
            Outcome::Diverged => write!(f, "Diverged"),
            Outcome::Blocked => write!(f, "Blocked"),
        }
    }
}
