//! E5b — value semantics of types as they are represented in a `Program`: bounded enumeration
//! of the values of a type and an `inhabits` predicate, both interpreting `Type::Cycle(k)` as the
//! k-th enclosing boundary (union or callable) on the path from the root, which is how
//! `typing.rs` documents and produces it.
//!
//! Exactness. `inhabits` never answers "no" wrongly. It may answer "yes" wrongly only where it
//! says so through `Verdict::exact == false`: function tokens compared through a bounded subset
//! test, dangling cycles and type variables (read permissively).

use quiver_core::types::{Type, TypeLookup};

#[derive(Clone, Debug, PartialEq, Eq, Hash)]
pub enum V {
    Int(i64),
    Bin(Vec<u8>),
    Ref(u32),
    Tup { name: Option<String>, fields: Vec<(Option<String>, V)> },
    /// the canonical function of a callable type: declared with exactly that type (id + context)
    FnTok { id: usize, ctx: Vec<usize> },
    /// a process handle, modelled covariantly as (a message it accepts, a result it yields)
    ProcTok(Box<V>, Box<V>),
}

impl V {
    pub fn first_order(&self) -> bool {
        match self {
            V::FnTok { .. } | V::ProcTok(..) => false,
            V::Tup { fields, .. } => fields.iter().all(|(_, v)| v.first_order()),
            _ => true,
        }
    }
    pub fn depth(&self) -> usize {
        match self {
            V::Tup { fields, .. } => 1 + fields.iter().map(|(_, v)| v.depth()).max().unwrap_or(0),
            V::ProcTok(a, b) => 1 + a.depth().max(b.depth()),
            _ => 0,
        }
    }
    /// Quiver literal syntax (first-order values only).
    pub fn source(&self) -> String {
        match self {
            V::Int(i) => i.to_string(),
            V::Bin(b) => {
                if b.is_empty() {
                    // there is no empty hex literal
                    "[0xff, 0] __binary_repeat__".into()
                } else {
                    format!("0x{}", b.iter().map(|x| format!("{x:02x}")).collect::<String>())
                }
            }
            V::Tup { name, fields } => {
                let fs: Vec<String> = fields.iter().map(|(l, v)| match l {
                    Some(l) => format!("{l}: {}", v.source()),
                    None => v.source(),
                }).collect();
                match (name, fs.is_empty()) {
                    (Some(n), true) => n.clone(),
                    (Some(n), false) => format!("{n}[{}]", fs.join(", ")),
                    (None, _) => format!("[{}]", fs.join(", ")),
                }
            }
            other => format!("<{other:?}>"),
        }
    }
}

impl std::fmt::Display for V {
    fn fmt(&self, f: &mut std::fmt::Formatter<'_>) -> std::fmt::Result {
        match self {
            V::Int(i) => write!(f, "{i}"),
            V::Bin(b) => write!(f, "0x{}", b.iter().map(|x| format!("{x:02x}")).collect::<String>()),
            V::Ref(r) => write!(f, "ref#{r}"),
            V::Tup { name, fields } => {
                write!(f, "{}[", name.clone().unwrap_or_default())?;
                for (i, (l, v)) in fields.iter().enumerate() {
                    if i > 0 {
                        write!(f, ", ")?;
                    }
                    if let Some(l) = l {
                        write!(f, "{l}: ")?;
                    }
                    write!(f, "{v}")?;
                }
                write!(f, "]")
            }
            V::FnTok { id, .. } => write!(f, "<the canonical function of type #{id}>"),
            V::ProcTok(a, b) => write!(f, "<process accepting {a} yielding {b}>"),
        }
    }
}

#[derive(Clone, Copy, Debug, PartialEq)]
pub struct Verdict {
    pub yes: bool,
    /// false when a "yes" rests on a bounded / permissive reading
    pub exact: bool,
}

const YES: Verdict = Verdict { yes: true, exact: true };
const NO: Verdict = Verdict { yes: false, exact: true };
const MAYBE_YES: Verdict = Verdict { yes: true, exact: false };

fn and(a: Verdict, b: Verdict) -> Verdict {
    if !a.yes {
        return a;
    }
    if !b.yes {
        return b;
    }
    Verdict { yes: true, exact: a.exact && b.exact }
}

pub const CAP: usize = 28;

/// Values of type `id` in context `ctx` (enclosing boundary ids, outermost first), tuple nesting
/// bounded by `depth`. Always a subset of the type's values.
pub fn enumerate<L: TypeLookup>(id: usize, ctx: &[usize], depth: usize, l: &L) -> Vec<V> {
    let mut fuel = 4000usize;
    enum_go(id, ctx, depth, l, &mut fuel)
}

fn enum_go<L: TypeLookup>(id: usize, ctx: &[usize], depth: usize, l: &L, fuel: &mut usize) -> Vec<V> {
    if *fuel == 0 {
        return vec![];
    }
    *fuel -= 1;
    let Some(t) = l.lookup_type(id) else { return vec![] };
    match t {
        Type::Integer => vec![V::Int(0), V::Int(7)],
        Type::Binary => vec![V::Bin(vec![]), V::Bin(vec![0xab])],
        Type::Reference => vec![V::Ref(1)],
        Type::Resource(_) | Type::Variable(_) => vec![],
        Type::Tuple(tid) => {
            let Some(info) = l.lookup_tuple(*tid) else { return vec![] };
            if info.fields.is_empty() {
                return vec![V::Tup { name: info.name.clone(), fields: vec![] }];
            }
            if depth == 0 {
                return vec![];
            }
            let cols: Vec<Vec<V>> = info.fields.iter().map(|(_, ft)| enum_go(*ft, ctx, depth - 1, l, fuel)).collect();
            if cols.iter().any(|c| c.is_empty()) {
                return vec![];
            }
            product(&cols, CAP)
                .into_iter()
                .map(|vals| V::Tup { name: info.name.clone(), fields: info.fields.iter().map(|(n, _)| n.clone()).zip(vals).collect() })
                .collect()
        }
        Type::Partial { name, fields } => {
            if depth == 0 {
                return vec![];
            }
            let cols: Vec<Vec<V>> = fields.iter().map(|(_, ft)| enum_go(*ft, ctx, depth - 1, l, fuel)).collect();
            if cols.iter().any(|c| c.is_empty()) {
                return vec![];
            }
            let mut out = Vec::new();
            for (i, vals) in product(&cols, CAP / 2).into_iter().enumerate() {
                let base: Vec<(Option<String>, V)> = fields.iter().map(|(n, _)| Some(n.clone())).zip(vals).collect();
                let nm = |alt: &str| name.clone().or_else(|| if alt.is_empty() { None } else { Some(alt.to_string()) });
                match i % 4 {
                    0 => out.push(V::Tup { name: nm(""), fields: base.clone() }),
                    1 => {
                        // an extra unlabelled field in front
                        let mut f = vec![(None, V::Int(3))];
                        f.extend(base.clone());
                        out.push(V::Tup { name: nm("Q"), fields: f });
                    }
                    2 => {
                        // an extra labelled field behind, fields reversed
                        let mut f: Vec<_> = base.clone().into_iter().rev().collect();
                        f.push((Some("w".into()), V::Bin(vec![1])));
                        out.push(V::Tup { name: nm(""), fields: f });
                    }
                    _ => out.push(V::Tup { name: nm("A"), fields: base.clone() }),
                }
            }
            out
        }
        Type::Union(vs) => {
            let mut inner = ctx.to_vec();
            inner.push(id);
            let lists: Vec<Vec<V>> = vs.iter().map(|v| enum_go(*v, &inner, depth, l, fuel)).collect();
            // round-robin so that every variant is represented under the cap
            let mut out = Vec::new();
            let mut i = 0;
            loop {
                let mut any = false;
                for lst in &lists {
                    if let Some(v) = lst.get(i) {
                        any = true;
                        if !out.contains(v) {
                            out.push(v.clone());
                        }
                    }
                }
                if !any || out.len() >= CAP {
                    break;
                }
                i += 1;
            }
            out.truncate(CAP);
            out
        }
        Type::Callable { .. } => vec![V::FnTok { id, ctx: ctx.to_vec() }],
        Type::Process { send: Some(s), receive: Some(r) } => {
            if depth == 0 {
                return vec![];
            }
            let a = enum_go(*s, ctx, depth - 1, l, fuel);
            let b = enum_go(*r, ctx, depth - 1, l, fuel);
            if a.is_empty() || b.is_empty() {
                return vec![];
            }
            product(&[a, b], 6).into_iter().map(|mut p| {
                let y = p.pop().unwrap();
                let x = p.pop().unwrap();
                V::ProcTok(Box::new(x), Box::new(y))
            }).collect()
        }
        Type::Process { .. } => vec![],
        Type::Cycle(k) => {
            if *k == 0 || *k > ctx.len() {
                return vec![];
            }
            let at = ctx.len() - *k;
            enum_go(ctx[at], &ctx[..at], depth, l, fuel)
        }
    }
}

/// Up to `cap` rows of the cartesian product, spread so that every column value appears.
fn product(cols: &[Vec<V>], cap: usize) -> Vec<Vec<V>> {
    let total: usize = cols.iter().map(|c| c.len()).product();
    let mut out = Vec::new();
    if total <= cap {
        for mut i in 0..total {
            let mut row = Vec::with_capacity(cols.len());
            for c in cols {
                row.push(c[i % c.len()].clone());
                i /= c.len();
            }
            out.push(row);
        }
        return out;
    }
    // diagonal rows first (row r takes value r mod len in every column), then a strided walk
    let maxlen = cols.iter().map(|c| c.len()).max().unwrap_or(0);
    for r in 0..maxlen.min(cap) {
        out.push(cols.iter().map(|c| c[r % c.len()].clone()).collect());
    }
    let stride = (total / cap).max(1) | 1;
    let mut i = 1usize;
    while out.len() < cap {
        let mut k = i % total;
        let mut row = Vec::with_capacity(cols.len());
        for c in cols {
            row.push(c[k % c.len()].clone());
            k /= c.len();
        }
        if !out.contains(&row) {
            out.push(row);
        }
        i += stride;
        if i > total * 2 {
            break;
        }
    }
    out
}

pub fn inhabits<L: TypeLookup>(v: &V, id: usize, ctx: &[usize], l: &L) -> Verdict {
    inh(v, id, ctx, l, 2)
}

fn inh<L: TypeLookup>(v: &V, id: usize, ctx: &[usize], l: &L, fuel: usize) -> Verdict {
    let Some(t) = l.lookup_type(id) else { return NO };
    match (t, v) {
        (Type::Variable(_), _) => MAYBE_YES,
        (Type::Cycle(k), _) => {
            if *k == 0 || *k > ctx.len() {
                return MAYBE_YES; // dangling: the checker reads it as "anything"
            }
            let at = ctx.len() - *k;
            inh(v, ctx[at], &ctx[..at], l, fuel)
        }
        (Type::Union(vs), _) => {
            let mut inner = ctx.to_vec();
            inner.push(id);
            let mut best = NO;
            for x in vs {
                let r = inh(v, *x, &inner, l, fuel);
                if r.yes {
                    if r.exact {
                        return r;
                    }
                    best = r;
                }
            }
            best
        }
        (Type::Integer, V::Int(_)) | (Type::Binary, V::Bin(_)) | (Type::Reference, V::Ref(_)) => YES,
        (Type::Tuple(tid), V::Tup { name, fields }) => {
            let Some(info) = l.lookup_tuple(*tid) else { return NO };
            if info.name != *name || info.fields.len() != fields.len() {
                return NO;
            }
            let mut acc = YES;
            for ((ln, ft), (vn, fv)) in info.fields.iter().zip(fields.iter()) {
                if ln != vn {
                    return NO;
                }
                acc = and(acc, inh(fv, *ft, ctx, l, fuel));
                if !acc.yes {
                    return acc;
                }
            }
            acc
        }
        (Type::Partial { name, fields: pf }, V::Tup { name: vn, fields }) => {
            if let Some(n) = name
                && vn.as_ref() != Some(n)
            {
                return NO;
            }
            let mut acc = YES;
            for (pl, pt) in pf {
                let Some((_, fv)) = fields.iter().find(|(l, _)| l.as_ref() == Some(pl)) else { return NO };
                acc = and(acc, inh(fv, *pt, ctx, l, fuel));
                if !acc.yes {
                    return acc;
                }
            }
            acc
        }
        (Type::Callable { parameter, result, receive }, V::FnTok { id: fid, ctx: fctx }) => {
            if *fid == id && fctx.as_slice() == ctx {
                return YES;
            }
            if fuel == 0 {
                return MAYBE_YES;
            }
            let Some(Type::Callable { parameter: fp, result: fr, receive: frecv }) = l.lookup_type(*fid) else { return NO };
            let mut pctx = ctx.to_vec();
            pctx.push(id);
            let mut tctx = fctx.clone();
            tctx.push(*fid);
            // the pattern's parameters must be accepted by the function; its results must be the
            // pattern's results; the pattern's receive type must be accepted by the function
            if !subset(*parameter, &pctx, *fp, &tctx, l, fuel - 1) {
                return NO;
            }
            if !subset(*fr, &tctx, *result, &pctx, l, fuel - 1) {
                return NO;
            }
            if !subset(*receive, &pctx, *frecv, &tctx, l, fuel - 1) {
                return NO;
            }
            MAYBE_YES
        }
        (Type::Process { send, receive }, V::ProcTok(a, b)) => {
            let s = match send {
                Some(s) => inh(a, *s, ctx, l, fuel),
                None => MAYBE_YES,
            };
            let r = match receive {
                Some(r) => inh(b, *r, ctx, l, fuel),
                None => MAYBE_YES,
            };
            and(s, r)
        }
        _ => NO,
    }
}

/// Bounded containment: every enumerated value of X is in Y. A `false` is exact.
fn subset<L: TypeLookup>(x: usize, xctx: &[usize], y: usize, yctx: &[usize], l: &L, fuel: usize) -> bool {
    let mut f = 600usize;
    enum_go(x, xctx, 2, l, &mut f).iter().all(|v| inh(v, y, yctx, l, fuel).yes)
}

/// Membership of a run-time host value in a type of a compiled program. Functions, processes and
/// refs are accepted wherever a callable / process / ref type is expected (their internals are not
/// inspected); a dangling cycle or a type variable accepts anything. A `false` is exact.
pub fn hval_inhabits<L: TypeLookup>(h: &crate::hval::HVal, id: usize, ctx: &[usize], l: &L) -> bool {
    use crate::hval::HVal;
    let Some(t) = l.lookup_type(id) else { return false };
    match (t, h) {
        (Type::Variable(_), _) => true,
        (Type::Cycle(k), _) => {
            if *k == 0 || *k > ctx.len() {
                return true;
            }
            let at = ctx.len() - *k;
            hval_inhabits(h, ctx[at], &ctx[..at], l)
        }
        (Type::Union(vs), _) => {
            let mut inner = ctx.to_vec();
            inner.push(id);
            vs.iter().any(|x| hval_inhabits(h, *x, &inner, l))
        }
        (Type::Integer, HVal::Int(_)) | (Type::Binary, HVal::Bin(_)) | (Type::Reference, HVal::Ref(_)) => true,
        (Type::Tuple(tid), HVal::Tuple(name, fields)) => {
            let Some(info) = l.lookup_tuple(*tid) else { return false };
            info.name == *name && info.fields.len() == fields.len() && info.fields.iter().zip(fields.iter()).all(|((ln, ft), (vn, fv))| ln == vn && hval_inhabits(fv, *ft, ctx, l))
        }
        (Type::Partial { name, fields: pf }, HVal::Tuple(vn, fields)) => {
            if let Some(n) = name
                && vn.as_ref() != Some(n)
            {
                return false;
            }
            pf.iter().all(|(pl, pt)| fields.iter().find(|(l2, _)| l2.as_ref() == Some(pl)).is_some_and(|(_, fv)| hval_inhabits(fv, *pt, ctx, l)))
        }
        (Type::Callable { .. }, HVal::Fn(..)) | (Type::Callable { .. }, HVal::Builtin(_)) => true,
        (Type::Process { .. }, HVal::Proc(_)) => true,
        (Type::Resource(_), HVal::Res(_)) => true,
        _ => false,
    }
}
