//! E7 — packaging variants: run one compiled program as compiled, tree-shaken, after a JSON round
//! trip, through the CLI's extract-entry path, and merged into an environment that already holds
//! other programs. Results are host values (names and labels, never ids).

use crate::fw::catch;
use crate::hval::{self, HVal, Tables};
use crate::qrun::{self, Compiled, Modules, Registry, RunEnd};
use crate::sim::{Sim, SimCfg, SimEnd};
use quiver_core::bytecode::{Bytecode, Function};
use quiver_core::program::Program;
use quiver_core::types::Type;
use quiver_core::value::Value;

#[derive(Clone, Debug, PartialEq)]
pub enum Res {
    Val(HVal),
    /// runtime error, by debug text
    Err(String),
    Diverged,
    Blocked,
    /// the packaging step itself failed (panic, rejected bytecode, serde error …)
    Broken(String),
}

impl Res {
    pub fn show(&self) -> String {
        match self {
            Res::Val(v) => v.full(),
            Res::Err(e) => format!("runtime error {e}"),
            Res::Diverged => "<diverged>".into(),
            Res::Blocked => "<blocked>".into(),
            Res::Broken(m) => format!("<packaging failed: {m}>"),
        }
    }
    /// Configuration-independent form (function indices stripped).
    pub fn canon(&self) -> Res {
        match self {
            Res::Val(v) => Res::Val(v.canon_ids()),
            other => other.clone(),
        }
    }
}

pub const BUDGET: u64 = 40_000_000;

pub fn run_sync_res(bc: &Bytecode, reg: &Registry) -> Res {
    if bc.entry.is_none() {
        return Res::Broken("no entry".into());
    }
    match catch(|| qrun::run_sync(bc, reg, 1000, BUDGET, false)) {
        Err(p) => Res::Broken(format!("panic: {p}")),
        Ok(run) => match run.end {
            RunEnd::Value(v) => {
                let t = Tables { tuples: &bc.tuples, constants: &bc.constants };
                Res::Val(hval::from_executor(&v, &run.executor, &t))
            }
            RunEnd::Error(e) => Res::Err(format!("{e:?}")),
            RunEnd::Diverged => Res::Diverged,
            RunEnd::Blocked => Res::Blocked,
        },
    }
}

/// serde_json write → read; Err if the two differ as JSON values or reading fails.
pub fn json_roundtrip(bc: &Bytecode) -> Result<Bytecode, String> {
    let text = serde_json::to_string(bc).map_err(|e| format!("serialise: {e}"))?;
    let back: Bytecode = serde_json::from_str(&text).map_err(|e| format!("deserialise: {e}"))?;
    let a = serde_json::to_value(bc).map_err(|e| e.to_string())?;
    let b = serde_json::to_value(&back).map_err(|e| e.to_string())?;
    if a != b {
        return Err("bytecode differs after a JSON round trip".into());
    }
    Ok(back)
}

/// Run `bc` in a simulated environment (2 workers) that first merged and ran `before`.
pub fn run_merged(bc: &Bytecode, before: &[Bytecode], workers: usize, reg: &Registry) -> Res {
    let r = catch(|| {
        let mut sim = Sim::new(SimCfg { workers, quanta: vec![1000], schedule: vec![], max_moves: 400_000, env_slow: 0 }, reg, None);
        for b in before {
            if let Ok((_pid, rid)) = sim.start(b.clone()) {
                let mut done = false;
                let _ = sim.run_until(
                    |s| {
                        if !done && s.poll(rid).is_some() {
                            done = true;
                        }
                        done
                    },
                    |_, _| Ok(()),
                );
            }
        }
        let (_pid, rid) = match sim.start(bc.clone()) {
            Ok(x) => x,
            Err(e) => return Res::Broken(format!("start_process: {e}")),
        };
        let mut result = None;
        let end = sim.run_until(
            |s| {
                if result.is_none()
                    && let Some(r) = s.poll(rid)
                {
                    result = Some(match r {
                        Ok((v, heap)) => Res::Val(s.tables_hval(&v, &heap)),
                        Err(e) => Res::Err(format!("{e:?}")),
                    });
                }
                result.is_some()
            },
            |_, _| Ok(()),
        );
        match (result, end) {
            (Some(r), _) => r,
            (None, SimEnd::Budget) => Res::Diverged,
            (None, SimEnd::Quiescent) => Res::Blocked,
            (None, other) => Res::Broken(format!("{other:?}")),
        }
    });
    match r {
        Ok(r) => r,
        Err(p) => Res::Broken(format!("panic: {p}")),
    }
}

/// The CLI's `compile_and_extract_entry`: the program must evaluate to a function, which
/// (with its captures injected) becomes the entry.
pub fn extract_entry(c: &Compiled, reg: &Registry) -> Result<(Program, usize), String> {
    let entry = c.entry.ok_or("no code")?;
    let mut program = c.program.clone();
    let bc = program.to_bytecode(Some(entry));
    let run = catch(|| quiver_core::execute_bytecode_sync(bc, reg, false)).map_err(|p| format!("panic: {p}"))?;
    let (result, executor) = run.map_err(|e| format!("execution error: {e:?}"))?;
    match result {
        Value::Function(func_index, captures) => {
            let e = if captures.is_empty() {
                func_index
            } else {
                catch(std::panic::AssertUnwindSafe(|| program.inject_function_captures(func_index, (*captures).clone(), &executor))).map_err(|p| format!("inject_function_captures panicked: {p}"))?
            };
            Ok((program, e))
        }
        _ => Err("not a function".into()),
    }
}

#[derive(Clone, Debug)]
pub struct VariantRun {
    pub name: &'static str,
    pub res: Res,
}

pub struct ShakeFacts {
    pub functions_removed: usize,
    pub types_removed: usize,
    pub constants_removed: usize,
}

/// All packaging variants of a whole program (its top-level value is the result).
pub fn run_all(c: &Compiled, before: &[Bytecode], reg: &Registry) -> (Vec<VariantRun>, Option<ShakeFacts>) {
    let mut out = Vec::new();
    let Some(entry) = c.entry else { return (out, None) };
    let plain = c.program.to_bytecode(Some(entry));
    out.push(VariantRun { name: "as-compiled", res: run_sync_res(&plain, reg) });
    let mut facts = None;
    match catch(|| c.program.to_bytecode_optimized(entry)) {
        Ok(opt) => {
            facts = Some(ShakeFacts {
                functions_removed: plain.functions.len().saturating_sub(opt.functions.len()),
                types_removed: plain.types.len().saturating_sub(opt.types.len()),
                constants_removed: plain.constants.len().saturating_sub(opt.constants.len()),
            });
            out.push(VariantRun { name: "tree-shaken", res: run_sync_res(&opt, reg) });
            match json_roundtrip(&opt) {
                Ok(back) => out.push(VariantRun { name: "tree-shaken+json", res: run_sync_res(&back, reg) }),
                Err(e) => out.push(VariantRun { name: "tree-shaken+json", res: Res::Broken(e) }),
            }
            out.push(VariantRun { name: "tree-shaken+merged", res: run_merged(&opt, before, 2, reg) });
        }
        Err(p) => out.push(VariantRun { name: "tree-shaken", res: Res::Broken(format!("tree_shake panicked: {p}")) }),
    }
    match json_roundtrip(&plain) {
        Ok(back) => out.push(VariantRun { name: "json", res: run_sync_res(&back, reg) }),
        Err(e) => out.push(VariantRun { name: "json", res: Res::Broken(e) }),
    }
    out.push(VariantRun { name: "merged", res: run_merged(&plain, before, 2, reg) });
    (out, facts)
}

/// Compile helper for `before` programs: bytecode of a source (plain or optimised by parity).
pub fn bytecode_of(src: &str, modules: &Modules, reg: &Registry, optimise: bool) -> Option<Bytecode> {
    let c = catch(|| qrun::compile(src, modules, reg)).ok()?.ok()?;
    let e = c.entry?;
    Some(if optimise { catch(|| c.program.to_bytecode_optimized(e)).ok()? } else { c.program.to_bytecode(Some(e)) })
}

/// Register a wrapper function around an extracted entry so that it can be run like a program.
pub fn entry_bytecode(program: &Program, entry: usize, optimise: bool) -> Result<Bytecode, String> {
    if optimise {
        catch(|| program.to_bytecode_optimized(entry)).map_err(|p| format!("tree_shake panicked: {p}"))
    } else {
        Ok(program.to_bytecode(Some(entry)))
    }
}

#[allow(dead_code)]
pub fn wrapper(program: &mut Program, instructions: Vec<quiver_core::bytecode::Instruction>, result: usize, receive: usize) -> usize {
    let nil = program.register_type(Type::nil());
    let callable = program.register_type(Type::Callable { parameter: nil, result, receive });
    program.register_function(Function { instructions, captures: 0, type_id: callable })
}
