//! E6 — bytecode verifier: work-list abstract interpretation per function over
//! (operand-stack height relative to frame entry, [min,max] number of defined locals).

use quiver_core::bytecode::{Bytecode, Function, Instruction};
use quiver_core::types::{TupleTypeInfo, Type};
use std::collections::BTreeMap;

#[derive(Clone, Copy, Debug, PartialEq, Eq)]
pub struct AbsState {
    pub height: i64,
    pub lmin: usize,
    pub lmax: usize,
}

#[derive(Clone, Debug)]
pub struct Issue {
    pub function: usize,
    pub pc: usize,
    pub kind: &'static str,
    pub detail: String,
}

pub struct Tables<'a> {
    pub constants: usize,
    pub functions: &'a [Function],
    pub builtins: usize,
    pub tuples: &'a [TupleTypeInfo],
    pub types: &'a [Type],
}

impl<'a> Tables<'a> {
    pub fn of_bytecode(b: &'a Bytecode) -> Self {
        Tables {
            constants: b.constants.len(),
            functions: &b.functions,
            builtins: b.builtins.len(),
            tuples: &b.tuples,
            types: &b.types,
        }
    }
}

#[derive(Default, Clone, Debug)]
pub struct FnFacts {
    pub joins: usize,
    pub conditional_store: bool,
    pub interval_join: bool,
    pub has_tail_call: bool,
    pub has_reset: bool,
}

pub struct FnResult {
    pub states: BTreeMap<usize, AbsState>,
    pub issues: Vec<Issue>,
    pub facts: FnFacts,
}

/// Verify one function. Returns abstract states per reachable pc (including pc == len).
pub fn verify_function(fi: usize, f: &Function, t: &Tables) -> FnResult {
    let code = &f.instructions;
    let len = code.len();
    let mut states: BTreeMap<usize, AbsState> = BTreeMap::new();
    let mut preds: BTreeMap<usize, usize> = BTreeMap::new();
    let mut issues: Vec<Issue> = Vec::new();
    let mut facts = FnFacts::default();
    let mut work: Vec<usize> = vec![0];
    states.insert(0, AbsState { height: 1, lmin: f.captures, lmax: f.captures });
    let mut iterations = 0usize;
    let mut seen_branch = false;
    // A body-less function (identity) is legal: it leaves its argument as the result.
    while let Some(pc) = work.pop() {
        iterations += 1;
        if iterations > 200_000 {
            issues.push(Issue { function: fi, pc, kind: "no-fixpoint", detail: "abstract interpretation did not converge".into() });
            break;
        }
        if pc >= len {
            continue;
        }
        let st = states[&pc];
        let ins = code[pc];
        let mut h = st.height;
        let (mut lmin, mut lmax) = (st.lmin, st.lmax);
        let mut succ: Vec<usize> = Vec::new();
        let mut need = |n: i64, h: i64, issues: &mut Vec<Issue>| {
            if h < n {
                issues.push(Issue {
                    function: fi,
                    pc,
                    kind: "stack-underflow",
                    detail: format!("{ins:?} needs {n} operand(s), height is {h}"),
                });
                false
            } else {
                true
            }
        };
        let mut terminal = false;
        match ins {
            Instruction::Constant(i) => {
                if i >= t.constants {
                    issues.push(Issue { function: fi, pc, kind: "index-out-of-range", detail: format!("Constant({i}) of {}", t.constants) });
                }
                h += 1;
            }
            Instruction::Pop => {
                need(1, h, &mut issues);
                h -= 1;
            }
            Instruction::Duplicate => {
                need(1, h, &mut issues);
                h += 1;
            }
            Instruction::Pick(n) => {
                need(n as i64 + 1, h, &mut issues);
                h += 1;
            }
            Instruction::Rotate(n) => {
                need(n as i64, h, &mut issues);
                if n == 0 {
                    issues.push(Issue { function: fi, pc, kind: "bad-operand", detail: "Rotate(0)".into() });
                }
            }
            Instruction::Reset(i) => {
                facts.has_reset = true;
                if i > lmin {
                    issues.push(Issue {
                        function: fi,
                        pc,
                        kind: "reset-beyond-locals",
                        detail: format!("Reset({i}) but only {lmin} local(s) are defined on every path here"),
                    });
                }
                lmin = i;
                lmax = i;
            }
            Instruction::Load(i) => {
                if i >= lmin {
                    issues.push(Issue {
                        function: fi,
                        pc,
                        kind: "load-undefined-local",
                        detail: format!("Load({i}) but only {lmin} local(s) are defined on every path here (max {lmax})"),
                    });
                }
                h += 1;
            }
            Instruction::Store => {
                need(1, h, &mut issues);
                h -= 1;
                lmin += 1;
                lmax += 1;
                if seen_branch {
                    facts.conditional_store = true;
                }
            }
            Instruction::Tuple(id) => match t.tuples.get(id) {
                Some(info) => {
                    let n = info.fields.len() as i64;
                    need(n, h, &mut issues);
                    h = h - n + 1;
                }
                None => {
                    issues.push(Issue { function: fi, pc, kind: "index-out-of-range", detail: format!("Tuple({id}) of {}", t.tuples.len()) });
                    h += 1;
                }
            },
            Instruction::Get(_) | Instruction::Not => {
                need(1, h, &mut issues);
            }
            Instruction::IsType(ty) => {
                if ty >= t.types.len() {
                    issues.push(Issue { function: fi, pc, kind: "index-out-of-range", detail: format!("IsType({ty}) of {}", t.types.len()) });
                }
                need(1, h, &mut issues);
            }
            Instruction::Jump(off) => {
                let target = pc as i64 + off as i64 + 1;
                if target < 0 || target > len as i64 {
                    issues.push(Issue { function: fi, pc, kind: "jump-out-of-function", detail: format!("Jump({off}) from {pc} to {target}, len {len}") });
                } else {
                    succ.push(target as usize);
                }
                terminal = true;
            }
            Instruction::JumpIf(off) => {
                need(1, h, &mut issues);
                h -= 1;
                seen_branch = true;
                let target = pc as i64 + off as i64 + 1;
                if target < 0 || target > len as i64 {
                    issues.push(Issue { function: fi, pc, kind: "jump-out-of-function", detail: format!("JumpIf({off}) from {pc} to {target}, len {len}") });
                } else {
                    succ.push(target as usize);
                }
            }
            Instruction::Call => {
                need(2, h, &mut issues);
                h -= 1;
            }
            Instruction::TailCall(recurse) => {
                facts.has_tail_call = true;
                let want = if recurse { 1 } else { 2 };
                if h != want {
                    issues.push(Issue {
                        function: fi,
                        pc,
                        kind: "tail-call-height",
                        detail: format!("TailCall({recurse}) reached with operand height {h}, expected exactly {want}"),
                    });
                }
                terminal = true;
            }
            Instruction::Function(fx) => match t.functions.get(fx) {
                Some(callee) => {
                    let n = callee.captures as i64;
                    need(n, h, &mut issues);
                    h = h - n + 1;
                }
                None => {
                    issues.push(Issue { function: fi, pc, kind: "index-out-of-range", detail: format!("Function({fx}) of {}", t.functions.len()) });
                    h += 1;
                }
            },
            Instruction::Builtin(b) => {
                if b >= t.builtins {
                    issues.push(Issue { function: fi, pc, kind: "index-out-of-range", detail: format!("Builtin({b}) of {}", t.builtins) });
                }
                h += 1;
            }
            Instruction::Equal(n) => {
                if n == 0 {
                    issues.push(Issue { function: fi, pc, kind: "bad-operand", detail: "Equal(0)".into() });
                }
                need(n as i64, h, &mut issues);
                h = h - n as i64 + 1;
            }
            Instruction::Spawn | Instruction::Send => {
                need(2, h, &mut issues);
                h -= 1;
            }
            Instruction::Self_ => h += 1,
            Instruction::Select => {
                need(1, h, &mut issues);
            }
            Instruction::Process(_, fx) => {
                if fx >= t.functions.len() {
                    issues.push(Issue { function: fi, pc, kind: "index-out-of-range", detail: format!("Process(_, {fx}) of {}", t.functions.len()) });
                }
                h += 1;
            }
        }
        if !terminal {
            succ.push(pc + 1);
        }
        for s in succ {
            let new = AbsState { height: h, lmin, lmax };
            *preds.entry(s).or_insert(0) += 1;
            match states.get(&s).copied() {
                None => {
                    states.insert(s, new);
                    work.push(s);
                }
                Some(old) => {
                    if old.height != new.height {
                        issues.push(Issue {
                            function: fi,
                            pc: s,
                            kind: "join-height-mismatch",
                            detail: format!("paths reach pc {s} with operand heights {} and {} (from pc {pc})", old.height, new.height),
                        });
                        continue;
                    }
                    let merged = AbsState { height: old.height, lmin: old.lmin.min(new.lmin), lmax: old.lmax.max(new.lmax) };
                    if merged != old {
                        if merged.lmin != merged.lmax {
                            facts.interval_join = true;
                        }
                        states.insert(s, merged);
                        work.push(s);
                    }
                }
            }
        }
        if issues.len() > 20 {
            break;
        }
    }
    facts.joins = preds.values().filter(|c| **c > 1).count();
    // Exit state: exactly one result.
    match states.get(&len) {
        Some(end) => {
            if end.height != 1 {
                issues.push(Issue {
                    function: fi,
                    pc: len,
                    kind: "exit-height",
                    detail: format!("function falls off its end with operand height {} (must consume its argument and leave exactly one result)", end.height),
                });
            }
        }
        None => {
            // Every path ends in a tail call (or the function is unreachable at its end): fine.
        }
    }
    // Callable type
    match t.types.get(f.type_id) {
        Some(Type::Callable { .. }) => {}
        Some(other) => issues.push(Issue { function: fi, pc: 0, kind: "function-type", detail: format!("type_id {} is {other:?}, not a callable", f.type_id) }),
        None => issues.push(Issue { function: fi, pc: 0, kind: "index-out-of-range", detail: format!("function type_id {} of {}", f.type_id, t.types.len()) }),
    }
    FnResult { states, issues, facts }
}


/// Nil-ness of an operand-stack slot in the path-sensitive refinement below.
#[derive(Clone, Copy, PartialEq, Eq, PartialOrd, Ord, Debug)]
enum Av {
    Nil,
    NonNil,
    Unk,
    /// same nil-ness as the slot directly below (a `Duplicate`)
    SameBelow,
    /// nil iff the slot directly below is not (a `Duplicate; Not`)
    NegBelow,
}

/// Path-sensitive refinement of the definedness rule. The work-list analysis above joins all
/// control-flow paths; this one enumerates abstract paths with an exact count of defined locals
/// and the nil-ness of operand-stack slots, and follows a `JumpIf` only in the directions its
/// condition allows (the compiler's nil short-circuit is `Duplicate; Not; JumpIf`, so the slot that
/// was tested is known to be nil on the taken edge and non-nil on the other). It returns the pcs
/// of `Load`/`Reset` instructions that read beyond the defined locals on a path that is feasible
/// under that correlation, or None when the state budget is exhausted (no refinement available).
pub fn feasible_undefined_reads(f: &Function, t: &Tables) -> Option<std::collections::BTreeSet<usize>> {
    use std::collections::BTreeSet;
    let code = &f.instructions;
    let len = code.len();
    let mut bad: BTreeSet<usize> = BTreeSet::new();
    let mut seen: BTreeSet<(usize, usize, Vec<Av>)> = BTreeSet::new();
    let mut work: Vec<(usize, usize, Vec<Av>)> = vec![(0, f.captures, vec![Av::Unk])];
    while let Some((pc, mut nl, mut st)) = work.pop() {
        if pc >= len {
            continue;
        }
        if !seen.insert((pc, nl, st.clone())) {
            continue;
        }
        if seen.len() > 50_000 {
            return None;
        }
        // a link is meaningful only while it is the top of the stack
        let unlink_top = |st: &mut Vec<Av>| {
            if let Some(top) = st.last_mut()
                && matches!(top, Av::SameBelow | Av::NegBelow)
            {
                *top = Av::Unk;
            }
        };
        macro_rules! pop {
            () => {
                match st.pop() {
                    Some(v) => v,
                    None => continue, // underflow: reported by the work-list analysis
                }
            };
        }
        let mut next: Vec<usize> = vec![pc + 1];
        match code[pc] {
            Instruction::Constant(_) | Instruction::Builtin(_) | Instruction::Self_ | Instruction::Process(_, _) => {
                unlink_top(&mut st);
                st.push(Av::NonNil);
            }
            Instruction::Pop => {
                pop!();
            }
            Instruction::Duplicate => {
                let top = match st.last() {
                    Some(v) => *v,
                    None => continue,
                };
                st.push(match top {
                    Av::Nil => Av::Nil,
                    Av::NonNil => Av::NonNil,
                    _ => Av::SameBelow,
                });
            }
            Instruction::Not => {
                let v = pop!();
                st.push(match v {
                    Av::Nil => Av::NonNil,
                    Av::NonNil => Av::Nil,
                    Av::SameBelow => Av::NegBelow,
                    Av::NegBelow => Av::SameBelow,
                    Av::Unk => Av::Unk,
                });
            }
            Instruction::Pick(n) => {
                let v = if n < st.len() { st[st.len() - 1 - n] } else { continue };
                unlink_top(&mut st);
                st.push(if matches!(v, Av::Nil | Av::NonNil) { v } else { Av::Unk });
            }
            Instruction::Rotate(n) => {
                if n > st.len() {
                    continue;
                }
                let from = st.len() - n;
                for v in st[from..].iter_mut() {
                    if matches!(v, Av::SameBelow | Av::NegBelow) {
                        *v = Av::Unk;
                    }
                }
                if n > 0 {
                    let item = st.remove(from);
                    st.push(item);
                }
            }
            Instruction::Reset(i) => {
                if i > nl {
                    bad.insert(pc);
                }
                nl = i;
            }
            Instruction::Load(i) => {
                if i >= nl {
                    bad.insert(pc);
                }
                unlink_top(&mut st);
                st.push(Av::Unk);
            }
            Instruction::Store => {
                pop!();
                nl += 1;
            }
            Instruction::Tuple(id) => {
                let Some(info) = t.tuples.get(id) else { continue };
                for _ in 0..info.fields.len() {
                    pop!();
                }
                unlink_top(&mut st);
                st.push(if info.fields.is_empty() && info.name.is_none() { Av::Nil } else { Av::NonNil });
            }
            Instruction::Get(_) | Instruction::IsType(_) | Instruction::Select => {
                pop!();
                unlink_top(&mut st);
                st.push(Av::Unk);
            }
            Instruction::Jump(off) => {
                let target = pc as i64 + off as i64 + 1;
                next.clear();
                if target >= 0 && target <= len as i64 {
                    next.push(target as usize);
                }
            }
            Instruction::JumpIf(off) => {
                let c = pop!();
                let target = pc as i64 + off as i64 + 1;
                let target = if target >= 0 && target <= len as i64 { Some(target as usize) } else { None };
                next.clear();
                // (successor, nil-ness the tested slot below gets on that edge)
                let mut edges: Vec<(usize, Option<Av>)> = Vec::new();
                let (taken, fall) = match c {
                    Av::Nil => (None, Some(None)),
                    Av::NonNil => (Some(None), None),
                    Av::Unk => (Some(None), Some(None)),
                    Av::NegBelow => (Some(Some(Av::Nil)), Some(Some(Av::NonNil))),
                    Av::SameBelow => (Some(Some(Av::NonNil)), Some(Some(Av::Nil))),
                };
                if let (Some(k), Some(tg)) = (taken, target) {
                    edges.push((tg, k));
                }
                if let Some(k) = fall {
                    edges.push((pc + 1, k));
                }
                for (succ, know) in edges {
                    let mut s2 = st.clone();
                    if let (Some(k), Some(top)) = (know, s2.last_mut()) {
                        // a contradiction with what is already known makes the edge infeasible
                        if (*top == Av::Nil && k == Av::NonNil) || (*top == Av::NonNil && k == Av::Nil) {
                            continue;
                        }
                        *top = k;
                    }
                    work.push((succ, nl, s2));
                }
                continue;
            }
            Instruction::Call | Instruction::Spawn | Instruction::Send => {
                pop!();
                pop!();
                unlink_top(&mut st);
                st.push(Av::Unk);
            }
            Instruction::TailCall(_) => {
                next.clear();
            }
            Instruction::Function(fx) => {
                let Some(callee) = t.functions.get(fx) else { continue };
                for _ in 0..callee.captures {
                    pop!();
                }
                unlink_top(&mut st);
                st.push(Av::NonNil);
            }
            Instruction::Equal(n) => {
                for _ in 0..n {
                    pop!();
                }
                unlink_top(&mut st);
                st.push(Av::Unk);
            }
        }
        for s in next {
            work.push((s, nl, st.clone()));
        }
    }
    Some(bad)
}

/// Cross-reference checks over the tables themselves.
pub fn verify_tables(t: &Tables, builtins: &[quiver_core::types::BuiltinInfo]) -> Vec<Issue> {
    let mut issues = Vec::new();
    let nt = t.types.len();
    let mut bad = |what: String| issues.push(Issue { function: usize::MAX, pc: 0, kind: "table-dangling-id", detail: what });
    for (i, ty) in t.types.iter().enumerate() {
        match ty {
            Type::Tuple(id) => {
                if *id >= t.tuples.len() {
                    bad(format!("type {i} = Tuple({id}) of {}", t.tuples.len()));
                }
            }
            Type::Partial { fields, .. } => {
                for (n, f) in fields {
                    if *f >= nt {
                        bad(format!("type {i} partial field {n} -> type {f} of {nt}"));
                    }
                }
            }
            Type::Callable { parameter, result, receive } => {
                for (n, x) in [("parameter", parameter), ("result", result), ("receive", receive)] {
                    if *x >= nt {
                        bad(format!("type {i} callable {n} -> type {x} of {nt}"));
                    }
                }
            }
            Type::Union(m) => {
                for x in m {
                    if *x >= nt {
                        bad(format!("type {i} union member -> type {x} of {nt}"));
                    }
                }
            }
            Type::Process { send, receive } => {
                for x in [send, receive].into_iter().flatten() {
                    if *x >= nt {
                        bad(format!("type {i} process -> type {x} of {nt}"));
                    }
                }
            }
            _ => {}
        }
    }
    for (i, tu) in t.tuples.iter().enumerate() {
        for (n, f) in &tu.fields {
            if *f >= nt {
                bad(format!("tuple {i} field {n:?} -> type {f} of {nt}"));
            }
        }
    }
    for (i, b) in builtins.iter().enumerate() {
        if b.param_type >= nt || b.result_type >= nt {
            bad(format!("builtin {i} ({}) types {}/{} of {nt}", b.name, b.param_type, b.result_type));
        }
    }
    issues
}

pub struct ProgramResult {
    pub issues: Vec<Issue>,
    pub functions: usize,
    pub facts: Vec<FnFacts>,
    pub states: Vec<BTreeMap<usize, AbsState>>,
}

pub fn verify_bytecode(b: &Bytecode) -> ProgramResult {
    let t = Tables::of_bytecode(b);
    let mut issues = verify_tables(&t, &b.builtins);
    let mut facts = Vec::new();
    let mut states = Vec::new();
    for (i, f) in b.functions.iter().enumerate() {
        let mut r = verify_function(i, f, &t);
        // A definedness issue of the all-paths analysis that no path feasible under nil-test
        // correlation exhibits gets its own kind (see `feasible_undefined_reads`).
        if r.issues.iter().any(|x| x.kind == "load-undefined-local" || x.kind == "reset-beyond-locals")
            && let Some(feasible) = feasible_undefined_reads(f, &t)
        {
            for x in r.issues.iter_mut() {
                if (x.kind == "load-undefined-local" || x.kind == "reset-beyond-locals") && !feasible.contains(&x.pc) {
                    x.kind = "undefined-local-on-infeasible-path";
                }
            }
        }
        issues.extend(r.issues);
        facts.push(r.facts);
        states.push(r.states);
    }
    if let Some(e) = b.entry
        && e >= b.functions.len()
    {
        issues.push(Issue { function: e, pc: 0, kind: "index-out-of-range", detail: format!("entry {e} of {}", b.functions.len()) });
    }
    ProgramResult { issues, functions: b.functions.len(), facts, states }
}

/// Structural rendering of a type by id, independent of the numbering (depth-capped, so that a
/// dangling or mis-numbered id cannot send it into unbounded recursion).
pub fn show_type(b: &Bytecode, id: usize, depth: usize) -> String {
    if depth == 0 {
        return "…".into();
    }
    let Some(t) = b.types.get(id) else { return format!("<dangling type {id}>") };
    let d = depth - 1;
    match t {
        Type::Integer => "'int".into(),
        Type::Binary => "'bin".into(),
        Type::Reference => "'ref".into(),
        Type::Tuple(tid) => show_tuple(b, *tid, d),
        Type::Partial { name, fields } => format!("{}({})", name.clone().unwrap_or_default(), fields.iter().map(|(l, t)| format!("{l}: {}", show_type(b, *t, d))).collect::<Vec<_>>().join(", ")),
        Type::Callable { parameter, result, receive } => format!("#{} -> {} <{}>", show_type(b, *parameter, d), show_type(b, *result, d), show_type(b, *receive, d)),
        Type::Cycle(k) => format!("^{k}"),
        Type::Union(vs) => {
            // a union is a set: its members are listed in a numbering-independent order
            let mut m: Vec<String> = vs.iter().map(|v| show_type(b, *v, d)).collect();
            m.sort();
            format!("({})", m.join(" | "))
        }
        Type::Process { send, receive } => format!("@{} -> {}", send.map(|x| show_type(b, x, d)).unwrap_or("?".into()), receive.map(|x| show_type(b, x, d)).unwrap_or("?".into())),
        Type::Resource(n) => format!("\\{n}"),
        Type::Variable(n) => format!("'{n}"),
    }
}

pub fn show_tuple(b: &Bytecode, tid: usize, depth: usize) -> String {
    let Some(info) = b.tuples.get(tid) else { return format!("<dangling tuple {tid}>") };
    format!(
        "{}[{}]",
        info.name.clone().unwrap_or_default(),
        info.fields.iter().map(|(l, t)| format!("{}{}", l.as_ref().map(|l| format!("{l}: ")).unwrap_or_default(), show_type(b, *t, depth))).collect::<Vec<_>>().join(", ")
    )
}

/// A function rendered with every table index replaced by what it refers to: two programs that
/// differ only by a renumbering of their tables give the same fingerprints.
pub fn fingerprints(b: &Bytecode) -> Vec<String> {
    const D: usize = 7;
    b.functions
        .iter()
        .map(|f| {
            let mut s = format!("{} captures={}", show_type(b, f.type_id, D), f.captures);
            for ins in &f.instructions {
                s.push('\n');
                s.push_str(&match ins {
                    Instruction::Constant(i) => format!("Constant {:?}", b.constants.get(*i)),
                    Instruction::Tuple(t) => format!("Tuple {}", show_tuple(b, *t, D)),
                    Instruction::IsType(t) => format!("IsType {}", show_type(b, *t, D)),
                    Instruction::Function(x) => format!("Function {}", b.functions.get(*x).map(|g| format!("{} captures={} len={}", show_type(b, g.type_id, D), g.captures, g.instructions.len())).unwrap_or("<dangling>".into())),
                    Instruction::Process(k, x) => format!("Process {k:?} {}", b.functions.get(*x).map(|g| format!("{} len={}", show_type(b, g.type_id, D), g.instructions.len())).unwrap_or("<dangling>".into())),
                    Instruction::Builtin(x) => format!("Builtin {}", b.builtins.get(*x).map(|i| i.name.clone()).unwrap_or("<dangling>".into())),
                    other => format!("{other:?}"),
                });
            }
            s
        })
        .collect()
}

/// Every function of `derived` (a tree-shaken or merged form) must be a function of `original`
/// up to renumbering (when `subset`), or every function of `original` must occur in `derived`.
pub fn renaming_issue(original: &Bytecode, derived: &Bytecode, derived_is_subset: bool) -> Option<String> {
    let fo = fingerprints(original);
    let fd = fingerprints(derived);
    let (small, large, what) = if derived_is_subset { (&fd, &fo, "a function of the derived program is not a renumbering of any function of the original") } else { (&fo, &fd, "a function of the original program has no renumbered counterpart in the derived program") };
    let set: std::collections::BTreeSet<&String> = large.iter().collect();
    for (i, f) in small.iter().enumerate() {
        if !set.contains(f) {
            // closest by first line, for the report
            let head = f.lines().next().unwrap_or("");
            let near = large.iter().find(|g| g.lines().count() == f.lines().count() && g.lines().zip(f.lines()).filter(|(a, b)| a != b).count() <= 3);
            let diff = near.map(|g| g.lines().zip(f.lines()).filter(|(a, b)| a != b).map(|(a, b)| format!("    there: {a}\n    here:  {b}")).collect::<Vec<_>>().join("\n")).unwrap_or_default();
            return Some(format!("{what}: function {i} ({head})\n{diff}"));
        }
    }
    None
}

pub fn disassemble(f: &Function) -> String {
    f.instructions
        .iter()
        .enumerate()
        .map(|(i, ins)| format!("{i:3}: {ins:?}"))
        .collect::<Vec<_>>()
        .join("\n")
}
