//! E6 — bytecode verifier: work-list abstract interpretation per function over
//! (operand-stack height relative to frame entry, [min,max] number of defined locals).

use quiver_core::bytecode::{Bytecode, Function, Instruction};
use quiver_core::types::{TupleTypeInfo, Type};
use std::collections::BTreeMap;

#[derive(Clone, Copy, Debug, PartialEq, Eq)]
pub struct AbsState {
    pub height: i64,
    pub lmin: usize,
    pub lmax: usize,
}

#[derive(Clone, Debug)]
pub struct Issue {
    pub function: usize,
    pub pc: usize,
    pub kind: &'static str,
    pub detail: String,
}

pub struct Tables<'a> {
    pub constants: usize,
    pub functions: &'a [Function],
    pub builtins: usize,
    pub tuples: &'a [TupleTypeInfo],
    pub types: &'a [Type],
}

impl<'a> Tables<'a> {
    pub fn of_bytecode(b: &'a Bytecode) -> Self {
        Tables {
            constants: b.constants.len(),
            functions: &b.functions,
            builtins: b.builtins.len(),
            tuples: &b.tuples,
            types: &b.types,
        }
    }
}

#[derive(Default, Clone, Debug)]
pub struct FnFacts {
    pub joins: usize,
    pub conditional_store: bool,
    pub interval_join: bool,
    pub has_tail_call: bool,
    pub has_reset: bool,
}

pub struct FnResult {
    pub states: BTreeMap<usize, AbsState>,
    pub issues: Vec<Issue>,
    pub facts: FnFacts,
}

/// Verify one function. Returns abstract states per reachable pc (including pc == len).
pub fn verify_function(fi: usize, f: &Function, t: &Tables) -> FnResult {
    let code = &f.instructions;
    let len = code.len();
    let mut states: BTreeMap<usize, AbsState> = BTreeMap::new();
    let mut preds: BTreeMap<usize, usize> = BTreeMap::new();
    let mut issues: Vec<Issue> = Vec::new();
    let mut facts = FnFacts::default();
    let mut work: Vec<usize> = vec![0];
    states.insert(0, AbsState { height: 1, lmin: f.captures, lmax: f.captures });
    let mut iterations = 0usize;
    let mut seen_branch = false;
    // A body-less function (identity) is legal: it leaves its argument as the result.
    while let Some(pc) = work.pop() {
        iterations += 1;
        if iterations > 200_000 {
            issues.push(Issue { function: fi, pc, kind: "no-fixpoint", detail: "abstract interpretation did not converge".into() });
            break;
        }
        if pc >= len {
            continue;
        }
        let st = states[&pc];
        let ins = code[pc];
        let mut h = st.height;
        let (mut lmin, mut lmax) = (st.lmin, st.lmax);
        let mut succ: Vec<usize> = Vec::new();
        let mut need = |n: i64, h: i64, issues: &mut Vec<Issue>| {
            if h < n {
                issues.push(Issue {
                    function: fi,
                    pc,
                    kind: "stack-underflow",
                    detail: format!("{ins:?} needs {n} operand(s), height is {h}"),
                });
                false
            } else {
                true
            }
        };
        let mut terminal = false;
        match ins {
            Instruction::Constant(i) => {
                if i >= t.constants {
                    issues.push(Issue { function: fi, pc, kind: "index-out-of-range", detail: format!("Constant({i}) of {}", t.constants) });
                }
                h += 1;
            }
            Instruction::Pop => {
                need(1, h, &mut issues);
                h -= 1;
            }
            Instruction::Duplicate => {
                need(1, h, &mut issues);
                h += 1;
            }
            Instruction::Pick(n) => {
                need(n as i64 + 1, h, &mut issues);
                h += 1;
            }
            Instruction::Rotate(n) => {
                need(n as i64, h, &mut issues);
                if n == 0 {
                    issues.push(Issue { function: fi, pc, kind: "bad-operand", detail: "Rotate(0)".into() });
                }
            }
            Instruction::Reset(i) => {
                facts.has_reset = true;
                if i > lmin {
                    issues.push(Issue {
                        function: fi,
                        pc,
                        kind: "reset-beyond-locals",
                        detail: format!("Reset({i}) but only {lmin} local(s) are defined on every path here"),
                    });
                }
                lmin = i;
                lmax = i;
            }
            Instruction::Load(i) => {
                if i >= lmin {
                    issues.push(Issue {
                        function: fi,
                        pc,
                        kind: "load-undefined-local",
                        detail: format!("Load({i}) but only {lmin} local(s) are defined on every path here (max {lmax})"),
                    });
                }
                h += 1;
            }
            Instruction::Store => {
                need(1, h, &mut issues);
                h -= 1;
                lmin += 1;
                lmax += 1;
                if seen_branch {
                    facts.conditional_store = true;
                }
            }
            Instruction::Tuple(id) => match t.tuples.get(id) {
                Some(info) => {
                    let n = info.fields.len() as i64;
                    need(n, h, &mut issues);
                    h = h - n + 1;
                }
                None => {
                    issues.push(Issue { function: fi, pc, kind: "index-out-of-range", detail: format!("Tuple({id}) of {}", t.tuples.len()) });
                    h += 1;
                }
            },
            Instruction::Get(_) | Instruction::Not => {
                need(1, h, &mut issues);
            }
            Instruction::IsType(ty) => {
                if ty >= t.types.len() {
                    issues.push(Issue { function: fi, pc, kind: "index-out-of-range", detail: format!("IsType({ty}) of {}", t.types.len()) });
                }
                need(1, h, &mut issues);
            }
            Instruction::Jump(off) => {
                let target = pc as i64 + off as i64 + 1;
                if target < 0 || target > len as i64 {
                    issues.push(Issue { function: fi, pc, kind: "jump-out-of-function", detail: format!("Jump({off}) from {pc} to {target}, len {len}") });
                } else {
                    succ.push(target as usize);
                }
                terminal = true;
            }
            Instruction::JumpIf(off) => {
                need(1, h, &mut issues);
                h -= 1;
                seen_branch = true;
                let target = pc as i64 + off as i64 + 1;
                if target < 0 || target > len as i64 {
                    issues.push(Issue { function: fi, pc, kind: "jump-out-of-function", detail: format!("JumpIf({off}) from {pc} to {target}, len {len}") });
                } else {
                    succ.push(target as usize);
                }
            }
            Instruction::Call => {
                need(2, h, &mut issues);
                h -= 1;
            }
            Instruction::TailCall(recurse) => {
                facts.has_tail_call = true;
                let want = if recurse { 1 } else { 2 };
                if h != want {
                    issues.push(Issue {
                        function: fi,
                        pc,
                        kind: "tail-call-height",
                        detail: format!("TailCall({recurse}) reached with operand height {h}, expected exactly {want}"),
                    });
                }
                terminal = true;
            }
            Instruction::Function(fx) => match t.functions.get(fx) {
                Some(callee) => {
                    let n = callee.captures as i64;
                    need(n, h, &mut issues);
                    h = h - n + 1;
                }
                None => {
                    issues.push(Issue { function: fi, pc, kind: "index-out-of-range", detail: format!("Function({fx}) of {}", t.functions.len()) });
                    h += 1;
                }
            },
            Instruction::Builtin(b) => {
                if b >= t.builtins {
                    issues.push(Issue { function: fi, pc, kind: "index-out-of-range", detail: format!("Builtin({b}) of {}", t.builtins) });
                }
                h += 1;
            }
            Instruction::Equal(n) => {
                if n == 0 {
                    issues.push(Issue { function: fi, pc, kind: "bad-operand", detail: "Equal(0)".into() });
                }
                need(n as i64, h, &mut issues);
                h = h - n as i64 + 1;
            }
            Instruction::Spawn | Instruction::Send => {
                need(2, h, &mut issues);
                h -= 1;
            }
            Instruction::Self_ => h += 1,
            Instruction::Select => {
                need(1, h, &mut issues);
            }
            Instruction::Process(_, fx) => {
                if fx >= t.functions.len() {
                    issues.push(Issue { function: fi, pc, kind: "index-out-of-range", detail: format!("Process(_, {fx}) of {}", t.functions.len()) });
                }
                h += 1;
            }
        }
        if !terminal {
            succ.push(pc + 1);
        }
        for s in succ {
            let new = AbsState { height: h, lmin, lmax };
            *preds.entry(s).or_insert(0) += 1;
            match states.get(&s).copied() {
                None => {
                    states.insert(s, new);
                    work.push(s);
                }
                Some(old) => {
                    if old.height != new.height {
                        issues.push(Issue {
                            function: fi,
                            pc: s,
                            kind: "join-height-mismatch",
                            detail: format!("paths reach pc {s} with operand heights {} and {} (from pc {pc})", old.height, new.height),
                        });
                        continue;
                    }
                    let merged = AbsState { height: old.height, lmin: old.lmin.min(new.lmin), lmax: old.lmax.max(new.lmax) };
                    if merged != old {
                        if merged.lmin != merged.lmax {
                            facts.interval_join = true;
                        }
                        states.insert(s, merged);
                        work.push(s);
                    }
                }
            }
        }
        if issues.len() > 20 {
            break;
        }
    }
    facts.joins = preds.values().filter(|c| **c > 1).count();
    // Exit state: exactly one result.
    match states.get(&len) {
        Some(end) => {
            if end.height != 1 {
                issues.push(Issue {
                    function: fi,
                    pc: len,
                    kind: "exit-height",
                    detail: format!("function falls off its end with operand height {} (must consume its argument and leave exactly one result)", end.height),
                });
            }
        }
        None => {
            // Every path ends in a tail call (or the function is unreachable at its end): fine.
        }
    }
    // Callable type
    match t.types.get(f.type_id) {
        Some(Type::Callable { .. }) => {}
        Some(other) => issues.push(Issue { function: fi, pc: 0, kind: "function-type", detail: format!("type_id {} is {other:?}, not a callable", f.type_id) }),
        None => issues.push(Issue { function: fi, pc: 0, kind: "index-out-of-range", detail: format!("function type_id {} of {}", f.type_id, t.types.len()) }),
    }
    FnResult { states, issues, facts }
}

/// Cross-reference checks over the tables themselves.
pub fn verify_tables(t: &Tables, builtins: &[quiver_core::types::BuiltinInfo]) -> Vec<Issue> {
    let mut issues = Vec::new();
    let nt = t.types.len();
    let mut bad = |what: String| issues.push(Issue { function: usize::MAX, pc: 0, kind: "table-dangling-id", detail: what });
    for (i, ty) in t.types.iter().enumerate() {
        match ty {
            Type::Tuple(id) => {
                if *id >= t.tuples.len() {
                    bad(format!("type {i} = Tuple({id}) of {}", t.tuples.len()));
                }
            }
            Type::Partial { fields, .. } => {
                for (n, f) in fields {
                    if *f >= nt {
                        bad(format!("type {i} partial field {n} -> type {f} of {nt}"));
                    }
                }
            }
            Type::Callable { parameter, result, receive } => {
                for (n, x) in [("parameter", parameter), ("result", result), ("receive", receive)] {
                    if *x >= nt {
                        bad(format!("type {i} callable {n} -> type {x} of {nt}"));
                    }
                }
            }
            Type::Union(m) => {
                for x in m {
                    if *x >= nt {
                        bad(format!("type {i} union member -> type {x} of {nt}"));
                    }
                }
            }
            Type::Process { send, receive } => {
                for x in [send, receive].into_iter().flatten() {
                    if *x >= nt {
                        bad(format!("type {i} process -> type {x} of {nt}"));
                    }
                }
            }
            _ => {}
        }
    }
    for (i, tu) in t.tuples.iter().enumerate() {
        for (n, f) in &tu.fields {
            if *f >= nt {
                bad(format!("tuple {i} field {n:?} -> type {f} of {nt}"));
            }
        }
    }
    for (i, b) in builtins.iter().enumerate() {
        if b.param_type >= nt || b.result_type >= nt {
            bad(format!("builtin {i} ({}) types {}/{} of {nt}", b.name, b.param_type, b.result_type));
        }
    }
    issues
}

pub struct ProgramResult {
    pub issues: Vec<Issue>,
    pub functions: usize,
    pub facts: Vec<FnFacts>,
    pub states: Vec<BTreeMap<usize, AbsState>>,
}

pub fn verify_bytecode(b: &Bytecode) -> ProgramResult {
    let t = Tables::of_bytecode(b);
    let mut issues = verify_tables(&t, &b.builtins);
    let mut facts = Vec::new();
    let mut states = Vec::new();
    for (i, f) in b.functions.iter().enumerate() {
        let r = verify_function(i, f, &t);
        issues.extend(r.issues);
        facts.push(r.facts);
        states.push(r.states);
    }
    if let Some(e) = b.entry
        && e >= b.functions.len()
    {
        issues.push(Issue { function: e, pc: 0, kind: "index-out-of-range", detail: format!("entry {e} of {}", b.functions.len()) });
    }
    ProgramResult { issues, functions: b.functions.len(), facts, states }
}

pub fn disassemble(f: &Function) -> String {
    f.instructions
        .iter()
        .enumerate()
        .map(|(i, ins)| format!("{i:3}: {ins:?}"))
        .collect::<Vec<_>>()
        .join("\n")
}
