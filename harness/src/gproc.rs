//! Generator of *confluent* concurrent programs: every mailbox has a single sender at any
//! time, every other interaction is an await, no timeouts race other sources. By construction
//! the entry result and each process's result are independent of the schedule.

use proptest::prelude::*;

#[derive(Clone, Debug)]
pub enum Part {
    /// spawn workers computing sum 1..n, await them in a generated order (optionally twice)
    ForkJoin { works: Vec<u16>, order: u16, twice: bool },
    /// chain of forwarding stages ending in a sink; main feeds `inputs`
    Pipeline { stages: u8, inputs: Vec<i8> },
    /// one child, sequential request/reply with the parent's own mailbox
    ReqReply { inputs: Vec<i8> },
    /// p_k awaits p_{k+1} … (closures capture process handles)
    AwaitChain { depth: u8, base: u16 },
    /// main works for a while, then awaits an already finished process
    LateAwait { work: u16, twice: bool },
    /// a receiver that first spawns and awaits helpers (so messages arrive while it is parked in
    /// `spawning` or in an await), then sums `inputs`
    BusyReceiver { helper_work: u16, inputs: Vec<i8> },
    /// binaries: children build binaries, results carry heap data across workers
    BinFork { sizes: Vec<u8>, concat_in_main: bool },
    /// a child that receives binaries and returns their concatenation length + hash
    BinStream { chunks: Vec<u8> },
    /// spawn a closure capturing two heap binaries, optionally with a heap binary argument
    SpawnCaps { a: u8, b: u8, arg: Option<u8>, nested: bool },
    /// await the same finished process twice; its result holds a heap binary
    AwaitTwiceBin { n: u8, thrice: bool },
    /// receiver that first takes the message of a given length through a filter, then the rest
    FilterBin { sizes: Vec<u8>, pick: u8 },
    /// select with two filter sources while messages keep arriving (racy: invariants only)
    TwoFilters { sizes: Vec<u8>, l1: u8, l2: u8 },
    /// a process that ends with binaries still in its mailbox
    MailboxLeftover { sizes: Vec<u8>, take: u8 },
    /// heap binaries reached only indirectly (inside a captured tuple / a captured closure / a
    /// closure returned as a result) cross a process boundary
    ClosureNested { a: u8, b: u8, form: u8 },
    /// `! [c, t]` times out while c waits for a message; then the message is sent and `!c`
    /// awaits it again while it is still running; its result is a heap binary
    TimeoutThenAwait { n: u8, timeout: u8, twice: bool },
    /// several processes await one still-running process (busy, or gated on a message from main)
    SharedAwait { work: u16, awaiters: u8, gated: bool },
    /// a select that lists a timeout or an awaited helper BEFORE a filtered receive, with heap
    /// binaries in the mailbox (racy: invariants only), then drains the mailbox
    PrioFilter { sizes: Vec<u8>, helper_work: u16, timeout: u8, want: u8, await_first: bool },
    /// a select over several processes of which exactly one is known to have finished (it was
    /// awaited before): the others are still working (listed after it) or blocked until a
    /// message main sends after the select (listed anywhere) — so the select's value is fixed.
    /// others: (gated, listed before the finished one if gated, work)
    SelectKnownFirst { first_work: u16, others: Vec<(bool, bool, u16)> },
}

impl Part {
    /// Parts whose outcome may legitimately depend on the schedule (used only where the oracle
    /// does not compare results across schedules).
    pub fn racy(&self) -> bool {
        matches!(self, Part::TwoFilters { .. } | Part::PrioFilter { .. })
    }
    pub fn heap_heavy(&self) -> bool {
        matches!(self, Part::BinFork { .. } | Part::BinStream { .. } | Part::SpawnCaps { .. } | Part::AwaitTwiceBin { .. } | Part::FilterBin { .. } | Part::TwoFilters { .. } | Part::MailboxLeftover { .. } | Part::ClosureNested { .. } | Part::PrioFilter { .. } | Part::TimeoutThenAwait { .. })
    }
}

#[derive(Clone, Debug)]
pub struct GProg {
    pub parts: Vec<Part>,
    /// Some(n): the program's very last instruction is the send of a fresh binary (n filler bytes)
    /// to a sink process; the entry result is then the sink's handle
    pub final_send: Option<u8>,
}

pub fn part() -> impl Strategy<Value = Part> {
    let work = prop_oneof![3 => 0u16..40, 2 => 40u16..400, 1 => 400u16..3000];
    prop_oneof![
        3 => (prop::collection::vec(work.clone(), 1..5), any::<u16>(), any::<bool>()).prop_map(|(works, order, twice)| Part::ForkJoin { works, order, twice }),
        3 => (1u8..4, prop::collection::vec(-5i8..50, 1..5)).prop_map(|(stages, inputs)| Part::Pipeline { stages, inputs }),
        2 => prop::collection::vec(-9i8..9, 1..4).prop_map(|inputs| Part::ReqReply { inputs }),
        2 => (1u8..5, work.clone()).prop_map(|(depth, base)| Part::AwaitChain { depth, base }),
        2 => (work.clone(), any::<bool>()).prop_map(|(work, twice)| Part::LateAwait { work, twice }),
        3 => (work.clone(), 2u8..6, any::<bool>()).prop_map(|(work, awaiters, gated)| Part::SharedAwait { work, awaiters, gated }),
        3 => (prop_oneof![0u16..5, 0u16..100], prop::collection::vec((any::<bool>(), any::<bool>(), work), 2..5)).prop_map(|(first_work, others)| Part::SelectKnownFirst { first_work, others }),
        3 => (prop_oneof![0u16..5, 0u16..300], prop::collection::vec(-5i8..50, 1..5)).prop_map(|(helper_work, inputs)| Part::BusyReceiver { helper_work, inputs }),
        2 => (prop::collection::vec(0u8..40, 1..4), any::<bool>()).prop_map(|(sizes, concat_in_main)| Part::BinFork { sizes, concat_in_main }),
        2 => prop::collection::vec(0u8..20, 1..4).prop_map(|chunks| Part::BinStream { chunks }),
        // a filtered receive over a single-sender mailbox is confluent too: the filter may run
        // before the wanted message has arrived (it parks after a rejection) or after
        3 => (prop::collection::vec(0u8..8, 1..5), any::<u8>()).prop_map(|(sizes, pick)| Part::FilterBin { sizes, pick }),
    ]
}

/// Binary-heavy parts for C06 (includes the confluent binary parts above).
pub fn heap_part() -> impl Strategy<Value = Part> {
    prop_oneof![
        2 => (prop::collection::vec(0u8..40, 1..4), any::<bool>()).prop_map(|(sizes, concat_in_main)| Part::BinFork { sizes, concat_in_main }),
        2 => prop::collection::vec(0u8..20, 1..4).prop_map(|chunks| Part::BinStream { chunks }),
        3 => (0u8..12, 0u8..12, prop::option::of(0u8..12), any::<bool>()).prop_map(|(a, b, arg, nested)| Part::SpawnCaps { a, b, arg, nested }),
        3 => (0u8..12, any::<bool>()).prop_map(|(n, thrice)| Part::AwaitTwiceBin { n, thrice }),
        3 => (prop::collection::vec(0u8..8, 1..5), any::<u8>()).prop_map(|(sizes, pick)| Part::FilterBin { sizes, pick }),
        3 => (prop::collection::vec(0u8..6, 1..6), 0u8..6, 0u8..6).prop_map(|(sizes, l1, l2)| Part::TwoFilters { sizes, l1, l2 }),
        2 => (prop::collection::vec(0u8..8, 1..5), 0u8..3).prop_map(|(sizes, take)| Part::MailboxLeftover { sizes, take }),
        3 => (0u8..12, 0u8..12, 0u8..16).prop_map(|(a, b, form)| Part::ClosureNested { a, b, form }),
        3 => (0u8..12, 1u8..20, any::<bool>()).prop_map(|(n, timeout, twice)| Part::TimeoutThenAwait { n, timeout, twice }),
        3 => (prop::collection::vec(0u8..6, 1..5), prop_oneof![0u16..10, 10u16..200], 0u8..30, 0u8..6, any::<bool>()).prop_map(|(sizes, helper_work, timeout, want, await_first)| Part::PrioFilter { sizes, helper_work, timeout, want, await_first }),
        1 => (prop_oneof![0u16..40, 40u16..400], any::<bool>()).prop_map(|(work, twice)| Part::LateAwait { work, twice }),
    ]
}

pub fn heap_prog() -> impl Strategy<Value = GProg> {
    (prop::collection::vec(heap_part(), 1..4), prop::option::weighted(0.2, 0u8..9)).prop_map(|(parts, final_send)| GProg { parts, final_send })
}

pub fn gprog() -> impl Strategy<Value = GProg> {
    prop::collection::vec(part(), 1..4).prop_map(|parts| GProg { parts, final_send: None })
}

pub const PRELUDE: &str = "\
'list = Nil | Cons['bin, ^],
loop = #['int, 'int] { =[n, acc], { | [n, 0] __integer_compare__ =0 => acc | [[n, 1] __integer_subtract__, [acc, n] __integer_add__] ^ } },
w = #'int { [~, 0] loop },
sink = #['int, 'int] { =[k, acc], { | [k, 0] __integer_compare__ =0 => acc | [[k, 1] __integer_subtract__, [acc, !#'int] __integer_add__] ^ } },
stage = #[(@'int), 'int, 'int] { =[next, k, acc], { | [k, 0] __integer_compare__ =0 => acc | { !#'int =x, [x, 1] __integer_add__ =y, y next, [&next, [k, 1] __integer_subtract__, [acc, y] __integer_add__] ^ } } },
child = #[(@'int), 'int] { =[parent, k], { | [k, 0] __integer_compare__ =0 => Done | { !#'int =x, [x, x] __integer_multiply__ parent, [&parent, [k, 1] __integer_subtract__] ^ } } },
spawner = #['int, 'int] { =[k, n], h1 = n @w, h2 = n @w, [!h1, !h2] __integer_add__ =base, !#'int =first, [[k, 1] __integer_subtract__, [base, first] __integer_add__] ^sink },
mkbin = #'int { =n, [[0xab, n] __binary_repeat__, 0xcdef] __binary_concat__ },
drain = #'int { =n, ! [#'bin, 30] { | =[] => n | [n, 1] __integer_add__ ^ } },
takeall = #['int, 'list] { =[k, acc], { | [k, 0] __integer_compare__ =0 => acc | [[k, 1] __integer_subtract__, Cons[!#'bin, acc]] ^ } },
binsink = #['int, 'bin] { =[k, acc], { | [k, 0] __integer_compare__ =0 => [acc __binary_length__, acc __binary_hash32__, acc] | [[k, 1] __integer_subtract__, [acc, !#'bin] __binary_concat__] ^ } }";

fn permute(n: usize, seed: u16) -> Vec<usize> {
    let mut v: Vec<usize> = (0..n).collect();
    let mut s = seed as usize;
    for i in (1..n).rev() {
        let j = s % (i + 1);
        s /= i + 1;
        v.swap(i, j);
    }
    v
}

pub struct Rendered {
    pub source: String,
    pub processes: usize,
    pub has_messages: bool,
    pub has_binaries: bool,
    pub has_late_await: bool,
    /// bytes (as printed) the sink of a final send must end up with
    pub final_send_expected: Option<String>,
}

pub fn render(g: &GProg) -> Rendered {
    let mut lines: Vec<String> = vec![PRELUDE.to_string()];
    let mut results: Vec<String> = Vec::new();
    let mut processes = 1;
    let (mut has_messages, mut has_binaries, mut has_late_await) = (false, false, false);
    let mut needs_me = false;
    for (pi, part) in g.parts.iter().enumerate() {
        let v = |s: &str| format!("{s}{pi}");
        match part {
            Part::ForkJoin { works, order, twice } => {
                for (i, n) in works.iter().enumerate() {
                    lines.push(format!("{}_{i} = {n} @w", v("fj")));
                    processes += 1;
                }
                let ord = permute(works.len(), *order);
                let mut fields: Vec<String> = ord.iter().map(|i| format!("!{}_{i}", v("fj"))).collect();
                if *twice {
                    fields.push(format!("!{}_{}", v("fj"), ord[0]));
                    has_late_await = true;
                }
                lines.push(format!("{} = [{}]", v("r"), fields.join(", ")));
                results.push(v("r"));
            }
            Part::Pipeline { stages, inputs } => {
                has_messages = true;
                let k = inputs.len();
                lines.push(format!("{}_sink = [{k}, 0] @sink", v("pl")));
                processes += 1;
                let mut next = format!("{}_sink", v("pl"));
                let mut names = vec![next.clone()];
                for s in 0..*stages {
                    let name = format!("{}_s{s}", v("pl"));
                    lines.push(format!("{name} = [&{next}, {k}, 0] @stage"));
                    processes += 1;
                    next = name.clone();
                    names.push(name);
                }
                for x in inputs {
                    lines.push(format!("{x} {next}"));
                }
                let fields: Vec<String> = names.iter().map(|n| format!("!{n}")).collect();
                lines.push(format!("{} = [{}]", v("r"), fields.join(", ")));
                results.push(v("r"));
            }
            Part::ReqReply { inputs } => {
                has_messages = true;
                needs_me = true;
                lines.push(format!("{} = [&me, {}] @child", v("rq"), inputs.len()));
                processes += 1;
                let mut rs = Vec::new();
                for (i, x) in inputs.iter().enumerate() {
                    lines.push(format!("{x} {}", v("rq")));
                    lines.push(format!("!#'int ={}_{i}", v("rr")));
                    rs.push(format!("{}_{i}", v("rr")));
                }
                rs.push(format!("!{}", v("rq")));
                lines.push(format!("{} = [{}]", v("r"), rs.join(", ")));
                results.push(v("r"));
            }
            Part::AwaitChain { depth, base } => {
                lines.push(format!("{}_0 = {base} @w", v("ac")));
                processes += 1;
                for d in 1..=*depth {
                    lines.push(format!("{}_{d} = @{{ !{}_{} [~, {d}] __integer_add__ }}", v("ac"), v("ac"), d - 1));
                    processes += 1;
                }
                lines.push(format!("{} = !{}_{depth}", v("r"), v("ac")));
                results.push(v("r"));
            }
            Part::TimeoutThenAwait { n, timeout, twice } => {
                has_binaries = true;
                has_messages = true;
                // the child blocks until it is told to go, then works a little and builds a binary
                lines.push(format!("{} = @#{{ ! [#'int] =k, 30 w =y, k mkbin }}", v("ta")));
                processes += 1;
                lines.push(format!("! [{}, {timeout}] =t{pi}a", v("ta")));
                if *twice {
                    lines.push(format!("! [{}, 1] =t{pi}b", v("ta")));
                }
                lines.push(format!("{n} {}", v("ta")));
                lines.push(format!("{} = !{}", v("r"), v("ta")));
                results.push(v("r"));
            }
            Part::SharedAwait { work, awaiters, gated } => {
                if *gated {
                    has_messages = true;
                    lines.push(format!("{} = @{{ !#'int =x, {work} w =y, [x, y] __integer_add__ }}", v("sa")));
                } else {
                    lines.push(format!("{} = {work} @w", v("sa")));
                }
                processes += 1;
                for i in 0..*awaiters {
                    lines.push(format!("{}_{i} = @{{ !{} [~, {i}] __integer_add__ }}", v("sa"), v("sa")));
                    processes += 1;
                }
                if *gated {
                    lines.push(format!("{} {}", 7 + pi, v("sa")));
                }
                let mut fields: Vec<String> = (0..*awaiters).map(|i| format!("!{}_{i}", v("sa"))).collect();
                fields.push(format!("!{}", v("sa")));
                lines.push(format!("{} = [{}]", v("r"), fields.join(", ")));
                results.push(v("r"));
            }
            Part::SelectKnownFirst { first_work, others } => {
                lines.push(format!("{} = {first_work} @w", v("sk")));
                processes += 1;
                lines.push(format!("{} = !{}", v("skx"), v("sk")));
                let mut before: Vec<String> = Vec::new();
                let mut after: Vec<String> = Vec::new();
                for (i, (gated, first, work)) in others.iter().enumerate() {
                    let name = format!("{}_{i}", v("sk"));
                    if *gated {
                        has_messages = true;
                        lines.push(format!("{name} = @{{ !#'int =x, {work} w =y, [x, y] __integer_add__ }}"));
                        if *first { before.push(name) } else { after.push(name) }
                    } else {
                        lines.push(format!("{name} = {work} @w"));
                        after.push(name);
                    }
                    processes += 1;
                }
                let mut list = before;
                list.push(v("sk"));
                list.extend(after);
                lines.push(format!("{} = ! [{}]", v("sks"), list.join(", ")));
                for (i, (gated, _, _)) in others.iter().enumerate() {
                    if *gated {
                        lines.push(format!("{} {}_{i}", 3 + i, v("sk")));
                    }
                }
                let mut fields = vec![v("skx"), v("sks")];
                fields.extend((0..others.len()).map(|i| format!("!{}_{i}", v("sk"))));
                lines.push(format!("{} = [{}]", v("r"), fields.join(", ")));
                results.push(v("r"));
            }
            Part::LateAwait { work, twice } => {
                has_late_await = true;
                lines.push(format!("{} = @{{ 7 }}", v("la")));
                processes += 1;
                lines.push(format!("{} = {work} w", v("lw")));
                let mut f = vec![format!("!{}", v("la")), v("lw")];
                if *twice {
                    f.push(format!("!{}", v("la")));
                }
                lines.push(format!("{} = [{}]", v("r"), f.join(", ")));
                results.push(v("r"));
            }
            Part::BusyReceiver { helper_work, inputs } => {
                has_messages = true;
                lines.push(format!("{} = [{}, {helper_work}] @spawner", v("br"), inputs.len()));
                processes += 3;
                for x in inputs {
                    lines.push(format!("{x} {}", v("br")));
                }
                lines.push(format!("{} = !{}", v("r"), v("br")));
                results.push(v("r"));
            }
            Part::BinFork { sizes, concat_in_main } => {
                has_binaries = true;
                for (i, n) in sizes.iter().enumerate() {
                    lines.push(format!("{}_{i} = {n} @mkbin", v("bf")));
                    processes += 1;
                }
                let mut f: Vec<String> = (0..sizes.len()).map(|i| format!("!{}_{i}", v("bf"))).collect();
                if *concat_in_main && sizes.len() >= 2 {
                    f.push(format!("[!{}_0, !{}_1] __binary_concat__", v("bf"), v("bf")));
                }
                lines.push(format!("{} = [{}]", v("r"), f.join(", ")));
                results.push(v("r"));
            }
            Part::SpawnCaps { a, b, arg, nested } => {
                has_binaries = true;
                lines.push(format!("{} = {a} mkbin", v("ca")));
                lines.push(format!("{} = {b} mkbin", v("cb")));
                let body = if *nested { format!("[[{}, 1], P[x: {}]]", v("ca"), v("cb")) } else { format!("[{}, {}]", v("ca"), v("cb")) };
                match arg {
                    Some(n) => {
                        lines.push(format!("{} = {n} mkbin", v("cc")));
                        let body = if *nested { format!("[[{}, $], P[x: {}]]", v("ca"), v("cb")) } else { format!("[{}, {}, $]", v("ca"), v("cb")) };
                        lines.push(format!("{} = {} @#'bin {{ {body} }}", v("cp"), v("cc")));
                    }
                    None => lines.push(format!("{} = @#{{ {body} }}", v("cp"))),
                }
                processes += 1;
                lines.push(format!("{} = [!{}, {}, {}]", v("r"), v("cp"), v("ca"), v("cb")));
                results.push(v("r"));
            }
            Part::AwaitTwiceBin { n, thrice } => {
                has_binaries = true;
                has_late_await = true;
                lines.push(format!("{} = {n} @mkbin", v("tw")));
                processes += 1;
                // each await is its own sequence step and only the length is kept, so the awaited
                // binary itself is dropped between the awaits
                let reps = if *thrice { 3 } else { 2 };
                let mut f = Vec::new();
                for k in 0..reps {
                    lines.push(format!("{}_{k} = !{} __binary_length__", v("tl"), v("tw")));
                    f.push(format!("{}_{k}", v("tl")));
                }
                lines.push(format!("{} = [{}]", v("r"), f.join(", ")));
                results.push(v("r"));
            }
            Part::FilterBin { sizes, pick } => {
                has_binaries = true;
                has_messages = true;
                let k = sizes.len();
                let want = sizes[(*pick as usize) % k] as usize + 2; // mkbin n has length n + 2
                lines.push(format!(
                    "{} = @#{{ ! [#'bin {{ __binary_length__ ={want} => Ok }}] =first, [{}, Nil] takeall =rest, [first, rest] }}",
                    v("fb"),
                    k - 1
                ));
                processes += 1;
                for n in sizes {
                    lines.push(format!("{n} mkbin {}", v("fb")));
                }
                lines.push(format!("{} = !{}", v("r"), v("fb")));
                results.push(v("r"));
            }
            Part::TwoFilters { sizes, l1, l2 } => {
                has_binaries = true;
                has_messages = true;
                // the receiver runs two filtered receives with a timeout so it never hangs, then ends
                lines.push(format!(
                    "{} = @#{{ ! [#'bin {{ __binary_length__ ={} => Ok }}, #'bin {{ __binary_length__ ={} => Ok }}, 40] =m1, ! [#'bin {{ __binary_length__ ={} => Ok }}, #'bin, 40] =m2, 0 drain }}",
                    v("tf"),
                    *l1 as usize + 2,
                    *l2 as usize + 2,
                    *l2 as usize + 2
                ));
                processes += 1;
                for n in sizes {
                    lines.push(format!("{n} mkbin {}", v("tf")));
                }
                lines.push(format!("{} = !{}", v("r"), v("tf")));
                results.push(v("r"));
            }
            Part::MailboxLeftover { sizes, take } => {
                has_binaries = true;
                has_messages = true;
                let t = (*take as usize).min(sizes.len());
                lines.push(format!("{} = @#{{ ! [#'bin {{ [] }}, 0] Ok, [{t}, Nil] ^takeall }}", v("ml")));
                processes += 1;
                for n in sizes {
                    lines.push(format!("{n} mkbin {}", v("ml")));
                }
                lines.push(format!("{} = !{}", v("r"), v("ml")));
                results.push(v("r"));
            }
            Part::ClosureNested { a, b, form } => {
                has_binaries = true;
                // junk binaries allocated first, so that heap slot numbers on the sending side differ
                // from the compact numbering used in transit
                for j in 0..(form / 4) % 4 {
                    lines.push(format!("{} = {} mkbin", v(&format!("nj{j}")), j + 1));
                }
                lines.push(format!("{} = {a} mkbin", v("na")));
                lines.push(format!("{} = {b} mkbin", v("nb")));
                lines.push(format!("{} = P[x: {}, y: [{}]]", v("nt"), v("na"), v("nb")));
                match form % 4 {
                    0 => {
                        // a spawned closure captures a tuple that holds the binaries
                        lines.push(format!("{} = @#{{ {} }}", v("np"), v("nt")));
                        lines.push(format!("{} = !{}", v("nq"), v("np")));
                        lines.push(format!("{} = [{}.x, {}.y]", v("r"), v("nq"), v("nq")));
                    }
                    1 => {
                        // a spawned closure captures a closure that captures the tuple
                        lines.push(format!("{} = #{{ {} }}", v("ng"), v("nt")));
                        lines.push(format!("{} = @#{{ {} }}", v("np"), v("ng")));
                        lines.push(format!("{} = !{}", v("nq"), v("np")));
                        lines.push(format!("{} = [{}.x, 7]", v("r"), v("nq")));
                    }
                    2 => {
                        // the child's result is a closure over a tuple holding a binary; the parent calls it
                        lines.push(format!("{} = {a} @#'int {{ =n, j = 2 mkbin, t2 = P[x: n mkbin, y: [j]], #{{ t2 }} }}", v("np")));
                        lines.push(format!("{} = !{}", v("nh"), v("np")));
                        lines.push(format!("{} = {}", v("nq"), v("nh")));
                        lines.push(format!("{} = [{}.x, 8]", v("r"), v("nq")));
                    }
                    _ => {
                        // the tuple itself is the spawn argument of a closure that also captures it
                        lines.push(format!("{} = {} @#P[x: 'bin, y: ['bin]] {{ [$, {}] }}", v("np"), v("nt"), v("nt")));
                        lines.push(format!("{} = !{}", v("nq"), v("np")));
                        lines.push(format!("{} = [{}.0.x, {}.1.y]", v("r"), v("nq"), v("nq")));
                    }
                }
                processes += 1;
                results.push(v("r"));
            }
            Part::PrioFilter { sizes, helper_work, timeout, want, await_first } => {
                has_binaries = true;
                has_messages = true;
                let first = if *await_first { "h".to_string() } else { format!("{timeout}") };
                lines.push(format!(
                    "{} = @#{{ h = {helper_work} @w, ! [{first}, #'bin {{ __binary_length__ ={} => Ok }}, 45] =m1, ! [{first}, #'bin {{ __binary_length__ ={} => Ok }}, 45] =m2, 0 drain }}",
                    v("pf"),
                    *want as usize + 2,
                    *want as usize + 2
                ));
                processes += 2;
                for n in sizes {
                    lines.push(format!("{n} mkbin {}", v("pf")));
                }
                lines.push(format!("{} = !{}", v("r"), v("pf")));
                results.push(v("r"));
            }
            Part::BinStream { chunks } => {
                has_binaries = true;
                has_messages = true;
                lines.push(format!("{} = [{}, 0x] @binsink", v("bs"), chunks.len()));
                processes += 1;
                for n in chunks {
                    lines.push(format!("{n} mkbin {}", v("bs")));
                }
                lines.push(format!("{} = !{}", v("r"), v("bs")));
                results.push(v("r"));
            }
        }
    }
    if needs_me {
        lines.insert(1, "me = &.".to_string());
    }
    let mut final_send_expected = None;
    match g.final_send {
        None => lines.push(format!("[{}]", results.join(", "))),
        Some(n) => {
            // the results are still computed (and dropped); the last step is the send itself
            lines.insert(1, "fsink = @#{ ! [#'bin] }".to_string());
            processes += 1;
            lines.push(format!("zres = [{}]", results.join(", ")));
            lines.push(format!("[[0xee, {n}] __binary_repeat__, 0x5a5a5a] __binary_concat__ fsink"));
            final_send_expected = Some(format!("0x{}5a5a5a", "ee".repeat(n as usize)));
        }
    }
    Rendered { source: lines.join(",\n"), processes, has_messages, has_binaries, has_late_await, final_send_expected }
}
