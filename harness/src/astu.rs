//! AST utilities over quiver_compiler::ast (read-only walks used by several properties).

use quiver_compiler::ast::*;

fn is_tail_term(t: &Term) -> bool {
    matches!(
        t,
        Term::Access(Access { source: Some(AccessSource::TailCall(_)), .. })
            | Term::Access(Access { source: Some(AccessSource::TailCallRipple), .. })
    )
}

/// True if some tail-call term (`^`, `^f`, `^~`) occurs anywhere other than a (conservatively
/// defined) tail position of a function body.
pub fn has_nontail_tailcall(p: &Program) -> bool {
    let mut bad = false;
    for s in &p.statements {
        if let Statement::Expression(seq) = s {
            walk_sequence(seq, false, &mut bad);
        }
    }
    bad
}

pub fn has_any_tailcall(p: &Program) -> bool {
    // crude: debug-print search is adequate here
    let s = format!("{p:?}");
    s.contains("TailCall")
}

fn walk_expression(e: &Expression, tail: bool, bad: &mut bool) {
    for b in &e.branches {
        match &b.consequence {
            Some(c) => {
                walk_sequence(&b.condition, false, bad);
                walk_sequence(c, tail, bad);
            }
            None => walk_sequence(&b.condition, tail, bad),
        }
    }
}

fn walk_sequence(s: &Sequence, tail: bool, bad: &mut bool) {
    let n = s.chains.len();
    for (i, c) in s.chains.iter().enumerate() {
        walk_chain(c, tail && i + 1 == n, bad);
    }
}

fn walk_chain(c: &Chain, tail: bool, bad: &mut bool) {
    let n = c.terms.len();
    // a binding chain (`x = … ^`) is never a tail position
    let tail = tail && c.match_pattern.is_none();
    for (i, t) in c.terms.iter().enumerate() {
        walk_term(t, tail && i + 1 == n, bad);
    }
}

fn walk_term(t: &Term, tail: bool, bad: &mut bool) {
    if is_tail_term(t) && !tail {
        *bad = true;
    }
    match t {
        Term::Tuple(tp) => {
            for f in &tp.fields {
                if let FieldValue::Chain(c) = &f.value {
                    walk_chain(c, false, bad);
                }
            }
        }
        Term::String(_, segs) => {
            for s in segs {
                if let StrSegment::Hole(e) = s {
                    walk_expression(e, false, bad);
                }
            }
        }
        Term::Block(e) => walk_expression(e, tail, bad),
        Term::Function(f) => {
            if let Some(b) = &f.body {
                walk_expression(b, true, bad);
            }
        }
        Term::Spawn(inner, _) => walk_term(inner, false, bad),
        Term::Select(Some(chains), _) => {
            for c in chains {
                walk_chain(c, false, bad);
            }
        }
        _ => {}
    }
}
