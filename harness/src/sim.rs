//! E2 — deterministic single-threaded simulator: N real `Worker`s and one real `Environment`
//! over in-memory FIFO channels. The schedule (which component steps next, how many queued
//! messages it may see, when the virtual clock advances) and the time-slice length are inputs.

use crate::fw::*;
use crate::hval::{self, HVal, Tables};
use crate::qrun::{Eff, Registry};
use quiver_core::bytecode::Bytecode;
use quiver_core::effects::EffectBackend;
use quiver_core::process::ProcessId;
use quiver_core::value::Value;
use quiver_environment::{
    Command, CommandReceiver, Environment, EnvironmentError, Event, EventSender, RequestResult, Worker, WorkerHandle,
};
use std::collections::{BTreeMap, VecDeque};
use std::sync::atomic::{AtomicUsize, Ordering};
use std::sync::{Arc, Mutex};

type Q<T> = Arc<Mutex<VecDeque<T>>>;

pub struct SimHandle {
    cmd: Q<Command<Eff>>,
    evt: Q<Event<Eff>>,
    evt_allow: Arc<AtomicUsize>,
    log: Arc<Mutex<Trace>>,
    id: usize,
}

impl WorkerHandle<Eff> for SimHandle {
    fn send(&mut self, command: Command<Eff>) -> Result<(), EnvironmentError> {
        self.log.lock().unwrap().push(format!("env->w{}: {}", self.id, brief_cmd(&command)));
        self.cmd.lock().unwrap().push_back(command);
        Ok(())
    }
    fn try_recv(&mut self) -> Result<Option<Event<Eff>>, EnvironmentError> {
        if self.evt_allow.load(Ordering::Relaxed) == 0 {
            return Ok(None);
        }
        let e = self.evt.lock().unwrap().pop_front();
        if e.is_some() {
            self.evt_allow.fetch_sub(1, Ordering::Relaxed);
        }
        Ok(e)
    }
}

pub struct SimRx {
    cmd: Q<Command<Eff>>,
    cmd_allow: Arc<AtomicUsize>,
}

impl CommandReceiver<Eff> for SimRx {
    fn try_recv(&mut self) -> Result<Option<Command<Eff>>, EnvironmentError> {
        if self.cmd_allow.load(Ordering::Relaxed) == 0 {
            return Ok(None);
        }
        let c = self.cmd.lock().unwrap().pop_front();
        if c.is_some() {
            self.cmd_allow.fetch_sub(1, Ordering::Relaxed);
        }
        Ok(c)
    }
}

pub struct SimTx {
    evt: Q<Event<Eff>>,
    log: Arc<Mutex<Trace>>,
    id: usize,
}

impl EventSender<Eff> for SimTx {
    fn send(&mut self, event: Event<Eff>) -> Result<(), EnvironmentError> {
        self.log.lock().unwrap().push(format!("w{}->env: {}", self.id, brief_evt(&event)));
        self.evt.lock().unwrap().push_back(event);
        Ok(())
    }
}

fn brief_cmd(c: &Command<Eff>) -> String {
    let s = match c {
        Command::UpdateProgram(_) => "UpdateProgram".to_string(),
        other => format!("{other:?}"),
    };
    truncate(&s, 160)
}

fn brief_evt(e: &Event<Eff>) -> String {
    truncate(&format!("{e:?}"), 160)
}

pub fn trace_cap() -> usize {
    static CAP: std::sync::OnceLock<usize> = std::sync::OnceLock::new();
    *CAP.get_or_init(|| if std::env::var("QV_TRACE").is_ok() { 200_000 } else { 400 })
}

#[derive(Default)]
pub struct Trace {
    pub lines: VecDeque<String>,
    pub total: u64,
}

impl Trace {
    pub fn push(&mut self, s: String) {
        self.total += 1;
        if self.lines.len() >= trace_cap() {
            self.lines.pop_front();
        }
        self.lines.push_back(s);
    }
}

pub struct Chan {
    pub cmd: Q<Command<Eff>>,
    pub evt: Q<Event<Eff>>,
    pub cmd_allow: Arc<AtomicUsize>,
    pub evt_allow: Arc<AtomicUsize>,
}

#[derive(Clone, Debug, PartialEq)]
pub enum Move {
    Env { vis: usize },
    Worker { i: usize, vis: usize },
    Tick { d: u64 },
}

#[derive(Clone, Debug)]
pub struct SimCfg {
    pub workers: usize,
    /// time-slice length per worker (index mod len); empty → 1000
    pub quanta: Vec<usize>,
    pub schedule: Vec<u8>,
    pub max_moves: usize,
    /// k > 0: while something else is enabled the environment may only step on every (k+1)-th move
    /// (widens the windows in which answers and deliveries are still in flight)
    pub env_slow: u8,
}

impl SimCfg {
    pub fn baseline() -> SimCfg {
        SimCfg { workers: 1, quanta: vec![1000], schedule: vec![], max_moves: 200_000, env_slow: 0 }
    }
}

#[derive(Debug, Clone)]
pub enum SimEnd {
    Done,
    Quiescent,
    Budget,
    Panic(String),
    StepErr(String),
}

pub struct Sim {
    pub env: Environment<Eff>,
    pub workers: Vec<Worker<Eff, SimRx, SimTx>>,
    pub chans: Vec<Chan>,
    pub clock: u64,
    pub cfg: SimCfg,
    pub trace: Arc<Mutex<Trace>>,
    pub moves: usize,
    sched_pos: usize,
    rr: usize,
    pub classes: BTreeMap<&'static str, u64>,
    pub has_backend: bool,
    /// outstanding deferred effect completions (the environment must step to deliver them)
    pub env_poke: Arc<AtomicUsize>,
}

pub const VIS_ALL: usize = usize::MAX / 2;

impl Sim {
    pub fn new(cfg: SimCfg, reg: &Registry, backend: Option<Box<dyn EffectBackend<E = Eff>>>) -> Sim {
        let trace = Arc::new(Mutex::new(Trace::default()));
        let mut chans = Vec::new();
        let mut handles: Vec<Box<dyn WorkerHandle<Eff>>> = Vec::new();
        let mut workers = Vec::new();
        for i in 0..cfg.workers {
            let ch = Chan {
                cmd: Arc::new(Mutex::new(VecDeque::new())),
                evt: Arc::new(Mutex::new(VecDeque::new())),
                cmd_allow: Arc::new(AtomicUsize::new(VIS_ALL)),
                evt_allow: Arc::new(AtomicUsize::new(VIS_ALL)),
            };
            handles.push(Box::new(SimHandle { cmd: ch.cmd.clone(), evt: ch.evt.clone(), evt_allow: ch.evt_allow.clone(), log: trace.clone(), id: i }));
            let rx = SimRx { cmd: ch.cmd.clone(), cmd_allow: ch.cmd_allow.clone() };
            let tx = SimTx { evt: ch.evt.clone(), log: trace.clone(), id: i };
            workers.push(Worker::new(rx, tx, reg.clone(), false, i as u16));
            chans.push(ch);
        }
        let mut env = Environment::new(handles);
        let has_backend = backend.is_some();
        if let Some(b) = backend {
            env.set_effect_backend(b);
        }
        Sim { env, workers, chans, clock: 0, cfg, trace, moves: 0, sched_pos: 0, rr: 0, classes: BTreeMap::new(), has_backend, env_poke: Arc::new(AtomicUsize::new(0)) }
    }

    pub fn class(&mut self, c: &'static str) {
        *self.classes.entry(c).or_insert(0) += 1;
    }

    fn quantum(&self, i: usize) -> usize {
        if self.cfg.quanta.is_empty() { 1000 } else { self.cfg.quanta[i % self.cfg.quanta.len()].max(1) }
    }

    pub fn cmd_len(&self, i: usize) -> usize {
        self.chans[i].cmd.lock().unwrap().len()
    }
    pub fn evt_len(&self, i: usize) -> usize {
        self.chans[i].evt.lock().unwrap().len()
    }

    pub fn worker_enabled(&self, i: usize) -> bool {
        self.cmd_len(i) > 0 || self.workers[i].has_runnable() || self.workers[i].next_timeout_ms().is_some_and(|t| t <= self.clock)
    }

    pub fn env_enabled(&self) -> bool {
        (0..self.workers.len()).any(|i| self.evt_len(i) > 0) || self.env_poke.load(Ordering::Relaxed) > 0
    }

    pub fn next_timeout(&self) -> Option<u64> {
        self.workers.iter().filter_map(|w| w.next_timeout_ms()).min()
    }

    pub fn enabled_moves(&self) -> Vec<Move> {
        let mut v = Vec::new();
        for i in 0..self.workers.len() {
            if self.worker_enabled(i) {
                v.push(Move::Worker { i, vis: VIS_ALL });
            }
        }
        if self.env_enabled() {
            let k = self.cfg.env_slow as usize;
            if k == 0 || v.is_empty() || self.moves % (k + 1) == 0 {
                v.insert(0, Move::Env { vis: VIS_ALL });
            }
        }
        v
    }

    /// Execute one move. Returns Err on a step error or panic.
    pub fn exec(&mut self, m: &Move) -> Result<(), SimEnd> {
        self.moves += 1;
        match m {
            Move::Tick { d } => {
                self.clock += d;
                self.trace.lock().unwrap().push(format!("-- tick +{d} => t={}", self.clock));
                Ok(())
            }
            Move::Env { vis } => {
                for ch in &self.chans {
                    ch.evt_allow.store(*vis, Ordering::Relaxed);
                }
                self.trace.lock().unwrap().push(format!("-- env step (vis {})", if *vis >= VIS_ALL { "all".to_string() } else { vis.to_string() }));
                let env = &mut self.env;
                match catch(|| env.step()) {
                    Err(p) => Err(SimEnd::Panic(format!("environment step panicked: {p} @ {}", last_panic_loc()))),
                    Ok(Err(e)) => Err(SimEnd::StepErr(format!("Environment::step returned Err({e:?})"))),
                    Ok(Ok(_)) => Ok(()),
                }
            }
            Move::Worker { i, vis } => {
                self.chans[*i].cmd_allow.store(*vis, Ordering::Relaxed);
                let q = self.quantum(*i);
                quiver_core::verif::set_quantum_override(Some(q));
                self.trace.lock().unwrap().push(format!("-- worker {i} step (vis {}, quantum {q}, t={})", if *vis >= VIS_ALL { "all".to_string() } else { vis.to_string() }, self.clock));
                let clock = self.clock;
                let w = &mut self.workers[*i];
                let r = catch(|| w.step(clock));
                quiver_core::verif::set_quantum_override(None);
                match r {
                    Err(p) => Err(SimEnd::Panic(format!("worker {i} step panicked: {p} @ {}", last_panic_loc()))),
                    Ok(Err(e)) => Err(SimEnd::StepErr(format!("Worker::step (worker {i}) returned Err({e:?})"))),
                    Ok(Ok(_)) => Ok(()),
                }
            }
        }
    }

    /// Pick the next move: from the schedule bytes while they last, then fair round-robin.
    pub fn choose(&mut self) -> Option<Move> {
        let enabled = self.enabled_moves();
        let timeout = self.next_timeout();
        if enabled.is_empty() {
            // nothing runnable: advance the clock to the next timeout if any
            return match timeout {
                Some(t) if t > self.clock => Some(Move::Tick { d: t - self.clock }),
                _ => None,
            };
        }
        if self.sched_pos < self.cfg.schedule.len() {
            let b = self.cfg.schedule[self.sched_pos] as usize;
            self.sched_pos += 1;
            let n = enabled.len();
            // occasionally a clock tick while things are runnable (timeout races)
            if timeout.is_some_and(|t| t > self.clock) && b % 11 == 10 {
                let t = timeout.unwrap();
                let d = match (b / 11) % 3 {
                    0 => 1,
                    1 => t - self.clock,
                    _ => t - self.clock + 1,
                };
                return Some(Move::Tick { d });
            }
            let vis = match (b / n.max(1)) % 4 {
                0 => 1,
                1 => 2,
                _ => VIS_ALL,
            };
            return Some(match &enabled[b % n] {
                Move::Env { .. } => Move::Env { vis },
                Move::Worker { i, .. } => Move::Worker { i: *i, vis },
                t => t.clone(),
            });
        }
        // fair default: rotate over [env, w0, w1, …]
        let slots = self.workers.len() + 1;
        for k in 0..slots {
            let s = (self.rr + k) % slots;
            let cand = if s == 0 { Move::Env { vis: VIS_ALL } } else { Move::Worker { i: s - 1, vis: VIS_ALL } };
            if enabled.contains(&cand) {
                self.rr = (s + 1) % slots;
                return Some(cand);
            }
        }
        None
    }

    /// Run until `done` says so, quiescence, or the move budget.
    pub fn run_until(&mut self, mut done: impl FnMut(&mut Sim) -> bool, mut after: impl FnMut(&mut Sim, &Move) -> Result<(), String>) -> SimEnd {
        loop {
            if done(self) {
                return SimEnd::Done;
            }
            if self.moves >= self.cfg.max_moves {
                return SimEnd::Budget;
            }
            let Some(m) = self.choose() else { return SimEnd::Quiescent };
            if let Err(e) = self.exec(&m) {
                return e;
            }
            if let Err(msg) = after(self, &m) {
                return SimEnd::StepErr(format!("invariant: {msg}"));
            }
        }
    }

    /// Start a program and return (pid, request id).
    pub fn start(&mut self, bytecode: Bytecode) -> Result<(ProcessId, u64), String> {
        let pid = self.env.start_process(Some(bytecode)).map_err(|e| format!("{e:?}"))?;
        let rid = self.env.request_result(pid, None).map_err(|e| format!("{e:?}"))?;
        Ok((pid, rid))
    }

    pub fn poll(&mut self, rid: u64) -> Option<Result<(Value, Vec<Vec<u8>>), quiver_core::error::Error>> {
        match self.env.poll_request(rid) {
            Ok(Some(RequestResult::Result(r, _))) => Some(r),
            _ => None,
        }
    }

    pub fn tables_hval(&self, v: &Value, heap: &[Vec<u8>]) -> HVal {
        let p = self.env.get_program();
        let t = Tables { tuples: p.get_tuples(), constants: p.get_constants() };
        hval::from_extracted(v, heap, &t)
    }

    /// Result of every process on every worker (None = not finished).
    pub fn process_results(&self) -> BTreeMap<ProcessId, Option<Result<HVal, quiver_core::error::Error>>> {
        let p = self.env.get_program();
        let t = Tables { tuples: p.get_tuples(), constants: p.get_constants() };
        let mut out = BTreeMap::new();
        for w in &self.workers {
            let ex = w.verif_executor();
            for pid in ex.verif_parked().all {
                if let Some(pr) = ex.get_process(pid) {
                    let r = pr.result.as_ref().map(|r| match r {
                        Ok(v) => Ok(hval::from_executor(v, ex, &t)),
                        Err(e) => Err(e.clone()),
                    });
                    out.insert(pid, r);
                }
            }
        }
        out
    }

    pub fn trace_tail(&self, n: usize) -> Vec<String> {
        let t = self.trace.lock().unwrap();
        t.lines.iter().rev().take(n).rev().cloned().collect()
    }

    /// Global quiescence: nothing queued, nothing runnable, no pending timeout.
    pub fn quiescent(&self) -> bool {
        self.enabled_moves().is_empty() && self.next_timeout().is_none()
    }
}

thread_local! {
    /// Set before `run_program` to hand the simulator the backend's pending-completions counter.
    pub static POKE: std::cell::RefCell<Option<Arc<AtomicUsize>>> = const { std::cell::RefCell::new(None) };
}

/// Outcome of running one program to completion in the simulator.
#[derive(Debug, Clone)]
pub struct ProgRun {
    pub end: SimEnd,
    pub result: Option<Result<HVal, quiver_core::error::Error>>,
    pub processes: BTreeMap<ProcessId, Option<Result<HVal, quiver_core::error::Error>>>,
    pub moves: usize,
    pub clock: u64,
    pub trace: Vec<String>,
    pub classes: BTreeMap<&'static str, u64>,
}

/// Compile-free convenience: run bytecode under a configuration, draining to quiescence after
/// the entry result is available so every process reaches its final state.
pub fn run_program(
    bytecode: &Bytecode,
    cfg: SimCfg,
    reg: &Registry,
    backend: Option<Box<dyn EffectBackend<E = Eff>>>,
    mut after: impl FnMut(&mut Sim, &Move) -> Result<(), String>,
) -> ProgRun {
    let mut sim = Sim::new(cfg, reg, backend);
    if let Some(p) = POKE.with(|p| p.borrow_mut().take()) {
        sim.env_poke = p;
    }
    let (_pid, rid) = match sim.start(bytecode.clone()) {
        Ok(x) => x,
        Err(e) => {
            return ProgRun { end: SimEnd::StepErr(format!("start_process failed: {e}")), result: None, processes: BTreeMap::new(), moves: 0, clock: 0, trace: vec![], classes: BTreeMap::new() };
        }
    };
    let mut result = None;
    let end = sim.run_until(
        |s| {
            if result.is_none()
                && let Some(r) = s.poll(rid)
            {
                result = Some(match r {
                    Ok((v, heap)) => Ok(s.tables_hval(&v, &heap)),
                    Err(e) => Err(e),
                });
            }
            // keep going until everything settles, so per-process results are final
            result.is_some() && s.quiescent()
        },
        &mut after,
    );
    let processes = sim.process_results();
    ProgRun { end, result, processes, moves: sim.moves, clock: sim.clock, trace: sim.trace_tail(trace_cap()), classes: sim.classes.clone() }
}
