//! E8 — a REPL session driven inside the deterministic simulator (real `Repl`, `Environment`
//! and `Worker`s; generated schedule).

use crate::hval::HVal;
use crate::props::c06::{self, HeapFacts, Shadow};
use crate::qrun::{Eff, Modules, Registry};
use crate::sim::{Move, Sim, SimCfg, SimEnd};
use quiver_compiler::PackageResolver;
use quiver_environment::{Repl, ReplError, RequestResult};
use std::collections::BTreeMap;

pub struct ReplSim {
    pub sim: Sim,
    pub repl: Repl<Eff>,
    pub shadow: Shadow,
    pub heap: HeapFacts,
}

#[derive(Debug, Clone, PartialEq)]
pub enum LineOutcome {
    /// accepted and evaluated
    Value(HVal),
    /// accepted, no executable code (type definitions only)
    NoCode,
    /// runtime error (debug text)
    RuntimeError(String),
    RejectedByParser(String),
    RejectedByCompiler(String),
}

impl ReplSim {
    pub fn new(cfg: SimCfg, modules: &Modules, reg: &Registry) -> Result<ReplSim, String> {
        let workers = cfg.workers;
        let mut sim = Sim::new(cfg, reg, None);
        let resolver = Box::new(PackageResolver::memory(modules.clone()));
        let repl = Repl::new(&mut sim.env, resolver, reg.clone()).map_err(|e| format!("Repl::new: {e}"))?;
        Ok(ReplSim { sim, repl, shadow: vec![BTreeMap::new(); workers], heap: HeapFacts::default() })
    }

    /// Start a new session (a new `Repl`) on the same environment, as the CLI does after a
    /// runtime error; the environment keeps everything the earlier session merged.
    pub fn restart(&mut self, modules: &Modules, reg: &Registry) -> Result<(), String> {
        let resolver = Box::new(PackageResolver::memory(modules.clone()));
        self.repl = Repl::new(&mut self.sim.env, resolver, reg.clone()).map_err(|e| format!("Repl::new: {e}"))?;
        Ok(())
    }

    /// Drive the simulator until `done` yields a value; heap invariants run after every worker step.
    fn drive<T>(&mut self, mut done: impl FnMut(&mut Sim) -> Option<T>) -> Result<T, String> {
        let mut out: Option<T> = None;
        let shadow = &mut self.shadow;
        let heap = &mut self.heap;
        let end = self.sim.run_until(
            |s| {
                if out.is_none() {
                    out = done(s);
                }
                out.is_some()
            },
            |s, m| match m {
                Move::Worker { i, .. } => c06::heap_invariant(s, *i, shadow, heap),
                _ => Ok(()),
            },
        );
        match (out, end) {
            (Some(v), _) => Ok(v),
            (None, SimEnd::Budget) => Err("budget".into()),
            (None, other) => Err(format!("simulator ended in {other:?} before the request was answered")),
        }
    }

    pub fn eval(&mut self, line: &str) -> Result<LineOutcome, String> {
        let tid = self.sim.env.request_process_types().map_err(|e| format!("request_process_types: {e:?}"))?;
        let types = self.drive(|s| match s.env.poll_request(tid) {
            Ok(Some(RequestResult::ProcessTypes(t))) => Some(Ok(t)),
            Ok(Some(other)) => Some(Err(format!("unexpected answer to the process-types request: {:?}", std::mem::discriminant(&other)))),
            Ok(None) => None,
            Err(e) => Some(Err(format!("{e:?}"))),
        })??;
        let rid = match self.repl.evaluate(&mut self.sim.env, line, types) {
            Ok(Some(rid)) => rid,
            Ok(None) => return Ok(LineOutcome::NoCode),
            Err(ReplError::Parser(e)) => return Ok(LineOutcome::RejectedByParser(format!("{e}"))),
            Err(ReplError::Compiler(e)) => return Ok(LineOutcome::RejectedByCompiler(format!("{e:?}"))),
            Err(other) => return Err(format!("evaluate: {other}")),
        };
        let r = self.drive(|s| match s.env.poll_request(rid) {
            Ok(Some(RequestResult::Result(r, _))) => Some(Ok(match r {
                Ok((v, heap)) => LineOutcome::Value(s.tables_hval(&v, &heap)),
                Err(e) => LineOutcome::RuntimeError(format!("{e:?}")),
            })),
            Ok(Some(_)) => Some(Err("unexpected answer to the result request".to_string())),
            Ok(None) => None,
            Err(e) => Some(Err(format!("{e:?}"))),
        })??;
        Ok(r)
    }

    /// Names of the session's variables, in definition order.
    pub fn variables(&self) -> Vec<String> {
        self.repl.get_variables().into_iter().map(|(n, _)| n).collect()
    }

    pub fn variable(&mut self, name: &str) -> Result<HVal, String> {
        let rid = self.repl.request_variable(&mut self.sim.env, name).map_err(|e| format!("request_variable({name}): {e:?}"))?;
        self.drive(|s| match s.env.poll_request(rid) {
            Ok(Some(RequestResult::Locals(vals))) => Some(match vals.first() {
                Some((v, heap)) => Ok(s.tables_hval(v, heap)),
                None => Err("empty answer to the locals request".to_string()),
            }),
            Ok(Some(_)) => Some(Err("unexpected answer to the locals request".to_string())),
            Ok(None) => None,
            Err(e) => Some(Err(format!("{e:?}"))),
        })?
    }
}
