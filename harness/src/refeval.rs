//! E4 — an independent reference evaluator for the documented core sequential language,
//! written from docs/spec.md over the parser's AST. It knows nothing about bytecode, stack
//! layout, locals or narrowing; values are host values.
//!
//! Anything outside the core (processes, select, imports, I/O, generics that need inference,
//! resources) raises `Stop::Unsupported`, which makes the caller skip the case.

use crate::props::c12::{self, Arg, M, Model};
use num_bigint::BigInt;
use quiver_compiler::ast::{self, AccessPath, AccessSource, FieldValue, Literal, Match, Term, TupleName};
use std::collections::HashMap;
use std::rc::Rc;

#[derive(Clone, Debug)]
pub enum RV {
    Int(BigInt),
    Bin(Vec<u8>),
    Tup { name: Option<String>, fields: Vec<(Option<String>, RV)> },
    Fn(Rc<Closure>),
    Builtin(String),
}

pub struct Closure {
    pub func: ast::Function,
    pub env: Env,
    pub nilary: bool,
}

impl std::fmt::Debug for Closure {
    fn fmt(&self, f: &mut std::fmt::Formatter<'_>) -> std::fmt::Result {
        write!(f, "<closure nilary={}>", self.nilary)
    }
}

impl RV {
    pub fn nil() -> RV {
        RV::Tup { name: None, fields: vec![] }
    }
    pub fn ok() -> RV {
        RV::Tup { name: Some("Ok".into()), fields: vec![] }
    }
    pub fn is_nil(&self) -> bool {
        matches!(self, RV::Tup { name: None, fields } if fields.is_empty())
    }
    pub fn is_callable(&self) -> bool {
        matches!(self, RV::Fn(_) | RV::Builtin(_))
    }
}

#[derive(Debug, Clone)]
pub enum Stop {
    Unsupported(String),
    /// a runtime error of a partial builtin (division by zero …)
    DomainError(String),
    /// the evaluator's own budget
    Budget,
    /// the program is stuck by the reference semantics (calling a non-function, missing field …):
    /// the compiler should have rejected it
    Stuck(String),
}

type R<T> = Result<T, Stop>;

fn unsupported<T>(what: &str) -> R<T> {
    Err(Stop::Unsupported(what.to_string()))
}

/// Lexical environment: a persistent linked list of frames, so closures capture cheaply.
#[derive(Clone, Default)]
pub struct Env {
    vars: Option<Rc<Frame>>,
}

struct Frame {
    name: String,
    value: RV,
    next: Option<Rc<Frame>>,
}

impl Env {
    fn get(&self, name: &str) -> Option<RV> {
        let mut cur = self.vars.as_ref();
        while let Some(f) = cur {
            if f.name == name {
                return Some(f.value.clone());
            }
            cur = f.next.as_ref();
        }
        None
    }
    fn with(&self, name: &str, value: RV) -> Env {
        Env { vars: Some(Rc::new(Frame { name: name.to_string(), value, next: self.vars.clone() })) }
    }
}

pub struct Interp {
    pub aliases: HashMap<String, (Vec<String>, ast::Type)>,
    pub steps: u64,
    pub max_steps: u64,
    pub depth: u32,
    /// extra modules of the case (name -> source); std modules are read from the repository
    pub modules: HashMap<String, String>,
    module_cache: HashMap<String, RV>,
    importing: Vec<String>,
    /// semantic situations met during evaluation that are the triggers of recorded defects of the
    /// compiler (used only to attribute a difference, never to decide one)
    pub events: std::collections::BTreeSet<&'static str>,
    bind_count: u64,
    nil_filled: std::collections::HashSet<String>,
}

/// Per-call context: the enclosing function's parameter and the closure itself (for `^`).
#[derive(Clone)]
struct Ctx {
    param: RV,
    this: Option<Rc<Closure>>,
}

impl Interp {
    pub fn new(max_steps: u64) -> Interp {
        Interp { aliases: HashMap::new(), steps: 0, max_steps, depth: 0, modules: HashMap::new(), module_cache: HashMap::new(), importing: Vec::new(), events: Default::default(), bind_count: 0, nil_filled: Default::default() }
    }

    /// The value of a module: its source evaluated as a program of its own (own aliases).
    fn import(&mut self, path: &[String]) -> R<RV> {
        let key = path.join("/");
        if let Some(v) = self.module_cache.get(&key) {
            return Ok(v.clone());
        }
        if self.importing.contains(&key) {
            return Err(Stop::Stuck("import cycle".into()));
        }
        let src = match self.modules.get(&key) {
            Some(s) => s.clone(),
            None => match std::fs::read_to_string(format!("/repo/std/{key}.qv")) {
                Ok(s) => s,
                Err(_) => return Err(Stop::Stuck(format!("module {key} not found"))),
            },
        };
        let ast = quiver_compiler::parse(&src).map_err(|e| Stop::Stuck(format!("module {key} does not parse: {e}")))?;
        let saved = std::mem::take(&mut self.aliases);
        self.importing.push(key.clone());
        let r = self.program(&ast);
        self.importing.pop();
        self.aliases = saved;
        let v = r?;
        self.module_cache.insert(key, v.clone());
        Ok(v)
    }

    fn tick(&mut self) -> R<()> {
        self.steps += 1;
        if self.steps > self.max_steps { Err(Stop::Budget) } else { Ok(()) }
    }

    /// Evaluate a whole program (parameter = nil).
    pub fn program(&mut self, p: &ast::Program) -> R<RV> {
        let mut chains: Vec<ast::Chain> = Vec::new();
        for st in &p.statements {
            match st {
                ast::Statement::TypeAlias { name: Some(n), type_parameters, type_definition, .. } => {
                    self.aliases.insert(n.clone(), (type_parameters.clone(), type_definition.clone()));
                }
                // the module's nameless default type: only reachable through type syntax we do
                // not interpret (`'`, `'%mod`), so it can be ignored here
                ast::Statement::TypeAlias { name: None, .. } => {}
                ast::Statement::Expression(seq) => chains.extend(seq.chains.iter().cloned()),
            }
        }
        if chains.is_empty() {
            return Ok(RV::nil());
        }
        let ctx = Ctx { param: RV::nil(), this: None };
        let mut env = Env::default();
        self.sequence(&ast::Sequence { chains }, RV::nil(), &mut env, &ctx)
    }

    fn sequence(&mut self, seq: &ast::Sequence, input: RV, env: &mut Env, ctx: &Ctx) -> R<RV> {
        let mut cur = input;
        let n = seq.chains.len();
        for (i, ch) in seq.chains.iter().enumerate() {
            cur = self.chain(ch, cur, env, ctx)?;
            if cur.is_nil() && i + 1 < n {
                return Ok(RV::nil());
            }
        }
        Ok(cur)
    }

    fn chain(&mut self, ch: &ast::Chain, input: RV, env: &mut Env, ctx: &Ctx) -> R<RV> {
        self.tick()?;
        let mut cur = input;
        let mut failed_match = false;
        for t in &ch.terms {
            cur = self.term(t, cur, env, ctx)?;
            if matches!(t, Term::Match(_)) && cur.is_nil() {
                failed_match = true;
            } else if failed_match && !cur.is_nil() {
                // the chain is an infallible pipe: a later term turned the failed match's nil
                // into a value again, so whatever follows runs with the pattern's binders nil
                self.events.insert("chain-continues-to-a-value-after-a-failed-match");
            }
        }
        match &ch.match_pattern {
            None => Ok(cur),
            Some(p) => Ok(if self.bind(p, &cur, env)? { RV::ok() } else { RV::nil() }),
        }
    }

    fn expression(&mut self, e: &ast::Expression, param: RV, env: &Env, ctx: &Ctx) -> R<RV> {
        for (bi, br) in e.branches.iter().enumerate() {
            // bindings of a branch are local to the block
            let mut scope = env.clone();
            if bi > 0
                && param.is_nil()
                && br.condition.chains.first().and_then(|c| c.terms.first()).is_some_and(|t| matches!(t, Term::Match(Match::Type(_)) | Term::Match(Match::As(..)) | Term::Match(Match::Identifier(..))))
            {
                self.events.insert("nil-scrutinee-reaches-a-later-branch");
            }
            let binds_before = self.bind_count;
            let c = self.sequence(&br.condition, param.clone(), &mut scope, ctx)?;
            match &br.consequence {
                None => {
                    if !c.is_nil() {
                        return Ok(c);
                    }
                    let ends_in_nil_literal = br.condition.chains.last().is_some_and(|ch| ch.match_pattern.is_none() && matches!(ch.terms.last(), Some(Term::Tuple(t)) if t.fields.is_empty() && matches!(t.name, TupleName::Anonymous)));
                    if self.bind_count > binds_before && ends_in_nil_literal && bi + 1 < e.branches.len() {
                        self.events.insert("branch-binds-then-ends-in-literal-nil");
                    }
                }
                Some(cons) => {
                    if !c.is_nil() {
                        return self.sequence(cons, param.clone(), &mut scope, ctx);
                    }
                }
            }
        }
        if e.branches.last().is_some_and(|b| b.consequence.is_some()) {
            self.events.insert("block-nil-by-exhaustion-last-branch-has-consequence");
        }
        Ok(RV::nil())
    }

    fn term(&mut self, t: &Term, flow: RV, env: &mut Env, ctx: &Ctx) -> R<RV> {
        self.tick()?;
        match t {
            Term::Literal(Literal::Integer(i)) => Ok(RV::Int(i.clone())),
            Term::Literal(Literal::Binary(b)) => Ok(RV::Bin(b.clone())),
            Term::Tuple(tp) => self.tuple(tp, flow, env, ctx),
            Term::String(_, segs) => {
                let mut bytes = Vec::new();
                for s in segs {
                    match s {
                        ast::StrSegment::Text(b) => bytes.extend(b),
                        ast::StrSegment::Hole(e) => {
                            let v = self.expression(e, flow.clone(), env, ctx)?;
                            match v {
                                RV::Tup { name: Some(n), fields } if n == "Str" && fields.len() == 1 => match &fields[0].1 {
                                    RV::Bin(b) => bytes.extend(b),
                                    _ => return Err(Stop::Stuck("string hole is not a Str".into())),
                                },
                                _ => return Err(Stop::Stuck("string hole is not a Str".into())),
                            }
                        }
                    }
                }
                Ok(RV::Tup { name: Some("Str".into()), fields: vec![(None, RV::Bin(bytes))] })
            }
            Term::Match(p) => Ok(if self.bind(p, &flow, env)? { RV::ok() } else { RV::nil() }),
            Term::Block(e) => self.expression(e, flow, env, ctx),
            Term::Function(f) => Ok(RV::Fn(Rc::new(self.closure(f, env)?))),
            Term::Access(a) => self.access(a, flow, env, ctx, true),
            Term::Reference(a) => self.access(a, flow, env, ctx, false),
            Term::Spawn(..) | Term::Self_ | Term::Select(..) | Term::Process(_) => unsupported("processes"),
        }
    }

    fn closure(&mut self, f: &ast::Function, env: &Env) -> R<Closure> {
        // type parameters only matter to the type checker; a type test against one is refused in
        // `inhabits`
        if f.parameter_type.is_none() && f.body.as_ref().is_some_and(expr_uses_param) {
            // `#{ … $ … }`: the parameter type is inferred from the call context, which is the
            // type checker's business
            return unsupported("closure with an inferred parameter type");
        }
        let nilary = match &f.parameter_type {
            None => true,
            Some(t) => self.type_is_nil(t),
        };
        Ok(Closure { func: f.clone(), env: env.clone(), nilary })
    }

    fn type_is_nil(&self, t: &ast::Type) -> bool {
        match t {
            ast::Type::Tuple(tt) => tt.name.is_none() && tt.fields.is_empty() && !tt.is_partial,
            ast::Type::Identifier { name, arguments } if arguments.is_empty() => match self.aliases.get(name) {
                Some((_, def)) => self.type_is_nil(def),
                None => false,
            },
            _ => false,
        }
    }

    fn tuple(&mut self, tp: &ast::Tuple, flow: RV, env: &mut Env, ctx: &Ctx) -> R<RV> {
        let mut fields: Vec<(Option<String>, RV)> = Vec::new();
        let mut inherited: Option<Option<String>> = None;
        for f in &tp.fields {
            match &f.value {
                FieldValue::Chain(ch) => {
                    let v = self.chain(ch, flow.clone(), env, ctx)?;
                    put_field(&mut fields, f.name.clone(), v);
                }
                FieldValue::Spread(src) => {
                    let v = match src {
                        None => flow.clone(),
                        Some(n) => env.get(n).ok_or_else(|| Stop::Stuck(format!("unbound {n}")))?,
                    };
                    match v {
                        RV::Tup { name, fields: fs } => {
                            if inherited.is_none() {
                                inherited = Some(name);
                            }
                            for (l, x) in fs {
                                put_field(&mut fields, l, x);
                            }
                        }
                        _ => return Err(Stop::Stuck("spread of a non-tuple".into())),
                    }
                }
            }
        }
        let name = match &tp.name {
            TupleName::Anonymous => None,
            TupleName::Named(n) => Some(n.clone()),
            TupleName::Inherit => inherited.unwrap_or(None),
        };
        Ok(RV::Tup { name, fields })
    }

    fn access(&mut self, a: &ast::Access, flow: RV, env: &mut Env, ctx: &Ctx, apply: bool) -> R<RV> {
        let base: RV = match &a.source {
            None => flow.clone(),
            Some(AccessSource::Identifier(n)) => {
                let v = env.get(n).ok_or_else(|| Stop::Stuck(format!("unbound variable {n}")))?;
                if v.is_nil() && self.nil_filled.contains(n) {
                    self.events.insert("binder-of-a-failed-match-is-read");
                }
                v
            }
            Some(AccessSource::Parameter) => ctx.param.clone(),
            Some(AccessSource::Ripple) => flow.clone(),
            Some(AccessSource::Builtin(n)) => RV::Builtin(n.trim_matches('_').to_string()),
            Some(AccessSource::Import(path)) => self.import(path)?,
            Some(AccessSource::Self_) => return unsupported("self"),
            Some(AccessSource::TailCall(None)) => match &ctx.this {
                Some(c) => {
                    self.events.insert("tail-call");
                    RV::Fn(c.clone())
                }
                None => return Err(Stop::Stuck("`^` outside a function".into())),
            },
            Some(AccessSource::TailCall(Some(n))) => env.get(n).ok_or_else(|| Stop::Stuck(format!("unbound {n}")))?,
            Some(AccessSource::TailCallRipple) => {
                return match &flow {
                    RV::Fn(_) | RV::Builtin(_) => self.call(&flow, RV::nil()),
                    _ => Err(Stop::Stuck("`^~` on a non-function".into())),
                };
            }
        };
        let mut v = base;
        for p in &a.accessors {
            v = match (&v, p) {
                (RV::Tup { fields, .. }, AccessPath::Field(n)) => match fields.iter().find(|(l, _)| l.as_deref() == Some(n.as_str())) {
                    Some((_, x)) => x.clone(),
                    None => return Err(Stop::Stuck(format!("no field {n}"))),
                },
                (RV::Tup { fields, .. }, AccessPath::Index(i)) => match fields.get(*i) {
                    Some((_, x)) => x.clone(),
                    None => return Err(Stop::Stuck(format!("no field {i}"))),
                },
                _ => return Err(Stop::Stuck("field access on a non-tuple".into())),
            };
        }
        let is_ripple_or_param = matches!(a.source, Some(AccessSource::Ripple) | Some(AccessSource::Parameter) | None);
        if apply && v.is_callable() && !is_ripple_or_param {
            return self.call(&v, flow);
        }
        if apply && v.is_callable() && is_ripple_or_param && !a.accessors.is_empty() && matches!(a.source, None) {
            // postfix `.field` that yields a function: applied like a variable would be? The spec
            // does not say; treat as unsupported rather than guess
            return unsupported("postfix access yielding a function");
        }
        Ok(v)
    }

    /// Does the parameter type contain (through aliases, unions and fields) a partial type one
    /// of whose named fields sits at another position in the argument?
    fn layout_differs(&self, v: &RV, t: &ast::Type, depth: u32) -> bool {
        if depth > 8 {
            return false;
        }
        let RV::Tup { fields, .. } = v else { return false };
        match t {
            ast::Type::Identifier { name, arguments } if arguments.is_empty() => match self.aliases.get(name) {
                Some((ps, def)) if ps.is_empty() => self.layout_differs(v, def, depth + 1),
                _ => false,
            },
            ast::Type::Union(u) => u.types.iter().any(|m| self.layout_differs(v, m, depth + 1)),
            ast::Type::Intersection(ms) => ms.iter().any(|m| self.layout_differs(v, m, depth + 1)),
            ast::Type::Tuple(tt) => {
                for (i, f) in tt.fields.iter().enumerate() {
                    let ast::FieldType::Field { name, type_def } = f else { continue };
                    let found = match name {
                        Some(n) => fields.iter().position(|(l, _)| l.as_deref() == Some(n.as_str())),
                        None => Some(i),
                    };
                    let Some(pos) = found else { continue };
                    if tt.is_partial && pos != i {
                        return true;
                    }
                    if let Some((_, fv)) = fields.get(pos)
                        && self.layout_differs(fv, type_def, depth + 1)
                    {
                        return true;
                    }
                }
                false
            }
            _ => false,
        }
    }

    pub fn call(&mut self, f: &RV, arg: RV) -> R<RV> {
        self.tick()?;
        match f {
            RV::Builtin(name) => self.builtin(name, arg),
            RV::Fn(c) => {
                self.depth += 1;
                if self.depth > 1500 {
                    self.depth -= 1;
                    return Err(Stop::Budget);
                }
                let arg = if c.nilary { RV::nil() } else { arg };
                if let Some(pt) = &c.func.parameter_type
                    && self.layout_differs(&arg, pt, 0)
                {
                    self.events.insert("partial-typed-parameter-with-other-layout");
                }
                let ctx = Ctx { param: arg.clone(), this: Some(c.clone()) };
                let r = match &c.func.body {
                    None => Ok(arg),
                    Some(body) => self.expression(body, arg, &c.env, &ctx),
                };
                self.depth -= 1;
                r
            }
            _ => Err(Stop::Stuck("call of a non-function".into())),
        }
    }

    fn builtin(&mut self, name: &str, arg: RV) -> R<RV> {
        fn to_arg(v: &RV) -> Option<Arg> {
            match v {
                RV::Int(i) => Some(Arg::Int(i.clone())),
                RV::Bin(b) => Some(Arg::Bin(b.clone())),
                RV::Tup { name: None, fields } if fields.iter().all(|(l, _)| l.is_none()) => Some(Arg::Tuple(fields.iter().map(|(_, f)| to_arg(f)).collect::<Option<Vec<_>>>()?)),
                _ => None,
            }
        }
        let Some(a) = to_arg(&arg) else { return unsupported("builtin argument shape") };
        // models materialise their results: refuse sizes that would not fit comfortably
        fn big(a: &Arg, limit: u32) -> bool {
            match a {
                Arg::Int(i) => i.bits() > limit as u64,
                Arg::Bin(b) => b.len() > 1 << 20,
                Arg::Tuple(v) => v.iter().any(|x| big(x, limit)),
            }
        }
        let sizey = ["repeat", "new", "power", "pow", "shift", "factorial", "random", "pad"].iter().any(|k| name.contains(k));
        if big(&a, if sizey { 16 } else { 200_000 }) {
            return unsupported("builtin argument too large for the model");
        }
        match c12::model(name, &a) {
            Model::Val(M::Int(i)) => Ok(RV::Int(i)),
            Model::Val(M::Bin(b)) => Ok(RV::Bin(b)),
            Model::Val(M::Nil) => Ok(RV::nil()),
            Model::DomainErr => Err(Stop::DomainError(name.to_string())),
            _ => Err(Stop::Unsupported(format!("builtin without an exact model: {name} on {arg:?}"))),
        }
    }

    // -----------------------------------------------------------------------------------------
    // patterns

    /// Match `v` against `p`; on success the bindings are added to `env`.
    fn bind(&mut self, p: &Match, v: &RV, env: &mut Env) -> R<bool> {
        self.bind_count += 1;
        if v.is_nil() && matches!(p, Match::Identifier(..)) {
            self.events.insert("variable-bound-to-nil");
        }
        let mut binds: Vec<(String, RV)> = Vec::new();
        if self.matches(p, v, env, &mut binds)? {
            for (n, x) in binds {
                *env = env.with(&n, x);
            }
            Ok(true)
        } else {
            // the match evaluates to nil and the chain goes on (a chain is an infallible pipe):
            // the pattern's variables are in scope afterwards, holding nil
            let mut names = Vec::new();
            pattern_vars(p, &mut names);
            for n in names {
                *env = env.with(&n, RV::nil());
                self.nil_filled.insert(n);
            }
            Ok(false)
        }
    }

    fn matches(&mut self, p: &Match, v: &RV, env: &Env, binds: &mut Vec<(String, RV)>) -> R<bool> {
        self.tick()?;
        Ok(match p {
            Match::Identifier(n, _) => {
                // a name repeated within one pattern is an equality test
                if let Some((_, prev)) = binds.iter().find(|(b, _)| b == n) {
                    equal(prev, v)?
                } else {
                    binds.push((n.clone(), v.clone()));
                    true
                }
            }
            Match::Placeholder => true,
            Match::Literal(Literal::Integer(i)) => matches!(v, RV::Int(x) if x == i),
            Match::Literal(Literal::Binary(b)) => matches!(v, RV::Bin(x) if x == b),
            Match::String(_, bytes) => matches!(v, RV::Tup { name: Some(n), fields } if n == "Str" && fields.len() == 1 && matches!(&fields[0].1, RV::Bin(b) if b == bytes)),
            Match::Reference(n, _) => {
                let cur = env.get(n).ok_or_else(|| Stop::Stuck(format!("unbound pin {n}")))?;
                equal(&cur, v)?
            }
            Match::Tuple(mt) => match v {
                RV::Tup { name, fields } => {
                    if mt.name != *name || mt.fields.len() != fields.len() {
                        return Ok(false);
                    }
                    for (mf, (l, fv)) in mt.fields.iter().zip(fields.iter()) {
                        if mf.name != *l {
                            return Ok(false);
                        }
                        if !self.matches(&mf.pattern, fv, env, binds)? {
                            return Ok(false);
                        }
                    }
                    true
                }
                _ => false,
            },
            Match::Partial(pp) => match v {
                RV::Tup { name, fields } => {
                    if let Some(n) = &pp.name
                        && name.as_ref() != Some(n)
                    {
                        return Ok(false);
                    }
                    for pf in &pp.fields {
                        let Some((_, fv)) = fields.iter().find(|(l, _)| l.as_deref() == Some(pf.name.as_str())) else { return Ok(false) };
                        match &pf.pattern {
                            None => {
                                if let Some((_, prev)) = binds.iter().find(|(b, _)| *b == pf.name) {
                                    if !equal(prev, fv)? {
                                        return Ok(false);
                                    }
                                } else {
                                    binds.push((pf.name.clone(), fv.clone()));
                                }
                            }
                            Some(sub) => {
                                if !self.matches(sub, fv, env, binds)? {
                                    return Ok(false);
                                }
                            }
                        }
                    }
                    true
                }
                _ => false,
            },
            Match::Star(n) => match v {
                RV::Tup { name, fields } => {
                    self.events.insert("star-pattern");
                    if let Some(n) = n
                        && name.as_ref() != Some(n)
                    {
                        return Ok(false);
                    }
                    for (l, fv) in fields {
                        if let Some(l) = l {
                            binds.push((l.clone(), fv.clone()));
                        }
                    }
                    true
                }
                _ => false,
            },
            Match::Type(t) => self.inhabits(v, t, &mut Vec::new())?,
            Match::As(t, n, _) => {
                if self.inhabits(v, t, &mut Vec::new())? {
                    binds.push((n.clone(), v.clone()));
                    true
                } else {
                    false
                }
            }
            Match::Or(alts) => {
                for a in alts {
                    let mut b2 = binds.clone();
                    if self.matches(a, v, env, &mut b2)? {
                        *binds = b2;
                        return Ok(true);
                    }
                }
                false
            }
        })
    }

    /// Structural membership of a value in a source-level type. `stack` holds the enclosing
    /// boundaries (unions and function types) for `^`.
    fn inhabits(&mut self, v: &RV, t: &ast::Type, stack: &mut Vec<ast::Type>) -> R<bool> {
        self.tick()?;
        self.depth += 1;
        if self.depth > 400 {
            self.depth -= 1;
            // e.g. an alias defined in terms of itself without a constructor in between
            return Err(Stop::Budget);
        }
        let r = self.inhabits_inner(v, t, stack);
        self.depth -= 1;
        r
    }

    fn inhabits_inner(&mut self, v: &RV, t: &ast::Type, stack: &mut Vec<ast::Type>) -> R<bool> {
        Ok(match t {
            ast::Type::Primitive(ast::PrimitiveType::Int) => matches!(v, RV::Int(_)),
            ast::Type::Primitive(ast::PrimitiveType::Bin) => matches!(v, RV::Bin(_)),
            ast::Type::Primitive(ast::PrimitiveType::Ref) => return unsupported("ref type"),
            ast::Type::Tuple(tt) => {
                let RV::Tup { name, fields } = v else { return Ok(false) };
                if tt.fields.iter().any(|f| matches!(f, ast::FieldType::Spread { .. })) {
                    return unsupported("type spread");
                }
                // a named tuple type with no fields may be an alias reference in disguise
                if let Some(n) = &tt.name
                    && n.chars().next().is_some_and(|c| c.is_lowercase())
                {
                    return unsupported("alias with spread syntax");
                }
                if tt.is_partial {
                    if let Some(n) = &tt.name
                        && name.as_ref() != Some(n)
                    {
                        return Ok(false);
                    }
                    for f in &tt.fields {
                        let ast::FieldType::Field { name: Some(fnm), type_def } = f else { return unsupported("partial field") };
                        let Some((_, fv)) = fields.iter().find(|(l, _)| l.as_deref() == Some(fnm.as_str())) else { return Ok(false) };
                        if !self.inhabits(fv, type_def, stack)? {
                            return Ok(false);
                        }
                    }
                    true
                } else {
                    if tt.name != *name || tt.fields.len() != fields.len() {
                        return Ok(false);
                    }
                    for (f, (l, fv)) in tt.fields.iter().zip(fields.iter()) {
                        let ast::FieldType::Field { name: fnm, type_def } = f else { return unsupported("field") };
                        if fnm != l {
                            return Ok(false);
                        }
                        if !self.inhabits(fv, type_def, stack)? {
                            return Ok(false);
                        }
                    }
                    true
                }
            }
            ast::Type::Union(u) => {
                stack.push(t.clone());
                let mut r = false;
                for m in &u.types {
                    if self.inhabits(v, m, stack)? {
                        r = true;
                        break;
                    }
                }
                stack.pop();
                r
            }
            ast::Type::Intersection(ms) => {
                for m in ms {
                    if !self.inhabits(v, m, stack)? {
                        return Ok(false);
                    }
                }
                true
            }
            ast::Type::Identifier { name, arguments } => {
                if !arguments.is_empty() {
                    return unsupported("generic type");
                }
                let Some((params, def)) = self.aliases.get(name).cloned() else { return unsupported("unknown alias") };
                if !params.is_empty() {
                    return unsupported("generic type");
                }
                // an alias is closed: its back references count from its own root
                self.inhabits(v, &def, &mut Vec::new())?
            }
            ast::Type::Cycle(level) => {
                // `^` = the root boundary, `^n` = the n-th nested one, counted from the root
                let idx = level.unwrap_or(0);
                let Some(target) = stack.get(idx).cloned() else { return unsupported("dangling cycle") };
                let mut s2: Vec<ast::Type> = stack[..idx].to_vec();
                self.inhabits(v, &target, &mut s2)?
            }
            ast::Type::Function(_) => return unsupported("function type test"),
            ast::Type::Process(_) | ast::Type::Resource(_) | ast::Type::ModuleType { .. } | ast::Type::SelfDefault { .. } => return unsupported("type"),
        })
    }
}

/// Variables a pattern binds (star patterns bind by field name, which depends on the value).
fn pattern_vars(p: &Match, out: &mut Vec<String>) {
    match p {
        Match::Identifier(n, _) | Match::As(_, n, _) => {
            if !out.contains(n) {
                out.push(n.clone());
            }
        }
        Match::Tuple(mt) => mt.fields.iter().for_each(|f| pattern_vars(&f.pattern, out)),
        Match::Partial(pp) => pp.fields.iter().for_each(|f| match &f.pattern {
            None => {
                if !out.contains(&f.name) {
                    out.push(f.name.clone());
                }
            }
            Some(sub) => pattern_vars(sub, out),
        }),
        Match::Or(alts) => alts.iter().for_each(|a| pattern_vars(a, out)),
        _ => {}
    }
}

fn expr_uses_param(e: &ast::Expression) -> bool {
    fn seq(s: &ast::Sequence) -> bool {
        s.chains.iter().any(chain)
    }
    fn chain(c: &ast::Chain) -> bool {
        c.terms.iter().any(term)
    }
    fn term(t: &Term) -> bool {
        match t {
            Term::Access(a) | Term::Reference(a) => matches!(a.source, Some(AccessSource::Parameter)),
            Term::Tuple(tp) => tp.fields.iter().any(|f| matches!(&f.value, FieldValue::Chain(c) if chain(c))),
            Term::Block(e) => expr_uses_param(e),
            Term::String(_, segs) => segs.iter().any(|s| matches!(s, ast::StrSegment::Hole(e) if expr_uses_param(e))),
            // a nested function has its own `$`
            _ => false,
        }
    }
    e.branches.iter().any(|b| seq(&b.condition) || b.consequence.as_ref().is_some_and(seq))
}

fn put_field(fields: &mut Vec<(Option<String>, RV)>, name: Option<String>, v: RV) {
    if let Some(n) = &name
        && let Some(slot) = fields.iter_mut().find(|(l, _)| l.as_ref() == Some(n))
    {
        slot.1 = v;
        return;
    }
    fields.push((name, v));
}

pub fn equal(a: &RV, b: &RV) -> R<bool> {
    Ok(match (a, b) {
        (RV::Int(x), RV::Int(y)) => x == y,
        (RV::Bin(x), RV::Bin(y)) => x == y,
        (RV::Tup { name: n1, fields: f1 }, RV::Tup { name: n2, fields: f2 }) => {
            if n1 != n2 || f1.len() != f2.len() {
                return Ok(false);
            }
            for ((l1, v1), (l2, v2)) in f1.iter().zip(f2.iter()) {
                if l1 != l2 || !equal(v1, v2)? {
                    return Ok(false);
                }
            }
            true
        }
        (RV::Fn(_), _) | (_, RV::Fn(_)) | (RV::Builtin(_), _) | (_, RV::Builtin(_)) => return unsupported("function equality"),
        _ => false,
    })
}

/// Host value for comparison with the VM's result (functions are opaque).
pub fn to_hval(v: &RV) -> crate::hval::HVal {
    use crate::hval::HVal;
    match v {
        RV::Int(i) => HVal::Int(i.clone()),
        RV::Bin(b) => HVal::Bin(b.clone()),
        RV::Tup { name, fields } => HVal::Tuple(name.clone(), fields.iter().map(|(l, f)| (l.clone(), to_hval(f))).collect()),
        RV::Fn(_) => HVal::Fn(0, vec![]),
        RV::Builtin(_) => HVal::Builtin(0),
    }
}

pub enum RefOutcome {
    Val(crate::hval::HVal),
    DomainError(String),
    Stuck(String),
    Unsupported(String),
    Budget,
}

pub fn run_source(src: &str, max_steps: u64) -> Result<RefOutcome, String> {
    run_source_events(src, max_steps).map(|(o, _)| o)
}

pub fn run_source_events(src: &str, max_steps: u64) -> Result<(RefOutcome, Vec<&'static str>), String> {
    let ast = quiver_compiler::parse(src).map_err(|e| format!("{e}"))?;
    let mut it = Interp::new(max_steps);
    let r = it.program(&ast);
    let events: Vec<&'static str> = it.events.iter().copied().collect();
    Ok((match r {
        Ok(v) => RefOutcome::Val(to_hval(&v)),
        Err(Stop::DomainError(m)) => RefOutcome::DomainError(m),
        Err(Stop::Stuck(m)) => RefOutcome::Stuck(m),
        Err(Stop::Unsupported(m)) => RefOutcome::Unsupported(m),
        Err(Stop::Budget) => RefOutcome::Budget,
    }, events))
}
