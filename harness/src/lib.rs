//! The engines and per-property checks as a library, so that the `qv` binary and the fuzz targets
//! under `fuzz/` share one set of generators and oracles.
pub mod astu;
pub mod bcv;
pub mod corpus;
pub mod fuzzdrv;
pub mod fw;
pub mod gproc;
pub mod hval;
pub mod mockfs;
pub mod pack;
pub mod props;
pub mod qrun;
pub mod refeval;
pub mod replsim;
pub mod sim;
pub mod tygen;
pub mod tysem;
