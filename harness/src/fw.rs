//! Framework shared by every property: tiers, seeds, sharded proptest search, statistics,
//! known-findings matching, evidence and replay files, exit codes.

use proptest::strategy::{Strategy, ValueTree};
use proptest::test_runner::{Config, RngAlgorithm, RngSeed, TestCaseError, TestError, TestRunner};
use serde_json::{Value as J, json};
use std::collections::{BTreeMap, BTreeSet};
use std::hash::{Hash, Hasher};
use std::sync::Mutex;
use std::sync::atomic::{AtomicU64, Ordering};
use std::time::Instant;

pub const VERIF_ROOT: &str = "/verif";

#[derive(Clone, Copy, PartialEq, Eq, Debug)]
pub enum Tier {
    Quick,
    Thorough,
}

impl Tier {
    pub fn name(&self) -> &'static str {
        match self {
            Tier::Quick => "quick",
            Tier::Thorough => "thorough",
        }
    }
    /// Pick by tier.
    pub fn pick<T>(&self, quick: T, thorough: T) -> T {
        match self {
            Tier::Quick => quick,
            Tier::Thorough => thorough,
        }
    }
}

#[derive(Clone)]
pub struct Ctx {
    pub id: &'static str,
    pub tier: Tier,
    pub seed: u64,
    pub shards: usize,
    /// Replay mode: strict (no tolerance of known findings).
    pub strict: bool,
}

pub fn hash64<T: Hash + ?Sized>(t: &T) -> u64 {
    // FNV-1a via a small deterministic hasher (std's DefaultHasher is SipHash with fixed keys
    // when built with `new()`, which is deterministic too).
    let mut h = std::collections::hash_map::DefaultHasher::new();
    t.hash(&mut h);
    h.finish()
}

pub fn derive_seed(seed: u64, id: &str, shard: usize, stream: u64) -> u64 {
    hash64(&(seed, id, shard as u64, stream))
}

/// One violation found by a check.
#[derive(Clone, Debug)]
pub struct Violation {
    /// Signature string used for known-finding matching (exact or prefix, see KnownFindings).
    pub signature: String,
    pub summary: String,
    /// Self-contained replay payload (must contain "kind").
    pub replay: J,
}

/// Thread-safe statistics accumulator.
pub struct Stats {
    pub evaluations: AtomicU64,
    pub discards: AtomicU64,
    pub inconclusive: AtomicU64,
    nontrivial: Mutex<BTreeSet<u64>>,
    classes: Mutex<BTreeMap<String, u64>>,
    samples: Mutex<Vec<J>>,
    known_hits: Mutex<BTreeMap<String, u64>>,
    notes: Mutex<BTreeMap<String, J>>,
}

thread_local! {
    /// Set while the current thread's proptest run is shrinking (counters must not move).
    static FROZEN: std::cell::Cell<bool> = const { std::cell::Cell::new(false) };
}

pub fn set_frozen(b: bool) {
    FROZEN.with(|c| c.set(b));
}

impl Default for Stats {
    fn default() -> Self {
        Self::new()
    }
}

impl Stats {
    pub fn new() -> Self {
        Stats {
            evaluations: AtomicU64::new(0),
            discards: AtomicU64::new(0),
            inconclusive: AtomicU64::new(0),
            nontrivial: Mutex::new(BTreeSet::new()),
            classes: Mutex::new(BTreeMap::new()),
            samples: Mutex::new(Vec::new()),
            known_hits: Mutex::new(BTreeMap::new()),
            notes: Mutex::new(BTreeMap::new()),
        }
    }
    fn live(&self) -> bool {
        !FROZEN.with(|c| c.get())
    }
    pub fn eval(&self) {
        if self.live() {
            self.evaluations.fetch_add(1, Ordering::Relaxed);
        }
    }
    pub fn evals(&self, n: u64) {
        if self.live() {
            self.evaluations.fetch_add(n, Ordering::Relaxed);
        }
    }
    pub fn discard(&self) {
        if self.live() {
            self.discards.fetch_add(1, Ordering::Relaxed);
        }
    }
    pub fn inconclusive(&self) {
        if self.live() {
            self.inconclusive.fetch_add(1, Ordering::Relaxed);
        }
    }
    /// Record a distinct non-trivial case (by hash of its content).
    pub fn nontrivial<T: Hash + ?Sized>(&self, case: &T) {
        if self.live() {
            self.nontrivial.lock().unwrap().insert(hash64(case));
        }
    }
    pub fn class(&self, name: &str) {
        self.class_n(name, 1);
    }
    pub fn class_n(&self, name: &str, n: u64) {
        if self.live() {
            *self.classes.lock().unwrap().entry(name.to_string()).or_insert(0) += n;
        }
    }
    pub fn class_count(&self, name: &str) -> u64 {
        self.classes.lock().unwrap().get(name).copied().unwrap_or(0)
    }
    /// Keep up to `cap` samples, spread over the run (keeps first few + replaces by hash).
    pub fn sample(&self, s: impl FnOnce() -> J) {
        if !self.live() {
            return;
        }
        let mut g = self.samples.lock().unwrap();
        if g.len() < 12 {
            g.push(s());
        }
    }
    pub fn known_hit(&self, sig: &str) {
        *self.known_hits.lock().unwrap().entry(sig.to_string()).or_insert(0) += 1;
    }
    pub fn note(&self, key: &str, v: J) {
        self.notes.lock().unwrap().insert(key.to_string(), v);
    }
}

/// Entry of /verif/known_findings.json.
#[derive(Clone, Debug, serde::Deserialize)]
pub struct KnownEntry {
    pub property: String,
    pub status: String, // "known" | "fixed"
    pub signature: String,
    pub description: String,
    #[serde(default)]
    pub commit: Option<String>,
}

pub struct KnownFindings {
    pub entries: Vec<KnownEntry>,
}

impl KnownFindings {
    pub fn load() -> Self {
        let path = format!("{VERIF_ROOT}/known_findings.json");
        let entries = std::fs::read_to_string(&path)
            .ok()
            .and_then(|s| serde_json::from_str::<Vec<KnownEntry>>(&s).ok())
            .unwrap_or_default();
        KnownFindings { entries }
    }
    /// A violation signature is suppressed iff a `known` (not `fixed`) entry for the property has
    /// exactly that signature.
    pub fn is_known(&self, property: &str, signature: &str) -> Option<&KnownEntry> {
        // debugging aid: QV_UNKNOWN=<signature> makes one recorded finding count as new
        if std::env::var("QV_UNKNOWN").is_ok_and(|s| s == signature) {
            return None;
        }
        self.entries
            .iter()
            .find(|e| e.status == "known" && e.property == property && e.signature == signature)
    }
    pub fn known_for(&self, property: &str) -> Vec<&KnownEntry> {
        self.entries
            .iter()
            .filter(|e| e.status == "known" && e.property == property)
            .collect()
    }
}

pub static MAX_SHRINK_ITERS: std::sync::atomic::AtomicU32 = std::sync::atomic::AtomicU32::new(2000);

/// Result of one proptest search.
pub enum Search<T> {
    Passed,
    Failed { minimal: T, message: String },
    /// Too many rejects etc.
    Aborted(String),
}

/// Run a proptest search with a fixed seed; the closure returns Err(message) on property failure.
/// The closure is also invoked during shrinking; `stats.frozen` is set on the first failure so
/// counters reflect only the search phase.
pub fn pt_search<S, F>(seed: u64, cases: u32, strategy: &S, stats: &Stats, test: F) -> Search<S::Value>
where
    S: Strategy,
    S::Value: Clone + std::fmt::Debug,
    F: Fn(&S::Value) -> Result<(), String>,
{
    let mut seed_bytes = [0u8; 32];
    for i in 0..4 {
        seed_bytes[i * 8..i * 8 + 8].copy_from_slice(&hash64(&(seed, i as u64)).to_le_bytes());
    }
    let config = Config {
        cases,
        failure_persistence: None,
        rng_algorithm: RngAlgorithm::ChaCha,
        rng_seed: RngSeed::Fixed(seed),
        max_shrink_iters: MAX_SHRINK_ITERS.load(Ordering::Relaxed),
        max_global_rejects: cases.saturating_mul(20).max(1000),
        max_local_rejects: 100_000,
        verbose: 0,
        ..Config::default()
    };
    let rng = proptest::test_runner::TestRng::from_seed(RngAlgorithm::ChaCha, &seed_bytes);
    let mut runner = TestRunner::new_with_rng(config, rng);
    let result = runner.run(strategy, |v| match test(&v) {
        Ok(()) => Ok(()),
        Err(m) => {
            let _ = stats;
            set_frozen(true);
            Err(TestCaseError::fail(m))
        }
    });
    set_frozen(false);
    let out = match result {
        Ok(()) => Search::Passed,
        Err(TestError::Fail(reason, minimal)) => Search::Failed {
            minimal,
            message: reason.message().to_string(),
        },
        Err(TestError::Abort(reason)) => Search::Aborted(reason.message().to_string()),
    };
    out
}

/// Generate one value from a strategy with a given seed (used for replay-free sampling).
pub fn pt_sample<S: Strategy>(seed: u64, strategy: &S) -> S::Value {
    let mut seed_bytes = [0u8; 32];
    for i in 0..4 {
        seed_bytes[i * 8..i * 8 + 8].copy_from_slice(&hash64(&(seed, i as u64)).to_le_bytes());
    }
    let rng = proptest::test_runner::TestRng::from_seed(RngAlgorithm::ChaCha, &seed_bytes);
    let mut runner = TestRunner::new_with_rng(Config::default(), rng);
    strategy.new_tree(&mut runner).unwrap().current()
}

/// Run `f(shard_index)` on `shards` threads with big stacks; collect violations.
thread_local! {
    static CRUMB_PATH: std::cell::RefCell<Option<String>> = const { std::cell::RefCell::new(None) };
}

/// Record the case about to be executed (a replay payload) in this shard's breadcrumb file, so
/// that the supervising process can name the case if the checked code kills the process
/// (stack overflow, abort). A no-op unless the supervisor set QV_CRUMBS.
pub fn crumb(property: &str, payload: impl FnOnce() -> J) {
    CRUMB_PATH.with(|p| {
        if let Some(path) = p.borrow().as_ref() {
            let text = json!({"property": property, "replay": payload()}).to_string();
            let _ = std::fs::write(path, text);
        }
    });
}

pub fn run_sharded<F>(shards: usize, f: F) -> Vec<Violation>
where
    F: Fn(usize) -> Vec<Violation> + Sync,
{
    let out = Mutex::new(Vec::new());
    std::thread::scope(|s| {
        for shard in 0..shards {
            let f = &f;
            let out = &out;
            std::thread::Builder::new()
                .name(format!("shard-{shard}"))
                .stack_size(256 * 1024 * 1024)
                .spawn_scoped(s, move || {
                    if let Ok(dir) = std::env::var("QV_CRUMBS") {
                        CRUMB_PATH.with(|p| *p.borrow_mut() = Some(format!("{dir}/shard-{shard}.json")));
                    }
                    let v = f(shard);
                    out.lock().unwrap().extend(v);
                })
                .expect("spawn shard");
        }
    });
    let mut v = out.into_inner().unwrap();
    v.sort_by(|a, b| (a.signature.clone(), a.summary.len()).cmp(&(b.signature.clone(), b.summary.len())));
    v
}

/// Catch a panic from `f`, returning the panic message.
pub fn catch<R>(f: impl FnOnce() -> R) -> Result<R, String> {
    match std::panic::catch_unwind(std::panic::AssertUnwindSafe(f)) {
        Ok(r) => Ok(r),
        Err(p) => Err(panic_message(&p)),
    }
}

pub fn panic_message(p: &Box<dyn std::any::Any + Send>) -> String {
    if let Some(s) = p.downcast_ref::<&'static str>() {
        s.to_string()
    } else if let Some(s) = p.downcast_ref::<String>() {
        s.clone()
    } else if p.downcast_ref::<quiver_compiler::verif::BudgetExceeded>().is_some() {
        "verif: parser tick budget exceeded".to_string()
    } else {
        "<non-string panic payload>".to_string()
    }
}

thread_local! {
    pub static LAST_PANIC_LOC: std::cell::RefCell<Option<String>> = const { std::cell::RefCell::new(None) };
}

/// Install a quiet panic hook that records the location of the last panic per thread.
pub fn install_panic_hook() {
    std::panic::set_hook(Box::new(|info| {
        let loc = info
            .location()
            .map(|l| format!("{}:{}", l.file(), l.line()))
            .unwrap_or_default();
        LAST_PANIC_LOC.with(|c| *c.borrow_mut() = Some(loc));
        if std::env::var("QV_PANIC_VERBOSE").is_ok() {
            eprintln!("panic: {info}");
        }
    }));
}

pub fn last_panic_loc() -> String {
    LAST_PANIC_LOC.with(|c| c.borrow().clone().unwrap_or_default())
}

pub struct Report<'a> {
    pub ctx: &'a Ctx,
    pub stats: &'a Stats,
    pub violations: Vec<Violation>,
    pub rule: String,
    pub assumptions: Vec<String>,
    pub required_classes: Vec<&'static str>,
    pub started: Instant,
    pub technique: &'static str,
}

/// Writes evidence + replay files, prints VIOLATION / KNOWN-FINDING lines, returns exit code.
pub fn finish(r: Report) -> i32 {
    let ctx = r.ctx;
    let known = KnownFindings::load();
    let mut new_violations: Vec<&Violation> = Vec::new();
    let mut known_seen: BTreeMap<String, String> = BTreeMap::new();
    for v in &r.violations {
        if !ctx.strict
            && let Some(e) = known.is_known(ctx.id, &v.signature)
        {
            known_seen.insert(e.signature.clone(), e.description.clone());
            r.stats.known_hit(&e.signature);
        } else {
            new_violations.push(v);
        }
    }
    // Known hits recorded during the search (tolerated in-search) are reported too.
    for (sig, _) in r.stats.known_hits.lock().unwrap().iter() {
        if let Some(e) = known.is_known(ctx.id, sig) {
            known_seen.insert(e.signature.clone(), e.description.clone());
        }
    }
    for (sig, desc) in &known_seen {
        println!("KNOWN-FINDING: property={} {} [{}]", ctx.id, desc, sig);
    }

    // Deduplicate new violations by signature; write a replay file for each.
    let mut by_sig: BTreeMap<String, &Violation> = BTreeMap::new();
    for v in &new_violations {
        by_sig.entry(v.signature.clone()).or_insert(v);
    }
    let mut replay_paths = Vec::new();
    for (sig, v) in &by_sig {
        let dir = format!("{VERIF_ROOT}/replays/{}", ctx.id);
        let _ = std::fs::create_dir_all(&dir);
        let path = format!("{dir}/{:016x}.json", hash64(&(sig, &v.summary)));
        let payload = json!({
            "property": ctx.id,
            "signature": sig,
            "summary": v.summary,
            "seed": ctx.seed,
            "tier": ctx.tier.name(),
            "replay": v.replay,
        });
        let _ = std::fs::write(&path, serde_json::to_string_pretty(&payload).unwrap());
        println!("VIOLATION property={} replay={}", ctx.id, path);
        println!("  signature: {sig}");
        for line in v.summary.lines().take(30) {
            println!("  {line}");
        }
        replay_paths.push(path);
    }

    let evaluations = r.stats.evaluations.load(Ordering::Relaxed);
    let nontrivial = r.stats.nontrivial.lock().unwrap().len() as u64;
    let classes = r.stats.classes.lock().unwrap().clone();
    let mut missing: Vec<&str> = Vec::new();
    for c in &r.required_classes {
        if classes.get(*c).copied().unwrap_or(0) == 0 {
            missing.push(c);
        }
    }
    let samples = r.stats.samples.lock().unwrap().clone();
    let notes = r.stats.notes.lock().unwrap().clone();
    let known_hits = r.stats.known_hits.lock().unwrap().clone();
    let mut coverage = json!({
        "evaluations": evaluations,
        "distinct_nontrivial": nontrivial,
        "rule": r.rule,
        "samples": samples,
        "classes": classes,
        "discards": r.stats.discards.load(Ordering::Relaxed),
        "inconclusive": r.stats.inconclusive.load(Ordering::Relaxed),
        "known_finding_hits": known_hits,
        "required_classes_missing": missing,
        "technique": r.technique,
        "shards": ctx.shards,
    });
    for (k, v) in notes {
        coverage[k] = v;
    }
    let evidence = json!({
        "property_id": ctx.id,
        "tier": ctx.tier.name(),
        "seed": ctx.seed,
        "level": "exploration",
        "coverage": coverage,
        "assumptions": r.assumptions,
        "wall_s": r.started.elapsed().as_secs_f64(),
        "violations": by_sig.len(),
        "replays": replay_paths,
    });
    let _ = std::fs::create_dir_all(format!("{VERIF_ROOT}/evidence"));
    let epath = format!("{VERIF_ROOT}/evidence/{}.json", ctx.id);
    std::fs::write(&epath, serde_json::to_string_pretty(&evidence).unwrap()).expect("write evidence");

    println!(
        "{} {}: evaluations={} nontrivial={} discards={} inconclusive={} violations={} known={} wall={:.1}s",
        ctx.id,
        ctx.tier.name(),
        evaluations,
        nontrivial,
        r.stats.discards.load(Ordering::Relaxed),
        r.stats.inconclusive.load(Ordering::Relaxed),
        by_sig.len(),
        known_seen.len(),
        r.started.elapsed().as_secs_f64()
    );
    if !by_sig.is_empty() {
        return 1;
    }
    if !missing.is_empty() {
        eprintln!("HARNESS: required classes empty: {missing:?} (generator problem, not a violation)");
        return 2;
    }
    if evaluations == 0 || nontrivial < 2 {
        eprintln!("HARNESS: too few non-trivial cases ({nontrivial})");
        return 2;
    }
    0
}

/// Short printable form of bytes.
pub fn hex(b: &[u8]) -> String {
    let mut s = String::with_capacity(b.len() * 2);
    for x in b {
        s.push_str(&format!("{x:02x}"));
    }
    s
}

pub fn unhex(s: &str) -> Vec<u8> {
    (0..s.len() / 2)
        .map(|i| u8::from_str_radix(&s[2 * i..2 * i + 2], 16).unwrap_or(0))
        .collect()
}

pub fn truncate(s: &str, n: usize) -> String {
    if s.len() <= n {
        s.to_string()
    } else {
        let mut end = n;
        while !s.is_char_boundary(end) {
            end -= 1;
        }
        format!("{}…(+{} bytes)", &s[..end], s.len() - end)
    }
}
