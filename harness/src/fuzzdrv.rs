//! Coverage-guided campaigns (libFuzzer targets under `fuzz/`) as a supplement of a thorough tier.
//!
//! `qv fuzz C18 [--runs N] [--jobs J]` runs J independent libFuzzer processes of the target
//! `c18_front` (fixed `-runs`, `-seed` derived from VERIF_SEED and the job number, a fresh corpus
//! directory seeded with the harvested programs), then turns every saved artifact into a replay
//! file judged by the C18 oracle in a separate process. The campaign is pinned only approximately
//! by its seed (libFuzzer); the saved input is the reproducible unit.
//!
//! exit 0: nothing found; 1: `VIOLATION property=C18 replay=<file>`; 2: target missing, an artifact
//! that does not reproduce, a timeout/oom artifact the deterministic oracle passes, or the
//! campaign's own watchdog.

use crate::fw::*;
use crate::props::c18;
use serde_json::json;
use std::process::{Command, Stdio};
use std::time::{Duration, Instant};

pub fn target_path(name: &str) -> String {
    format!("{VERIF_ROOT}/harness/fuzz/target/x86_64-unknown-linux-gnu/release/{name}")
}

struct JobStats {
    executed: u64,
    cov: u64,
    features: u64,
    corpus: u64,
}

fn parse_log(text: &str) -> JobStats {
    let mut s = JobStats { executed: 0, cov: 0, features: 0, corpus: 0 };
    for line in text.lines() {
        if let Some(rest) = line.strip_prefix("stat::number_of_executed_units:") {
            s.executed = rest.trim().parse().unwrap_or(s.executed);
        }
        if line.starts_with('#') {
            let w: Vec<&str> = line.split_whitespace().collect();
            if s.executed == 0 {
                if let Some(n) = w.first().and_then(|x| x.trim_start_matches('#').parse::<u64>().ok()) {
                    s.executed = s.executed.max(n);
                }
            }
            for i in 0..w.len().saturating_sub(1) {
                match w[i] {
                    "cov:" => s.cov = w[i + 1].parse().unwrap_or(s.cov),
                    "ft:" => s.features = w[i + 1].parse().unwrap_or(s.features),
                    "corp:" => s.corpus = w[i + 1].split('/').next().and_then(|x| x.parse().ok()).unwrap_or(s.corpus),
                    _ => {}
                }
            }
        }
    }
    s
}

pub fn run(id: &str, args: &[String]) -> i32 {
    if id != "C18" {
        eprintln!("HARNESS: no fuzz target for {id}");
        return 2;
    }
    let started = Instant::now();
    let mut runs: u64 = 150_000;
    let mut jobs: usize = 16;
    let mut i = 0;
    while i + 1 < args.len() {
        match args[i].as_str() {
            "--runs" => runs = args[i + 1].parse().unwrap_or(runs),
            "--jobs" => jobs = args[i + 1].parse().unwrap_or(jobs),
            _ => {}
        }
        i += 2;
    }
    let seed = std::env::var("VERIF_SEED").ok().and_then(|s| s.parse::<u64>().ok()).unwrap_or(1);
    let bin = target_path("c18_front");
    if !std::path::Path::new(&bin).is_file() {
        eprintln!("HARNESS: fuzz target {bin} not built (cargo +nightly fuzz build c18_front); not a property verdict");
        return 2;
    }
    let base = if std::path::Path::new("/dev/shm").is_dir() { "/dev/shm".to_string() } else { format!("{VERIF_ROOT}/harness/target") };
    let work = format!("{base}/qv-fuzz-{}", std::process::id());
    let _ = std::fs::remove_dir_all(&work);
    std::fs::create_dir_all(format!("{work}/seeds")).expect("work dir");
    let mut seeds = 0usize;
    for (i, s) in crate::corpus::all_sources().iter().enumerate() {
        if s.len() <= 4096 && c18::excluded(s).is_none() {
            std::fs::write(format!("{work}/seeds/seed-{i:04}.qv"), s).expect("write seed");
            seeds += 1;
        }
    }
    // plus near-valid type definitions from the C18 generator's type grammar
    for i in 0..300u64 {
        let dice: Vec<u8> = (0..24u64).map(|k| (hash64(&(i, k)) & 0xff) as u8).collect();
        let text = c18::render(&c18::Gen::TypeUse(dice), &[]);
        if c18::excluded(&text).is_none() {
            std::fs::write(format!("{work}/seeds/type-{i:03}.qv"), text).expect("write seed");
            seeds += 1;
        }
    }
    // token dictionary: the C18 generator's own alphabet
    let mut dict = String::new();
    for t in c18::TOKENS {
        if t.is_empty() || t.len() > 30 {
            continue;
        }
        let esc: String = t.bytes().map(|b| if b == b'"' || b == b'\\' || !(0x20..0x7f).contains(&b) { format!("\\x{b:02x}") } else { (b as char).to_string() }).collect();
        dict.push_str(&format!("\"{esc}\"\n"));
    }
    std::fs::write(format!("{work}/quiver.dict"), dict).expect("dict");

    let mut children = Vec::new();
    for j in 0..jobs {
        std::fs::create_dir_all(format!("{work}/corpus{j}")).ok();
        std::fs::create_dir_all(format!("{work}/art{j}")).ok();
        let log = std::fs::File::create(format!("{work}/log{j}.txt")).expect("log");
        // libFuzzer: -seed=0 means "random", so the derived seed is kept positive
        let fseed = (seed.wrapping_mul(1000).wrapping_add(j as u64) % 0x7fff_fff0) + 1;
        let child = Command::new(&bin)
            .arg(format!("{work}/corpus{j}"))
            .arg(format!("{work}/seeds"))
            .arg(format!("-seed={fseed}"))
            .arg(format!("-runs={runs}"))
            .arg("-max_len=4096")
            .arg("-len_control=0")
            .arg("-timeout=300")
            .arg("-rss_limit_mb=8192")
            .arg("-print_final_stats=1")
            .arg(format!("-dict={work}/quiver.dict"))
            .arg(format!("-artifact_prefix={work}/art{j}/"))
            .stdout(Stdio::null())
            .stderr(Stdio::from(log))
            .spawn()
            .expect("spawn fuzzer");
        children.push(child);
    }
    // watchdog: a campaign that does not finish is inconclusive
    let limit = Duration::from_secs(4 * 3600);
    let mut timed_out = false;
    for c in children.iter_mut() {
        loop {
            match c.try_wait() {
                Ok(Some(_)) => break,
                Ok(None) => {
                    if started.elapsed() > limit {
                        let _ = c.kill();
                        timed_out = true;
                    }
                    std::thread::sleep(Duration::from_millis(200));
                }
                Err(_) => break,
            }
        }
    }

    let mut total = JobStats { executed: 0, cov: 0, features: 0, corpus: 0 };
    let mut artifacts: Vec<(String, Vec<u8>)> = Vec::new();
    let mut new_samples: Vec<String> = Vec::new();
    for j in 0..jobs {
        let text = std::fs::read_to_string(format!("{work}/log{j}.txt")).unwrap_or_default();
        let s = parse_log(&text);
        total.executed += s.executed;
        total.cov = total.cov.max(s.cov);
        total.features = total.features.max(s.features);
        total.corpus += s.corpus;
        if let Ok(rd) = std::fs::read_dir(format!("{work}/art{j}")) {
            for e in rd.flatten() {
                let name = e.file_name().to_string_lossy().to_string();
                if let Ok(bytes) = std::fs::read(e.path()) {
                    artifacts.push((name, bytes));
                }
            }
        }
        if j == 0 {
            // a few inputs the fuzzer kept (coverage-increasing), as samples
            if let Ok(rd) = std::fs::read_dir(format!("{work}/corpus{j}")) {
                let mut names: Vec<_> = rd.flatten().map(|e| e.path()).collect();
                names.sort();
                for p in names.iter().take(400) {
                    if let Ok(b) = std::fs::read(p) {
                        if let Ok(s) = String::from_utf8(b) {
                            if s.len() > 8 && s.len() < 120 && new_samples.len() < 6 {
                                new_samples.push(s);
                            }
                        }
                    }
                }
            }
        }
    }
    artifacts.sort();
    artifacts.dedup();

    let exe = std::env::current_exe().expect("current_exe");
    let rdir = format!("{VERIF_ROOT}/replays/C18");
    let mut violations = 0;
    let mut inconclusive: Vec<String> = Vec::new();
    let reg = crate::qrun::registry();
    let mut seen_sigs: Vec<String> = Vec::new();
    for (name, bytes) in &artifacts {
        let Ok(src) = String::from_utf8(bytes.clone()) else {
            inconclusive.push(format!("artifact {name} is not UTF-8 (the target ignores such inputs)"));
            continue;
        };
        std::fs::create_dir_all(&rdir).ok();
        let path = format!("{rdir}/fuzz-{name}.json");
        let write = |input: &str, sig: &str| {
            let j = json!({"property": "C18", "signature": sig, "found_by": "libFuzzer target c18_front", "replay": {"kind": "c18", "input": input}});
            std::fs::write(&path, serde_json::to_string_pretty(&j).unwrap()).expect("write replay");
        };
        write(&src, "");
        let out = Command::new(&exe).arg("replay").arg(&path).output();
        match out {
            Ok(o) if o.status.code() == Some(0) => {
                let _ = std::fs::remove_file(&path);
                inconclusive.push(format!("artifact {name} ({} bytes) passes the deterministic oracle on replay (libFuzzer timeout/oom or not reproducible)", bytes.len()));
            }
            Ok(o) if o.status.code() == Some(1) => {
                // the oracle rejects it cleanly: minimise in-process under the same signature
                let (sig, msg) = match c18::check(&src, &reg) {
                    Err(e) => e,
                    Ok(_) => ("unstable".to_string(), String::from_utf8_lossy(&o.stdout).to_string()),
                };
                let min = if sig != "unstable" { c18::minimize(&src, &sig, &reg) } else { src.clone() };
                write(&min, &sig);
                if seen_sigs.contains(&sig) {
                    let _ = std::fs::remove_file(&path);
                    continue;
                }
                seen_sigs.push(sig.clone());
                println!("VIOLATION property=C18 replay={path}");
                println!("  signature: {sig}");
                println!("  {}", truncate(&msg, 300));
                println!("  input: {}", truncate(&format!("{min:?}"), 300));
                violations += 1;
            }
            Ok(o) => {
                // the replay process itself died: stack overflow / abort in the checked code
                write(&src, "process-killed");
                println!("VIOLATION property=C18 replay={path}");
                println!("  signature: process-killed");
                println!("  the replay process ended with {:?} on this {}-byte input", o.status, bytes.len());
                violations += 1;
            }
            Err(e) => inconclusive.push(format!("cannot run the replay process: {e}")),
        }
    }
    let _ = std::fs::remove_dir_all(&work);

    // merge into the evidence of the thorough tier (written by `qv check C18 --tier thorough` just before)
    let ev_path = format!("{VERIF_ROOT}/evidence/C18.json");
    if let Ok(text) = std::fs::read_to_string(&ev_path) {
        if let Ok(mut ev) = serde_json::from_str::<serde_json::Value>(&text) {
            let wall = started.elapsed().as_secs_f64();
            ev["coverage"]["fuzz"] = json!({
                "engine": "libFuzzer (cargo-fuzz target fuzz/fuzz_targets/c18_front.rs), oracle = props::c18::check inside the target",
                "jobs": jobs, "runs_per_job": runs, "seed_inputs": seeds,
                "executed_units": total.executed, "edges_covered_max": total.cov, "features_max": total.features,
                "inputs_kept_total": total.corpus, "artifacts": artifacts.len(), "violations": violations,
                "inconclusive": inconclusive, "kept_input_samples": new_samples, "wall_s": wall,
            });
            if let Some(n) = ev["coverage"]["evaluations"].as_u64() {
                ev["coverage"]["evaluations"] = json!(n + total.executed);
            }
            if let Some(w) = ev["wall_s"].as_f64() {
                ev["wall_s"] = json!(w + wall);
            }
            if let Some(v) = ev["violations"].as_i64() {
                ev["violations"] = json!(v + violations as i64);
            }
            let _ = std::fs::write(&ev_path, serde_json::to_string_pretty(&ev).unwrap());
        }
    }
    println!(
        "C18 fuzz: jobs={jobs} runs/job={runs} executed={} edges={} features={} kept={} artifacts={} violations={violations} wall={:.0}s",
        total.executed,
        total.cov,
        total.features,
        total.corpus,
        artifacts.len(),
        started.elapsed().as_secs_f64()
    );
    if violations > 0 {
        return 1;
    }
    if timed_out {
        println!("INCONCLUSIVE: the fuzz campaign hit its own 4 h limit");
        return 2;
    }
    if !inconclusive.is_empty() {
        for m in &inconclusive {
            println!("INCONCLUSIVE: {m}");
        }
        return 2;
    }
    if total.executed == 0 {
        println!("INCONCLUSIVE: the fuzz campaign executed nothing");
        return 2;
    }
    0
}
