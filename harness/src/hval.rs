//! Host-side value model: names and labels, never ids. Used by oracles to compare results
//! structurally across configurations and against reference models.

use num_bigint::BigInt;
use quiver_core::bytecode::Constant;
use quiver_core::types::{TupleTypeInfo, TypeLookup};
use quiver_core::value::{Binary, Value};

#[derive(Clone, Debug, PartialEq, Eq, Hash, PartialOrd, Ord)]
pub enum HVal {
    Int(BigInt),
    Bin(Vec<u8>),
    Tuple(Option<String>, Vec<(Option<String>, HVal)>),
    /// Function: index + captured values (index is configuration-specific; `canon` strips it).
    Fn(usize, Vec<HVal>),
    Builtin(usize),
    Proc(usize),
    Ref(u64),
    Res(usize),
    /// Unknown tuple id (dangling) — always a finding for whoever sees it.
    BadTuple(usize, Vec<HVal>),
    BadBinary(String),
}

impl HVal {
    pub fn nil() -> HVal {
        HVal::Tuple(None, vec![])
    }
    pub fn ok() -> HVal {
        HVal::Tuple(Some("Ok".into()), vec![])
    }
    pub fn is_nil(&self) -> bool {
        matches!(self, HVal::Tuple(None, f) if f.is_empty())
    }
    pub fn int(i: i64) -> HVal {
        HVal::Int(BigInt::from(i))
    }
    pub fn str(s: &str) -> HVal {
        HVal::Tuple(Some("Str".into()), vec![(None, HVal::Bin(s.as_bytes().to_vec()))])
    }
    /// Replace configuration-specific identities (function indices, builtin ids) by kind tags so
    /// values from differently packaged programs compare equal.
    pub fn canon(&self) -> HVal {
        match self {
            HVal::Tuple(n, f) => HVal::Tuple(n.clone(), f.iter().map(|(l, v)| (l.clone(), v.canon())).collect()),
            HVal::Fn(_, caps) => HVal::Fn(0, caps.iter().map(|c| c.canon()).collect()),
            HVal::Builtin(_) => HVal::Builtin(0),
            other => other.clone(),
        }
    }
    /// `canon` plus renumbering of process ids and refs by first appearance, so values from
    /// environments with different histories compare equal.
    /// Function values are opaque (a packaging step may bake captures into the function), so
    /// they compare equal to any other function; behaviour is compared by calling them.
    pub fn canon_ids(&self) -> HVal {
        fn go(v: &HVal, procs: &mut Vec<usize>, refs: &mut Vec<u64>) -> HVal {
            match v {
                HVal::Tuple(n, f) => HVal::Tuple(n.clone(), f.iter().map(|(l, v)| (l.clone(), go(v, procs, refs))).collect()),
                HVal::Fn(..) => HVal::Fn(0, vec![]),
                HVal::Builtin(_) => HVal::Builtin(0),
                HVal::Proc(p) => {
                    let i = procs.iter().position(|x| x == p).unwrap_or_else(|| {
                        procs.push(*p);
                        procs.len() - 1
                    });
                    HVal::Proc(i)
                }
                HVal::Ref(r) => {
                    let i = refs.iter().position(|x| x == r).unwrap_or_else(|| {
                        refs.push(*r);
                        refs.len() - 1
                    });
                    HVal::Ref(i as u64)
                }
                other => other.clone(),
            }
        }
        go(self, &mut Vec::new(), &mut Vec::new())
    }
    pub fn contains_bad(&self) -> bool {
        match self {
            HVal::BadTuple(..) | HVal::BadBinary(_) => true,
            HVal::Tuple(_, f) => f.iter().any(|(_, v)| v.contains_bad()),
            HVal::Fn(_, c) => c.iter().any(|v| v.contains_bad()),
            _ => false,
        }
    }
    pub fn depth(&self) -> usize {
        match self {
            HVal::Tuple(_, f) => 1 + f.iter().map(|(_, v)| v.depth()).max().unwrap_or(0),
            HVal::Fn(_, c) => 1 + c.iter().map(|v| v.depth()).max().unwrap_or(0),
            _ => 0,
        }
    }
}

impl HVal {
    /// Like Display but never truncates binaries.
    pub fn full(&self) -> String {
        match self {
            HVal::Bin(b) => {
                let mut s = String::from("0x");
                for x in b {
                    s.push_str(&format!("{x:02x}"));
                }
                s
            }
            HVal::Tuple(name, fields) => {
                let mut s = String::new();
                if let Some(n) = name {
                    s.push_str(n);
                    if fields.is_empty() {
                        return s;
                    }
                }
                s.push('[');
                for (i, (l, v)) in fields.iter().enumerate() {
                    if i > 0 {
                        s.push_str(", ");
                    }
                    if let Some(l) = l {
                        s.push_str(l);
                        s.push_str(": ");
                    }
                    s.push_str(&v.full());
                }
                s.push(']');
                s
            }
            other => other.to_string(),
        }
    }
}

impl std::fmt::Display for HVal {
    fn fmt(&self, f: &mut std::fmt::Formatter<'_>) -> std::fmt::Result {
        match self {
            HVal::Int(i) => write!(f, "{i}"),
            HVal::Bin(b) => {
                write!(f, "0x")?;
                for x in b.iter().take(64) {
                    write!(f, "{x:02x}")?;
                }
                if b.len() > 64 {
                    write!(f, "…({} bytes)", b.len())?;
                }
                Ok(())
            }
            HVal::Tuple(name, fields) => {
                if let Some(n) = name {
                    write!(f, "{n}")?;
                    if fields.is_empty() {
                        return Ok(());
                    }
                }
                write!(f, "[")?;
                for (i, (l, v)) in fields.iter().enumerate() {
                    if i > 0 {
                        write!(f, ", ")?;
                    }
                    if let Some(l) = l {
                        write!(f, "{l}: ")?;
                    }
                    write!(f, "{v}")?;
                }
                write!(f, "]")
            }
            HVal::Fn(i, caps) => {
                write!(f, "<fn#{i}")?;
                for c in caps {
                    write!(f, " {c}")?;
                }
                write!(f, ">")
            }
            HVal::Builtin(i) => write!(f, "<builtin#{i}>"),
            HVal::Proc(p) => write!(f, "@{p}"),
            HVal::Ref(r) => write!(f, "<ref {}:{}>", r >> 48, r & 0xffff_ffff_ffff),
            HVal::Res(r) => write!(f, "<res {r}>"),
            HVal::BadTuple(id, _) => write!(f, "<BAD tuple id {id}>"),
            HVal::BadBinary(m) => write!(f, "<BAD binary {m}>"),
        }
    }
}

pub struct Tables<'a> {
    pub tuples: &'a [TupleTypeInfo],
    pub constants: &'a [Constant],
}

/// Convert a runtime value whose heap binaries index into `heap` (an extracted heap vector).
pub fn from_extracted(v: &Value, heap: &[Vec<u8>], t: &Tables) -> HVal {
    conv(v, t, &|b| match b {
        Binary::Heap(i) => heap.get(*i).cloned().ok_or_else(|| format!("heap index {i} out of {}", heap.len())),
        Binary::Constant(i) => match t.constants.get(*i) {
            Some(Constant::Binary(b)) => Ok(b.clone()),
            _ => Err(format!("constant {i} is not a binary")),
        },
    })
}

/// Convert a runtime value living in an executor.
pub fn from_executor<E: quiver_core::effects::Effect>(
    v: &Value,
    ex: &quiver_core::Executor<E>,
    t: &Tables,
) -> HVal {
    conv(v, t, &|b| match b {
        Binary::Heap(i) => ex.get_heap_binary(*i).map(|d| d.to_vec()).ok_or_else(|| format!("heap slot {i} missing")),
        Binary::Constant(i) => match t.constants.get(*i) {
            Some(Constant::Binary(b)) => Ok(b.clone()),
            _ => Err(format!("constant {i} is not a binary")),
        },
    })
}

fn conv(v: &Value, t: &Tables, bin: &dyn Fn(&Binary) -> Result<Vec<u8>, String>) -> HVal {
    match v {
        Value::Integer(i) => HVal::Int(i.clone()),
        Value::Binary(b) => match bin(b) {
            Ok(bytes) => HVal::Bin(bytes),
            Err(m) => HVal::BadBinary(m),
        },
        Value::Reference(r) => HVal::Ref(*r),
        Value::Tuple(id, fields) => match t.tuples.get(*id) {
            Some(info) if info.fields.len() == fields.len() => HVal::Tuple(
                info.name.clone(),
                fields
                    .iter()
                    .zip(info.fields.iter())
                    .map(|(fv, (label, _))| (label.clone(), conv(fv, t, bin)))
                    .collect(),
            ),
            _ => HVal::BadTuple(*id, fields.iter().map(|fv| conv(fv, t, bin)).collect()),
        },
        Value::Function(i, caps) => HVal::Fn(*i, caps.iter().map(|c| conv(c, t, bin)).collect()),
        Value::Builtin(i) => HVal::Builtin(*i),
        Value::Process(p, _) => HVal::Proc(*p),
        Value::Resource(r, _) => HVal::Res(*r),
    }
}

pub fn tables_of<'a, L: TypeLookup>(_l: &'a L, tuples: &'a [TupleTypeInfo], constants: &'a [Constant]) -> Tables<'a> {
    Tables { tuples, constants }
}
