#![no_main]
//! C18 under coverage guidance: any text yields a program or a located error; the parser never
//! panics and stays within its production budget. The oracle is the C18 check's own
//! (`qv::props::c18::check`); inputs in the recorded exclusion class (nesting that triggers the
//! known exponential parse) and recorded signatures are skipped so the campaign goes on past them.
use libfuzzer_sys::fuzz_target;
use std::sync::OnceLock;

struct State {
    reg: qv::qrun::Registry,
    known: qv::fw::KnownFindings,
}
static STATE: OnceLock<State> = OnceLock::new();

fuzz_target!(|data: &[u8]| {
    let st = STATE.get_or_init(|| {
        qv::fw::install_panic_hook();
        State { reg: qv::qrun::registry(), known: qv::fw::KnownFindings::load() }
    });
    let Ok(src) = std::str::from_utf8(data) else { return };
    if src.len() > 4096 || qv::props::c18::excluded(src).is_some() {
        return;
    }
    if let Err((sig, msg)) = qv::props::c18::check(src, &st.reg) {
        if st.known.is_known("C18", &sig).is_some() {
            return;
        }
        eprintln!("C18-FUZZ signature: {sig}\n{msg}");
        std::process::abort();
    }
});
