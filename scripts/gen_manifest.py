#!/usr/bin/env python3
"""Regenerates /verif/MANIFEST.json from the table below (single source of truth)."""
import json, subprocess

CLAIMED = {
  "C03": ("proptest-generated confluent process systems x generated schedules/worker counts/quanta in a deterministic single-threaded simulator over the real Worker/Environment; oracle: metamorphic equality with the baseline schedule + no hang/panic/step error",
          "Each generated program (fork/join, pipelines, request/reply, await chains, late and repeated awaits, several awaiters of one running process, a select over one finished, some running and some blocked processes, receivers that are spawning when messages arrive, binaries crossing workers) is run under a baseline and 10 generated configurations (1-5 workers, quantum 1..1000, partial-visibility interleavings); entry result and the multiset of per-process results must be identical and no run may hang, panic or return an error from a step. Exploration only.",
          "Trusts the simulator's transport model (FIFO per channel, arbitrary delay — what std::sync::mpsc gives); real OS threads are not exercised. Confluence is by construction of the generator. Quantum via hook H1.",
          "DESIGN.md §4 C03"),
  "C04": ("proptest-generated fan-in scenarios x schedules in the deterministic simulator; oracle: history invariant on the receiver's log (exactly-once, per-sender FIFO, filter phases pure) + termination (an idle system with a blocked process is a lost wake-up)",
          "2-4 senders stream tagged, numbered messages to one receiver that takes them in arrival order, through capturing or parity filters, or in a select mixing receive and await; every run is judged on the receiver's log and must end with all results. Exploration only.",
          "Trusts the simulator's transport model; scenarios terminate by construction, so quiescence without the entry result is judged as a lost wake-up.",
          "DESIGN.md §4 C04"),
  "C05": ("proptest-generated select scenarios x schedules (incl. slowed environment) in the deterministic simulator; oracle: construction-based reference model of select — readiness before the select begins is established causally (earlier await by the subject, FIFO behind a received marker), so the statement fixes the admissible sources whatever the schedule",
          "A subject process runs 1-3 selects over await/receive/filter/timeout sources with known-ready, never-ready and racing sources; the result must come from a source at or before the first one ready before the select began, be the earliest accepted message, leave the mailbox otherwise intact and in order, respect timeout lower bounds and propagate a failing target's error unchanged. Exploration only.",
          "Trusts the simulator's transport model. Timeouts are never assumed ready (the statement only bounds them from below). One recorded finding (a failing process's error pre-empts an earlier ready source) is excluded by construction and re-witnessed each run.",
          "DESIGN.md §4 C05"),
  "C06": ("proptest-generated binary-heavy process systems x schedules biased to 1-instruction slices; oracle: heap-accounting invariants after EVERY worker step (check_refcounts, freed/free-list consistency, no floating slot, bytes of live slots unchanged) + byte-content model of results",
          "Programs that capture, pass, send, filter, await (twice; after a select on the same process timed out while it was still running) and drop heap binaries, optionally ending in a send of a freshly built binary to a sink process, are run in the simulator; after every worker step the refcount/reachability invariant, the free-list and freed flags, the absence of slots at count 0 that are neither freed nor queued, and the stability of every still-reachable slot's bytes (same allocation generation, hook H7) are checked through hook H3, and results must equal the bytes they were built from. Exploration only.",
          "Trusts hook H3's view of the heap and Executor::reachable_heap_indices as the definition of reachability. Built with debug assertions so the runtime's own checks surface as caught panics. REPL compaction is covered by C11's use of the same invariant.",
          "DESIGN.md §4 C06"),
  "C17": ("proptest edit scripts over harvested programs (whitespace/separator substitution, identifier lengthening across width thresholds, redundant blocks, conventional comments, string escapes); oracle: format→parse→format fixpoint, AST equality after normalize_blocks, bytecode identity, independent comment scanner",
          "Every run formats ~3*10^4 parseable sources derived from the 1189 harvested programs and checks that the output parses, is a fixpoint, denotes the same program (normalised AST; identical bytecode when it compiles) and keeps the comment sequence. Exploration only. Nine recorded formatter findings are excluded by construction or attributed by an explicit rule (see known_findings.json and DESIGN.md §5).",
          "Trusts the independent comment scanner (follows the parser's comment definition) and simplify::normalize_blocks as the definition of 'no-op block'. Trivia placed unconventionally is judged only differentially (a failing case is tolerated iff it passes without those trivia edits).",
          "DESIGN.md §4 C17"),
  "C19": ("proptest operation histories over versioned dictionaries (model-based); adversarial key pools brute-forced per run (full FNV-1a-32 collisions incl. triples, shared low 5..25 bits, Str vs binary spellings); oracle: host map per version, all versions re-read at the end",
          "Each history (5-40 operations on any earlier version) is compiled into one program whose observations (get/has?/count/entries/keys/values, plus a full re-read of every version) are compared with a host BTreeMap per version. Exploration only.",
          "Trusts the host map model; entry order is compared as a multiset; values are non-nil small integers.",
          "DESIGN.md §4 C19"),
  "C20": ("proptest expression trees over the num record; oracle: exact host arithmetic in Q and Q(sqrt n) compared in canonical form and kind",
          "Each run evaluates ~3*10^5 generated expressions (depth <= 3; integers up to 10^40, rationals written reduced/unreduced/as tuples, surds, nil) through the compiled module and compares every value with exact host arithmetic, including the module's kind rules and nil propagation. Exploration only.",
          "Trusts the host exact-arithmetic model. sqrt arguments are bounded (the module uses trial division). One recorded finding (nil into integer-tail dispatch) is excluded by construction and re-witnessed each run.",
          "DESIGN.md §4 C20"),
  "C07": ("corpus + proptest-mutated programs; oracle: all-paths abstract interpreter over (operand height, defined-locals interval) per function + table cross-reference check, in three packaging forms; interpreter validated dynamically at quantum 1",
          "Every function of every harvested/std/mutated program that compiles is verified on all control-flow paths (jump range, no underflow, equal height at joins, exit height 1, loads below the all-paths minimum of defined locals, TailCall operand height, index ranges, table cross references) as compiled, after tree_shake, and inside Environment::get_program() after merging behind 0-3 other programs. All paths of each function are covered; the set of programs is sampled.",
          "Trusts the verifier's instruction model, which is cross-checked against the real executor on ~10^6 executed instructions per run (self-check failure => exit 2). One recorded finding (non-tail `^`) is attributed only by an AST tail-position analysis and only for the TailCall-height rule.",
          "DESIGN.md §4 C07"),
  "C12": ("proptest argument generation per builtin from its registered TypeSpec; oracle: independent BigInt/Vec<u8> reference models + rope-shape metamorphic relation; direct and compiled call channels",
          "Each of the 45 pure builtins is called ~2*10^4 (quick) times with boundary-biased integers and generated rope shapes; outcome must equal the reference model, or be a clean error exactly where the model says the argument is outside the documented domain; panics are caught and reported. Exploration only.",
          "Trusts the host reference models (written from the builtins' doc comments; unspecified corners accept either outcome and are listed in the evidence assumptions). Built with overflow-checks + debug-assertions.",
          "DESIGN.md §4 C12"),
  "C14": ("proptest-generated resource-lifecycle scenarios (open / use / hand over by message, spawn argument, capture or result / stale copies / explicit close / owner exit / failure) x schedules in the deterministic simulator with an instrumented in-memory EffectBackend (deferred completions); oracle: ownership model replayed over the backend's call log",
          "Each scenario opens 1-3 mock files in generated processes and moves the handles around; the backend logs every open/use/close with the calling process. The log is judged against an ownership model: a resource is used only by its current owner, it is closed exactly once, after its owner finished and never while the owner is live (unless explicitly closed), every handle is closed by the end, and a non-owner's attempt fails with a runtime error in that process only. Exploration only.",
          "Trusts the simulator's transport model and the mock backend's log. Two recorded findings (a resource whose owner is never awaited is not closed; a stale handle used after its resource was closed reaches the backend) are excluded by construction and re-witnessed each run.",
          "DESIGN.md §4 C14"),
  "C15": ("proptest-generated failure scenarios (one process fails at a generated point by one of several runtime errors; early, late, cross-worker and chained awaiters; a former awaiter that gave up on its timeout; an awaiter with a second source that fires later; bystanders exchanging messages with it; ill-behaved programs) x schedules in the deterministic simulator; oracle: per-process expected outcome (same error for every awaiter, normal result for every bystander) + no panic / internal error from any worker or environment step",
          "Every scenario is run under a baseline and generated configurations (1-5 workers, quantum 1..1000, partial-visibility interleavings); each awaiter of the failing process must fail with the identical error, each process that does not await it must reach its model result — including one whose select on the failing process had already timed out when the failure happened —, an awaiter whose select has a second source must not run on once the failure has reached it, and no step may panic, return Err or leave the system idle with a blocked process. Exploration only.",
          "Trusts the simulator's transport model; worker/environment steps run under catch_unwind with debug assertions on. Scenarios terminate by construction.",
          "DESIGN.md §4 C15"),
  "C16": ("proptest-generated tail-recursive program shapes; oracle: metamorphic space comparison at N vs 50N with profiling on (peak frames / locals / operand stack EQUAL, heap slots bounded by 2x+4) + host-loop result model",
          "Shapes: `^`, mutual recursion through function parameters (`^other`) and through record fields (`^m.go`), closures chained by `^~`, entry by `^f`; 0-3 state binaries rebuilt every iteration; the tail call under 0-4 generated wrappers (nested/redundant blocks, bindings, consequence, branch after a failed binding pattern), two wrapper stacks by parity. Each shape runs at (N, 50N) with quantum 64 and, if it allocates, at (2N, 100N) with quantum 1000. Exploration only.",
          "Trusts ExecutionStats peaks (profile = true) and heap_stats().slots as the measures the property names. Only genuine tail positions are generated (a non-tail `^` is the recorded C07 finding).",
          "DESIGN.md §4 C16"),
  "C09": ("proptest-generated closed, contractive type trees and mutation-related pairs/triples registered through Program::register_*; oracle: bounded exhaustive value enumeration + inhabitation model over the Program's own type representation",
          "Each case builds three related types (a generated tree, 1-3 mutations of it, further mutations or an unrelated tree) and checks for every ordered pair: is_compatible => every enumerated value of the left type inhabits the right one; a first-order value in both => types_overlap; transitivity over all triples; intersect_types keeps every common value; compute_complement keeps every value outside the right operand. Exploration only (tuple depth <= 3, <= 28 values per node).",
          "Trusts the reading of Type::Cycle(k) as the k-th enclosing union/function type (as typing.rs documents). Function values are the canonical function of a callable type and only 'not a member' verdicts about them are used. Six recorded findings, all rooted in context-dependent type ids of recursive types, are attributed by structural features of the operands (see known_findings.json) and re-witnessed each run; narrowing helpers are reached through hook H6.",
          "DESIGN.md §4 C09"),
  "C10": ("harvested programs + proptest-generated closure and module programs; oracle: differential across packaging variants (as compiled / tree-shaken / JSON round trip / CLI entry extraction with capture injection / merged into an environment behind other programs) and import vs the module body evaluated in place",
          "Stream 1 runs every harvested program that compiles in six packaging variants behind 0-3 other programs; stream 2 generates programs evaluating to a nilary closure over bindings (bignums, constant/heap binaries, tuples, closures capturing closures) and pushes them through the CLI's extract-entry path, tree-shaking, JSON and a merge, against the closure applied in source; stream 3 generates modules (optionally importing a module) and imports them in five forms against the body spliced in place. All results must be structurally equal. Exploration only.",
          "The `quiv compile`/`quiv run` subprocess path is replicated in-process, not executed. Function values compare as opaque (they are also called). Timing- and I/O-dependent harvested programs are discarded. A supervising process turns a death of the check process (stack overflow/abort in the checked code) into a reported case.",
          "DESIGN.md §4 C10"),
  "C13": ("proptest-generated values x construction paths x comparison forms x packaging variants; oracle: structural equality of host models; refs: identity model over simulated workers",
          "Stream 1 builds a value a, a value b equal to a or changed in exactly one place, and a again along generated construction paths (literal, arithmetic, concatenation/slice/tiling/bit operations so binaries are ropes, views or tiled binaries, fields through variables, spread override, generic and dispatch functions, assembly inside a generic function, module import, closures, a round trip through a process) and compares them in fourteen forms (pins both ways, repeated binders incl. type-ascribed occurrences, literal patterns, nested) in every packaging variant and, for a quarter of the cases, spread over a REPL session (definitions, a line that adds code but no tuple shape, then one form per line); stream 2 compares closures by definition and captures; stream 3 mints refs in 2-5 processes on 1-4 simulated workers and compares all pairs. Exploration only.",
          "Values are widened at a union type so the comparison is executed at run time. Nil leaves are excluded from stream 1 (a variable bound to nil is narrowed to non-nil by the compiler — a separate recorded defect); nil equality has a directed probe. Each comparison form runs in its own closure because a match used as a value narrows its operands for the rest of the scope (also recorded). One recorded finding (a literal pattern on a tuple assembled inside a generic function is decided by the generic definition's tuple id; root cause under C08) is excluded by construction and re-witnessed each run.",
          "DESIGN.md §4 C13"),
  "C08": ("proptest-generated (scrutinee type, test type, enumerated literal values, test form) x packaging variants; oracle: inhabitation model over the generated type trees",
          "For a generated 't and a related 's (1-3 mutations of 't, or independent) up to 8 first-order values of 't are written as literals (in a quarter of the cases tuple values are assembled inside a generic function instead; a third of the programs start with an alias nothing refers to) and tested with `=('s)y`, `='s`, a typed tuple pattern, or a typed receive after mailing the values in order; an accepted value must be a member of 's, a member must be accepted, the receive must take the earliest member; each program runs as compiled, tree-shaken, after a JSON round trip and merged behind programs that register the same tuple names in other shapes. Exploration only.",
          "Values are literals, so 'compile-time type contained in the pattern type' coincides with membership; construction through widening routes is exercised by C13. Programs the compiler rejects are discarded (counted). Two recorded findings with one root (run-time tests look only at the tuple id a value was constructed with; a tuple assembled inside a generic function matches every pattern of its name and arity) are attributed only to acceptances of non-members that were built that way, and re-witnessed each run.",
          "DESIGN.md §4 C08"),
  "C11": ("proptest-generated REPL histories (steps x line splits x rejected lines x schedules) driven through the real Repl/Environment/Workers in the deterministic simulator; oracle: the same steps compiled and run as one program (per-line values, variable set, variable values) + heap invariants after every worker step",
          "Histories of 3-13 steps (bindings from earlier bindings, shadowing, four destructuring forms, closures capturing earlier bindings, a type alias and a function over it, imports, a function returning a union and a later run-time type test on a variable holding its result, a generic constructor with a literal and a generically built copy of one value and later equality tests between them, expression steps incl. the previous result through `~`) are split into lines at generated places with 0-2 rejected lines of eight kinds in between, on a fresh environment or one that has already served an earlier session; every accepted line's value, and after every line the variable names and each variable's value, must equal the single program's; the C06 heap invariants run after every worker step (local compaction, orphan release). Exploration only.",
          "The single program is run by the synchronous driver; type aliases are hoisted to its front (a program allows them only there) and start a line in the session. Function values are compared by captured values. Steps never evaluate to nil.",
          "DESIGN.md §4 C11"),
  "C02": ("mutated harvested programs + proptest-generated nested control-flow programs; oracle: differential against an independent reference evaluator of docs/spec.md written over the parser's AST",
          "The reference evaluator (chains as infallible pipes, nil short-circuit between steps, blocks/branches/condition-consequence, every pattern form, tuples/spreads/field access, functions, closures, tail calls, strings with holes, std modules from their source, builtins by the C12 models) is validated each run against ~890 harvested programs pinned by the repository's tests. Stream A applies 1-3 token edits to the harvested programs it covers; stream B generates integer programs nesting literal/tuple/union switches, patterns that bind and then fail, sequences with bindings, closures, failing mid-sequence matches, inner blocks failing as a whole, ripple chains, shadowing, spreads, early-nil sequence steps. Exploration only.",
          "Processes, select, I/O, function equality, context-inferred closure parameters and tests against type variables are outside the evaluator (discarded, counted). Five recorded compiler defects are attributed by the semantic situation the reference run met (a partial-typed parameter with another layout, a branch that binds and ends in literal nil, a block that is nil by exhaustion with a last consequence, a variable bound to nil / nil reaching a later branch, a star pattern or tail call before a VM failure); their generator shapes are kept at a low rate and each is re-witnessed every run.",
          "DESIGN.md §4 C02"),
  "C01": ("mutated harvested programs + proptest-generated control-flow and narrowing programs; oracle: classification of the run-time outcome (no VM-level type failure) + structural membership of the result in the result type the compiler inferred",
          "Every accepted program of three streams is run: 1-3 token edits of harvested programs (those without generics, std imports or recursive aliases), the C02 control-flow generator, and narrowing programs over generated types (`g = #'t { | =('s)y => Y[y] | =x => N[x] }` in four forms applied to literal values of 't). The outcome must be a value inhabiting the inferred result type (checked structurally over the compiled program's own types), a value-domain error, or divergence — never a VM type failure. Exploration only.",
          "Programs that need an environment are not run. Membership in callable/process types is by kind; dangling back references and type variables accept anything. The compiler has many recorded soundness holes (nil narrowing, recursive and partial types in narrowing, the infallible-pipe chain semantics, partial-typed parameters, generic functions, tail calls — see known_findings.json); an unsound outcome is attributed to one of them by the types involved or by the semantic situation the reference evaluator meets, and only unattributed outcomes are violations.",
          "DESIGN.md §4 C01"),
  # id: (technique, level text, level note, design_ref)
  "C18": ("proptest-generated inputs + corpus mutation (prefix/token delete/dup/subst/transpose/wide-char) + bracket nests to depth 100; oracle: no panic, located error, deterministic production budget",
          "Generated-input search over front-end inputs: every run parses ~10^5 generated/mutated texts and compiles the accepted ones, checking no panic, error position inside the input on a char boundary with consistent line/column, and a polynomial production budget via hook H5. Exploration only: absence is not established.",
          "Trusts: the tick hook counts every entry of primary/match_pattern/base_type/type_definition; budget 200*n^2+2e6. Two recorded findings (exponential backtracking) are excluded by construction and re-witnessed each run.",
          "DESIGN.md §4 C18"),
}

ALL = ["C%02d" % i for i in range(1, 21)]
REASONS_PENDING = "check not built yet in this revision of /verif (work in progress; see DESIGN.md §4 for the planned generator/oracle)"

def hooks_commits():
    out = subprocess.run(["git", "-C", "/repo", "log", "--format=%H %s"], capture_output=True, text=True).stdout
    return [l.split()[0] for l in out.splitlines() if " verif hooks" in l or l.split(" ",1)[1].startswith("verif hook")]

checks = []
for pid in ALL:
    if pid not in CLAIMED: continue
    tech, text, note, ref = CLAIMED[pid]
    checks.append({
        "property_id": pid,
        "quick_cmd": f"scripts/check.sh {pid} quick",
        "thorough_cmd": "scripts/thorough_c18.sh" if pid == "C18" else f"scripts/check.sh {pid} thorough",
        "evidence_file": f"/verif/evidence/{pid}.json",
        "replay_cmd_template": "harness/target/verif/qv replay {path}",
        "engine": "qv",
        "level_claimed": {"category": "exploration", "text": text, "design_ref": ref},
        "level_note": note,
        "technique": tech,
    })
manifest = {
    "version": 1,
    "setup_cmd": "scripts/setup.sh",
    "hooks": {
        "guard": "cargo feature `verif` on quiver-core, quiver-compiler, quiver-environment (default off)",
        "enable": "harness/Cargo.toml path-depends on /repo/quiver-{core,compiler,environment} with features=[\"verif\"]; every check runs `cargo build --profile verif` first, so it rebuilds from /repo's working tree",
        "baseline_off_cmd": "cd /repo && cargo test --workspace --no-fail-fast --offline",
        "source_commits": hooks_commits(),
        "add_only": True,
    },
    "engines": [{"name": "qv", "path": "harness/", "serves_properties": sorted(CLAIMED), "kind_free_text": "Rust binary: proptest-driven generators, deterministic simulator, reference models; one subcommand per property"}],
    "checks": checks,
    "not_applicable": [{"property_id": p, "reason": REASONS_PENDING} for p in ALL if p not in CLAIMED],
    "notes": "Exit codes: 0 held; 1 VIOLATION line printed; 2 harness problem/inconclusive (never a verdict). VERIF_SEED seeds every generator. known_findings.json lists recorded defects; see DESIGN.md §5.",
}
json.dump(manifest, open("/verif/MANIFEST.json", "w"), indent=1)
print("claimed:", sorted(CLAIMED))
