#!/bin/sh
# usage: scripts/run_all.sh [quick|thorough] — runs every claimed check, prints one line per check
TIER="${1:-quick}"
cd /verif || exit 2
for id in C01 C02 C03 C04 C05 C06 C07 C08 C09 C10 C11 C12 C13 C14 C15 C16 C17 C18 C19 C20; do
  out=$(scripts/check.sh $id $TIER 2>&1); code=$?
  echo "$id exit=$code $(echo "$out" | grep -E "^$id $TIER:" | tail -1)"
  echo "$out" | grep -E "^VIOLATION|^HARNESS|^INCONCLUSIVE|^NOTE" | head -5
done
