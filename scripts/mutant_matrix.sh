#!/bin/bash
# usage: scripts/mutant_matrix.sh — applies every seeded change to /repo in turn, runs the check of
# its property (plus listed cross-checks), reverts, and prints a table. Leaves /repo clean.
cd /verif || exit 2
declare -A EXTRA=( [C15-m2]="C14" [C07-m2]="C11" [C04-m1]="C03" [C15-m1]="C03" [C01-m3]="C09 C08" [C13-m3]="C11" [C07-m4]="C08" [C14-m3]="C15" [C04-m5]="C15" [C03-m5]="C05 C04" )
for d in seeded/*/; do
  m=$(basename $d); id=${m%%-*}
  # R-<Cxx>-<commit>: reverse of a repair; X-<Cxx>-…: a sensitivity change of my own
  case $m in R-*|X-*) id=$(echo $m | cut -d- -f2);; esac
  [ -f $d/patch.diff ] || continue
  for chk in $id ${EXTRA[$m]}; do
    r=$(scripts/try_mutant.sh /verif/$d/patch.diff $chk 2>&1)
    line=$(echo "$r" | grep -E "^MUTANT|DOES NOT APPLY" | head -1)
    sig=$(echo "$r" | grep "signature:" | head -1 | sed 's/ *signature: //')
    echo "$m on $chk: $(echo $line | sed 's/.*: //') $sig"
  done
done
rm -rf /verif/replays
git -C /verif checkout -- evidence 2>/dev/null
