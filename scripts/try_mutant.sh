#!/bin/bash
# usage: scripts/try_mutant.sh <patch.diff> <Cxx> [tier]   — applies a seeded change to /repo, runs the check, reverts.
PATCH="$1"; ID="$2"; TIER="${3:-quick}"
cd /repo || exit 2
if [ -n "$(git status --porcelain --untracked-files=no)" ]; then echo "repo not clean"; exit 2; fi
if ! git apply --check "$PATCH" 2>/dev/null; then
  if ! git apply --3way "$PATCH" 2>/dev/null; then echo "PATCH DOES NOT APPLY: $PATCH"; git reset -q --hard HEAD; exit 3; fi
else
  git apply "$PATCH"
fi
cd /verif
start=$(date +%s)
scripts/check.sh "$ID" "$TIER" > /tmp/mutant_out.txt 2>&1
code=$?
end=$(date +%s)
git -C /repo checkout -- .
git -C /repo status --porcelain --untracked-files=no
echo "MUTANT $PATCH on $ID: exit=$code time=$((end-start))s"
grep -E "^VIOLATION|signature:|HARNESS" /tmp/mutant_out.txt | head -8
# restore evidence from git (evidence must come from the unchanged tree)
git -C /verif checkout -- evidence 2>/dev/null
exit 0
