#!/bin/sh
# Offline build of the harness (binary qv) from files on disk only.
set -e
cd /verif/harness
export CARGO_NET_OFFLINE=true
mkdir -p target /verif/evidence /verif/replays
cat /repo/std/*.qv /repo/std/*/*.qv 2>/dev/null | sha1sum | cut -d' ' -f1 > target/std.stamp
touch /repo/quiver-compiler/src/resolver.rs
cargo build --profile verif 2>&1 | tail -3
