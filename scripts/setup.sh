#!/bin/sh
# Offline build of the harness (binary qv) from files on disk only.
set -e
cd /verif/harness
export CARGO_NET_OFFLINE=true
mkdir -p target /verif/evidence /verif/replays
cargo build --profile verif 2>&1 | tail -3
