#!/bin/sh
# usage: scripts/fuzz.sh <Cxx> [--runs N] [--jobs J]
# Builds the cargo-fuzz target(s) under harness/fuzz against /repo's current working tree (the
# harness library they link path-depends on /repo), then runs the coverage-guided campaign and
# judges every artifact with the property's oracle. Exit 0 = nothing found, 1 = VIOLATION printed,
# 2 = harness problem / inconclusive. Supplement of the thorough tier (see DESIGN.md §0.3).
ID="$1"; shift
cd /verif/harness || exit 2
export CARGO_NET_OFFLINE=true
mkdir -p /verif/harness/target
if ! cargo build --profile verif -q 2>/verif/harness/target/build-fuzz-$ID.log; then
  echo "HARNESS: build failed; not a property verdict" >&2; tail -40 /verif/harness/target/build-fuzz-$ID.log >&2; exit 2
fi
if ! cargo +nightly fuzz build c18_front >/verif/harness/target/build-fuzz-target.log 2>&1; then
  echo "HARNESS: fuzz target build failed; not a property verdict" >&2; tail -40 /verif/harness/target/build-fuzz-target.log >&2; exit 2
fi
ulimit -v unlimited 2>/dev/null
exec ./target/verif/qv fuzz "$ID" "$@"
