#!/bin/sh
# usage: scripts/check.sh <Cxx> <quick|thorough>
# Rebuilds the harness against /repo's current working tree (path dependencies, feature "verif"),
# then runs the check. Exit 0 = held, 1 = VIOLATION printed, 2 = harness problem / inconclusive.
ID="$1"; TIER="${2:-quick}"
cd /verif/harness || exit 2
export CARGO_NET_OFFLINE=true
mkdir -p /verif/harness/target
# std/*.qv is embedded with include_dir!, which cargo does not track: if it changed since the last
# build, bump the mtime of the embedding source file so the compiler crate is rebuilt.
STAMP=/verif/harness/target/std.stamp
NOW=$(cat /repo/std/*.qv /repo/std/*/*.qv 2>/dev/null | sha1sum | cut -d' ' -f1)
if [ "$(cat $STAMP 2>/dev/null)" != "$NOW" ]; then
  touch /repo/quiver-compiler/src/resolver.rs
  echo "$NOW" > $STAMP
fi
if ! cargo build --profile verif -q 2>/verif/harness/target/build-$ID.log; then
  echo "HARNESS: build failed (see below); not a property verdict" >&2
  tail -40 /verif/harness/target/build-$ID.log >&2
  exit 2
fi
# C10 also drives the real command line (quiv compile / quiv run as subprocesses): build it from
# /repo's working tree into the harness's own target directory
if [ "$ID" = "C10" ]; then
  if ! cargo build -q --manifest-path /repo/Cargo.toml -p quiver-cli --target-dir /verif/harness/target/cli 2>/verif/harness/target/build-cli.log; then
    echo "HARNESS: building quiver-cli failed (see below); not a property verdict" >&2
    tail -40 /verif/harness/target/build-cli.log >&2
    exit 2
  fi
fi
# address-space cap: an allocation blow-up in the checked code ends the run (exit 2 / reported case) instead of the machine
ulimit -v 41943040 2>/dev/null
exec ./target/verif/qv check "$ID" --tier "$TIER"
