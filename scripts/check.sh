#!/bin/sh
# usage: scripts/check.sh <Cxx> <quick|thorough>
# Rebuilds the harness against /repo's current working tree (path dependencies, feature "verif"),
# then runs the check. Exit 0 = held, 1 = VIOLATION printed, 2 = harness problem / inconclusive.
ID="$1"; TIER="${2:-quick}"
cd /verif/harness || exit 2
export CARGO_NET_OFFLINE=true
if ! cargo build --profile verif -q 2>/verif/harness/target/build-$ID.log; then
  echo "HARNESS: build failed (see below); not a property verdict" >&2
  tail -40 /verif/harness/target/build-$ID.log >&2
  exit 2
fi
exec ./target/verif/qv check "$ID" --tier "$TIER"
