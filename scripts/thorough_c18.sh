#!/bin/sh
# C18 thorough tier: the proptest search (check.sh) followed by the coverage-guided campaign
# (fuzz.sh, libFuzzer target harness/fuzz/fuzz_targets/c18_front.rs sharing the same oracle).
# Exit 1 if either part printed a VIOLATION, else 2 if either was inconclusive, else 0.
cd /verif || exit 2
scripts/check.sh C18 thorough; a=$?
[ $a -eq 1 ] && exit 1
scripts/fuzz.sh C18; b=$?
[ $b -eq 1 ] && exit 1
[ $a -ne 0 ] && exit $a
exit $b
